/-
  C11 — the consolidated byte layout and the pickle reducer that depends on it.

  `padOf/layoutFrom/layout`   mirror tensordict/base.py:_reduce_vals_and_metadata.add_single_value
                              (n = element_size·numel, padding, running start/stop)
  `encodeCat`                 mirrors consolidate, num_threads = 0: `_view_and_pad` + `torch.cat(items, out=storage)`
  `writeRange/runAssign`      mirror consolidate, num_threads > 0: one `assign` task per leaf,
                              `storage[start:stop].copy_(v_pad)`
  `decodeLeaf`                mirrors tensordict/_reductions.py:_rebuild_tensordict_files_consolidated
                              (`storage[start:stop].view(dtype)`, `[:numel]` when padded, `.view(shape)`)
  `State/step`                a tensordict together with its `_consolidated` snapshot under the
                              mutations of the property's histories
  `describes`                 mirrors tensordict/_reductions.py:_consolidated_is_current
  `reducePinned/reduceFixed`  mirror tensordict/_reductions.py:_reduce_td before / after the repair
-/
namespace TdVerif.C11

/-! ### byte layout -/

/-- padding of one value: the next multiple of 16 (`pad = n % 16; if pad != 0: pad = 16 - pad`),
    after `fix: consolidate aligns every leaf on 16 bytes`. -/
def padOf (n : Nat) : Nat :=
  let p := n % 16
  if p != 0 then 16 - p else 0

/-- the padding of the pinned tree: the next multiple of 8 -/
def padOfPinned (n : Nat) : Nat :=
  let p := n % 8
  if p != 0 then 8 - p else 0

/-- one entry of `metadata["leaves"]`: (start, stop, pad) -/
structure Slot where
  start : Nat
  stop : Nat
  pad : Nat
  deriving Repr, DecidableEq

/-- `add_single_value` over the values in iteration order, with its `nonlocal start`:
    `flat_size.append(n + pad); stop = start + flat_size[-1]; …; start = stop`.
    `pf` is the padding rule. -/
def layoutFromWith (pf : Nat → Nat) (start : Nat) : List Nat → List Slot
  | [] => []
  | n :: rest => ⟨start, start + (n + pf n), pf n⟩ :: layoutFromWith pf (start + (n + pf n)) rest

def layoutFrom := layoutFromWith padOf
def layout (ns : List Nat) : List Slot := layoutFrom 0 ns
def layoutPinned (ns : List Nat) : List Slot := layoutFromWith padOfPinned 0 ns

/-- `filesize = sum(flat_size)` -/
def totalSize (ns : List Nat) : Nat := (ns.map fun n => n + padOf n).sum

/-- dtype name, element size, shape of a leaf (what the metadata records about it) -/
structure LeafMeta where
  dtype : String
  itemsize : Nat
  shape : List Nat
  deriving Repr, DecidableEq

def LeafMeta.numel (m : LeafMeta) : Nat := m.shape.foldl (· * ·) 1
def LeafMeta.nbytes (m : LeafMeta) : Nat := m.itemsize * m.numel

/-- a leaf: metadata and its bytes in memory order (`v.contiguous().view(-1).view(uint8)`) -/
structure Leaf where
  lm : LeafMeta
  bytes : List Nat
  deriving Repr, DecidableEq

def Leaf.WF (l : Leaf) : Prop := l.bytes.length = l.lm.nbytes

/-- `_view_and_pad`: the bytes followed by `pad` zeros -/
def padded (bytes : List Nat) : List Nat := bytes ++ List.replicate (padOf bytes.length) 0

/-- num_threads = 0: `torch.cat([_view_and_pad(v) for v in flat_dict.values()], out=storage)` -/
def encodeCat (ls : List (List Nat)) : List Nat := ls.flatMap padded

/-- a byte store addressed by position (the `storage` tensor seen by the writer threads) -/
abbrev Bytes := Nat → Nat

/-- `storage[start:start+len(data)].copy_(data)` -/
def writeRange (st : Bytes) (start : Nat) (data : List Nat) : Bytes :=
  fun j => if start ≤ j ∧ j < start + data.length then data.getD (j - start) 0 else st j

/-- the `assign` tasks in submission order: (start of the slot, padded bytes) -/
def tasksFrom (start : Nat) : List (List Nat) → List (Nat × List Nat)
  | [] => []
  | b :: rest => (start, padded b) :: tasksFrom (start + (padded b).length) rest

/-- the executor runs the tasks in the order given -/
def runAssign (st : Bytes) (ts : List (Nat × List Nat)) : Bytes :=
  ts.foldl (fun st t => writeRange st t.1 t.2) st

/-- materialise the first `n` bytes of a store -/
def Bytes.toList (st : Bytes) (n : Nat) : List Nat := (List.range n).map st

/-- `storage[start:stop].view(dtype)[:numel].view(shape)`: `none` when torch refuses the dtype view
    (slice length or storage offset not a multiple of the element size) or the final reshape. -/
def decodeLeaf (storage : List Nat) (m : LeafMeta) (s : Slot) : Option Leaf :=
  let slice := (storage.drop s.start).take (s.stop - s.start)
  if m.itemsize = 0 then none
  else if slice.length % m.itemsize ≠ 0 ∨ s.start % m.itemsize ≠ 0 then none
  else
    let v := if s.pad ≠ 0 then slice.take m.nbytes else slice
    if v.length = m.nbytes then some ⟨m, v⟩ else none

def decodeAll (storage : List Nat) : List LeafMeta → List Slot → Option (List Leaf)
  | [], [] => some []
  | m :: ms, s :: ss =>
    match decodeLeaf storage m s, decodeAll storage ms ss with
    | some l, some tl => some (l :: tl)
    | _, _ => none
  | _, _ => none

/-! ### a tensordict with its consolidation snapshot -/

/-- what `_reduce_get_metadata` records about a (sub-)tensordict -/
structure NodeMeta where
  batch : List Nat
  names : Option (List String)
  device : Option String
  locked : Bool
  /-- the NonTensorData entries of the node: `metadata["non_tensors"][key] = (data, batch_size, device)`, written as one string per key;
      they live in the metadata, not in the storage -/
  nts : List (String × String) := []
  deriving Repr, DecidableEq

/-- where the data of a leaf lives -/
inductive Ref where
  /-- a view of the consolidated storage: the `i`-th slot -/
  | slot (i : Nat)
  /-- memory of its own -/
  | own (bytes : List Nat)
  deriving Repr, DecidableEq

structure Entry where
  key : List String
  lm : LeafMeta
  ref : Ref
  deriving Repr, DecidableEq

structure TD where
  /-- every (sub-)tensordict with its metadata, the root is `[]` -/
  nodes : List (List String × NodeMeta)
  /-- the leaves in iteration order -/
  entries : List Entry
  deriving Repr, DecidableEq

/-- `_consolidated = {"storage": …, "metadata": …}` -/
structure Snap where
  nodes : List (List String × NodeMeta)
  leaves : List (List String × LeafMeta × Slot)
  storage : List Nat
  deriving Repr, DecidableEq

structure State where
  td : TD
  snap : Option Snap
  deriving Repr, DecidableEq

/-- the observable content: node metadata and, per leaf, key / dtype / shape / bytes -/
structure Obs where
  nodes : List (List String × NodeMeta)
  leaves : List (List String × Leaf)
  deriving Repr, DecidableEq

/-- bytes of slot `i` of a snapshot, read the way `_rebuild_tensordict_files_consolidated` reads them
    (an undecodable slot shows as empty bytes) -/
def Snap.read (sn : Snap) (i : Nat) : List Nat :=
  match sn.leaves[i]? with
  | some (_, m, s) => ((decodeLeaf sn.storage m s).map (·.bytes)).getD []
  | none => []

def Ref.bytes (snap : Option Snap) : Ref → List Nat
  | .own b => b
  | .slot i => match snap with
    | some sn => sn.read i
    | none => []

def observe (s : State) : Obs :=
  ⟨s.td.nodes, s.td.entries.map fun e => (e.key, ⟨e.lm, e.ref.bytes s.snap⟩)⟩

/-- the leaves of a snapshot read back one by one, `i` = index of the first one -/
def Snap.readAll (sn : Snap) : Nat → List (List String × LeafMeta × Slot) → List (List String × Leaf)
  | _, [] => []
  | i, (k, m, _) :: rest => (k, ⟨m, sn.read i⟩) :: sn.readAll (i + 1) rest

/-- what unpickling the consolidated branch returns: everything comes from the snapshot -/
def rebuildSnap (sn : Snap) : Obs := ⟨sn.nodes, sn.readAll 0 sn.leaves⟩

/-- a tensordict consolidated in a file is on cpu whereas its metadata may carry no device -/
def normDev (d : Option String) : Option String := some (d.getD "cpu")
def NodeMeta.norm (m : NodeMeta) : NodeMeta := { m with device := normDev m.device }
def normNodes (l : List (List String × NodeMeta)) : List (List String × NodeMeta) :=
  l.map fun p => (p.1, p.2.norm)
def Obs.norm (o : Obs) : Obs := { o with nodes := normNodes o.nodes }

/-- every leaf of the tensordict is exactly the `i`-th view of the storage -/
def refsAligned : Nat → List Entry → Bool
  | _, [] => true
  | i, e :: rest => (e.ref == .slot i) && refsAligned (i + 1) rest

/-- mirrors `_consolidated_is_current`: the metadata recomputed from the tensordict equals the
    snapshot's (keys, dtypes, shapes, offsets, batch sizes, names, lock state; devices up to
    `None`≈storage device) and every leaf still points at its slot of the storage. -/
def describes (sn : Snap) (td : TD) : Bool :=
  (normNodes sn.nodes == normNodes td.nodes)
    && (sn.leaves.map (fun p => (p.1, p.2.1)) == td.entries.map (fun e => (e.key, e.lm)))
    && (sn.leaves.map (fun p => p.2.2) == layout (td.entries.map fun e => e.lm.nbytes))
    && refsAligned 0 td.entries

/-- `_reduce_td` on the pinned tree: the snapshot wins whenever there is one -/
def reducePinned (s : State) : Obs :=
  match s.snap with
  | some sn => rebuildSnap sn
  | none => observe s

/-- `_reduce_td` after the repair: the snapshot only if it still describes the tensordict,
    otherwise `__getstate__` (the content as it is, without the obsolete storage) -/
def reduceFixed (s : State) : Obs :=
  match s.snap with
  | some sn => if describes sn s.td then rebuildSnap sn else observe s
  | none => observe s

/-! ### mutations -/

inductive Op where
  /-- `td = td.consolidate(...)`; `file`: a filename was given (the result is on cpu) -/
  | consolidate (file : Bool)
  /-- `td[key] = tensor` on a new or an existing key: the entry owns fresh memory -/
  | set (key : List String) (lm : LeafMeta) (bytes : List Nat)
  /-- `del td[key]` -/
  | del (key : List String)
  /-- `td.set_(key, v)`, `td[key].add_(…)`, `td.apply_(…)`: written through the existing tensor -/
  | setInplace (key : List String) (bytes : List Nat)
  | lock
  | unlock
  /-- `td.names = …` (all (sub-)tensordicts of the histories share the batch dims) -/
  | setNames (names : Option (List String))
  /-- `td.rename_key_(old, new)` -/
  | rename (old new : List String)
  /-- `td[k1], td[k2] = td[k2], td[k1]` on two existing keys: the right-hand side is read first, then each
      key is re-bound to the *other tensor object* (`_set_str` stores the tensor it is given, no copy):
      both keys keep their place in the dict, the tensors (dtype, shape, memory) change places -/
  | swap (k1 k2 : List String)
  /-- `td[dst] = td[src]`: `dst` (new or existing) is bound to the tensor `src` is bound to -/
  | assign (dst src : List String)
  /-- `td[path].set_non_tensor(key, value)` / `td[path + key] = NonTensorData(value)`: a non-tensor entry of the node `path` is set (new key
      or new payload) -/
  | setNonTensor (path : List String) (key payload : String)
  /-- `del td[path + key]` for a non-tensor entry -/
  | delNonTensor (path : List String) (key : String)
  /-- `td = pickle.loads(pickle.dumps(td))`, `td = copy.deepcopy(td)`, or the tensordict that arrives in another process
      (`_reduce_td` is the reducer registered for all three): the history goes on with the rebuilt tensordict -/
  | reduce
  deriving Repr

def setLocked (b : Bool) (td : TD) : TD :=
  { td with nodes := td.nodes.map fun p => (p.1, { p.2 with locked := b }) }

/-- the storage of a snapshot with slot `i` overwritten by `bytes` (padding untouched) -/
def Snap.writeSlot (sn : Snap) (i : Nat) (bytes : List Nat) : Snap :=
  match sn.leaves[i]? with
  | some (_, _, s) =>
    { sn with storage := sn.storage.take s.start ++ bytes ++ sn.storage.drop (s.start + bytes.length) }
  | none => sn

/-- a new key goes to the end of its parent's dict: in the depth-first iteration order of the
    leaves that is right after the last leaf of the parent's subtree (at the very end for the root;
    the histories only add keys to sub-tensordicts that already hold a leaf). -/
def insertInSubtree (es : List Entry) (e : Entry) : List Entry :=
  let parent := e.key.dropLast
  let inSub := fun (x : Entry) => parent.isPrefixOf x.key
  -- index just after the last entry of the subtree
  let idx := (es.zipIdx.filter fun p => inSub p.1).foldl (fun _ p => p.2 + 1) es.length
  es.take idx ++ [e] ++ es.drop idx

/-- after consolidation every leaf is the view of its slot -/
def reindex : Nat → List Entry → List Entry
  | _, [] => []
  | i, e :: rest => { e with ref := Ref.slot i } :: reindex (i + 1) rest

/-- the entries of a tensordict rebuilt from a snapshot: leaf `i` is the view of slot `i` -/
def slotEntries : Nat → List (List String × LeafMeta × Slot) → List Entry
  | _, [] => []
  | i, (k, m, _) :: rest => ⟨k, m, .slot i⟩ :: slotEntries (i + 1) rest

/-- `_rebuild_tensordict_files_consolidated.from_metadata` fills the new tensordict with the leaves of the node first
    (`metadata["leaves"]`, in their order) and with its sub-tensordicts afterwards: the rebuilt tensordict iterates the root's
    leaves before the nested ones, whatever the order was (the metadata do not record the interleaving) -/
def leavesFirst (es : List Entry) : List Entry :=
  es.filter (fun e => decide (e.key.length ≤ 1)) ++ es.filter (fun e => !decide (e.key.length ≤ 1))

def step (s : State) : Op → State
  | .consolidate file =>
    match s.snap with
    | some _ => s          -- `if self.is_consolidated(): return self`
    | none =>
      let leaves := s.td.entries.map fun e => e.ref.bytes none
      let slots := layout (s.td.entries.map fun e => e.lm.nbytes)
      let sn : Snap := ⟨s.td.nodes, (s.td.entries.zip slots).map (fun p => (p.1.key, p.1.lm, p.2)), encodeCat leaves⟩
      let entries := reindex 0 s.td.entries
      let nodes := if file then s.td.nodes.map (fun p => (p.1, { p.2 with device := some "cpu" })) else s.td.nodes
      ⟨⟨nodes, entries⟩, some sn⟩
  | .set key lm bytes =>
    if s.td.entries.any (·.key == key) then
      { s with td := { s.td with entries := s.td.entries.map fun e => if e.key == key then ⟨key, lm, .own bytes⟩ else e } }
    else
      let es := insertInSubtree s.td.entries ⟨key, lm, .own bytes⟩
      { s with td := { s.td with entries := es } }
  | .del key => { s with td := { s.td with entries := s.td.entries.filter (·.key != key) } }
  | .setInplace key bytes =>
    match s.td.entries.find? (·.key == key) with
    | none => s
    | some e =>
      match e.ref, s.snap with
      | .slot i, some sn => { s with snap := some (sn.writeSlot i bytes) }
      | _, _ => { s with td := { s.td with entries := s.td.entries.map fun e' => if e'.key == key then { e' with ref := .own bytes } else e' } }
  | .lock => { s with td := setLocked true s.td }
  | .unlock => { s with td := setLocked false s.td }
  | .setNames names =>
    { s with td := { s.td with nodes := s.td.nodes.map fun p => (p.1, { p.2 with names := names }) } }
  | .rename old new =>
    match s.td.entries.find? (·.key == old) with
    | none => s
    | some e =>
      -- `rename_key_` sets the new key (end of the parent's dict), then deletes the old one
      let renamed : Entry := ⟨new, e.lm, e.ref⟩
      let es := (insertInSubtree s.td.entries renamed).filter (·.key != old)
      { s with td := { s.td with entries := es } }

  | .reduce =>
    -- `_reduce_td`: a snapshot that is current is sent as (metadata, storage) and rebuilt by
    -- `_rebuild_tensordict_files_consolidated` (the result is consolidated again, on a storage of its own);
    -- otherwise `__getstate__` without the obsolete storage: every leaf is sent for itself
    let own : State := ⟨⟨s.td.nodes, s.td.entries.map fun e => { e with ref := .own (e.ref.bytes s.snap) }⟩, none⟩
    match s.snap with
    | some sn => if describes sn s.td then ⟨⟨sn.nodes, leavesFirst (slotEntries 0 sn.leaves)⟩, some sn⟩ else own
    | none => own
  | .setNonTensor path key payload =>
    { s with td := { s.td with nodes := s.td.nodes.map fun p =>
        if p.1 == path then
          (p.1, { p.2 with nts := if p.2.nts.any (·.1 == key) then p.2.nts.map (fun q => if q.1 == key then (key, payload) else q)
                                  else p.2.nts ++ [(key, payload)] })
        else p } }
  | .delNonTensor path key =>
    { s with td := { s.td with nodes := s.td.nodes.map fun p =>
        if p.1 == path then (p.1, { p.2 with nts := p.2.nts.filter (·.1 != key) }) else p } }
  | .swap k1 k2 =>
    match s.td.entries.find? (·.key == k1), s.td.entries.find? (·.key == k2) with
    | some e1, some e2 =>
      { s with td := { s.td with entries := s.td.entries.map fun e =>
          if e.key == k1 then ⟨k1, e2.lm, e2.ref⟩ else if e.key == k2 then ⟨k2, e1.lm, e1.ref⟩ else e } }
    | _, _ => s
  | .assign dst src =>
    match s.td.entries.find? (·.key == src) with
    | none => s
    | some e =>
      if s.td.entries.any (·.key == dst) then
        { s with td := { s.td with entries := s.td.entries.map fun e' => if e'.key == dst then ⟨dst, e.lm, e.ref⟩ else e' } }
      else
        { s with td := { s.td with entries := insertInSubtree s.td.entries ⟨dst, e.lm, e.ref⟩ } }

def run (s : State) (ops : List Op) : State := ops.foldl step s

/-- the check of the seeded variant of `_consolidated_is_current` that only asks every leaf to be *some*
    view of the storage (same metadata, same untyped storage) instead of the view at its own offset -/
def describesSomeSlot (sn : Snap) (td : TD) : Bool :=
  (normNodes sn.nodes == normNodes td.nodes)
    && (sn.leaves.map (fun p => (p.1, p.2.1)) == td.entries.map (fun e => (e.key, e.lm)))
    && (sn.leaves.map (fun p => p.2.2) == layout (td.entries.map fun e => e.lm.nbytes))
    && td.entries.all fun e => match e.ref with | .slot _ => true | .own _ => false

end TdVerif.C11
