/-
  C11 — pytree flatten / unflatten of (nested) tensordicts.

  `flatten/flattenKids`      mirror tensordict/_pytree.py:_tensordict_flatten applied recursively by
                             torch.utils._pytree.tree_flatten (children = the values in key order; the
                             context records keys, batch_size, names, device — **not** the lock state)
  `unflatten/unflattenKids`  mirror torch.utils._pytree.tree_unflatten + _tensordict_unflatten /
                             _tensordict_constructor (`cls._new_unsafe(dict(zip(keys, values)), batch_size,
                             names, device)`: a fresh, unlocked tensordict)
-/
namespace TdVerif.C11

/-- a (nested) tensordict as pytree sees it; leaves are tensors, identified by a number -/
inductive PT where
  | leaf (v : Nat)
  | node (batch : List Nat) (names : Option (List String)) (device : Option String) (locked : Bool)
      (kids : List (String × PT))
  deriving Repr

/-- the TreeSpec: `*` for a leaf, the context of `_tensordict_flatten` plus the children's specs -/
inductive Spec where
  | leaf
  | node (keys : List String) (batch : List Nat) (names : Option (List String)) (device : Option String)
      (kids : List Spec)
  deriving Repr

mutual
def flatten : PT → List Nat × Spec
  | .leaf v => ([v], .leaf)
  | .node b n d _ kids =>
    let r := flattenKids kids
    (r.1, .node (kids.map (·.1)) b n d r.2)
def flattenKids : List (String × PT) → List Nat × List Spec
  | [] => ([], [])
  | (_, t) :: rest =>
    let a := flatten t
    let b := flattenKids rest
    (a.1 ++ b.1, a.2 :: b.2)
end

mutual
/-- rebuild from a spec, consuming leaves from the front; `none`: not enough leaves / keys -/
def unflatten : Spec → List Nat → Option (PT × List Nat)
  | .leaf, [] => none
  | .leaf, v :: rest => some (.leaf v, rest)
  | .node keys b n d kids, leaves =>
    match unflattenKids keys kids leaves with
    | none => none
    | some (ks, rest) => some (.node b n d false ks, rest)
def unflattenKids : List String → List Spec → List Nat → Option (List (String × PT) × List Nat)
  | [], [], leaves => some ([], leaves)
  | k :: keys, s :: specs, leaves =>
    match unflatten s leaves with
    | none => none
    | some (t, rest) =>
      match unflattenKids keys specs rest with
      | none => none
      | some (ts, rest') => some ((k, t) :: ts, rest')
  | _, _, _ => none
end

mutual
/-- the same tensordict, every (sub-)tensordict unlocked -/
def unlockAll : PT → PT
  | .leaf v => .leaf v
  | .node b n d _ kids => .node b n d false (unlockKids kids)
def unlockKids : List (String × PT) → List (String × PT)
  | [] => []
  | (k, t) :: rest => (k, unlockAll t) :: unlockKids rest
end

end TdVerif.C11
