/-
  C12 — chunking arithmetic of `map` / `map_iter` and the reassembly of the worker results.

  A tensordict is seen *along the mapped dim* as its list of rows (`List α`, one element per index
  of that dim; everything else — other batch dims, keys, feature dims — is inside `α`).
  `td[(slice(None),)*dim + (slice(a, b),)]` is `rows.extract a b`, `torch.cat(l, dim)` is
  `List.flatten`, `td.unbind(dim)` is the list itself.  (Model/C12Tensor.lean relates this view to
  coordinate maps over an arbitrary shape and dim.)

  `splitLoop/splitSlices`   mirror tensordict/_td.py:TensorDict.split            (int split_size branch)
  `chunkSlices`             mirrors tensordict/base.py:TensorDictBase.chunk
  `genLoop`                 mirrors tensordict/utils.py:_split_tensordict.next_index (both variants)
  `splitTensordict`         mirrors tensordict/utils.py:_split_tensordict
  `mapNoOut/reassembleOut/mapSharedOut/mapModel`
                            mirror tensordict/base.py:TensorDictBase._map
-/
namespace TdVerif.C12

/-- Python `-(n // -k)` for `n ≥ 0`, `k > 0` (floor division): the ceiling of `n / k`.
    (`k = 0` raises ZeroDivisionError in Python; every caller below tests for it first.) -/
def ceilDiv (n k : Nat) : Nat := (n + k - 1) / k

/-- mirrors tensordict/_td.py:TensorDict.split — `while idx1 < max_size: idx0 = idx1;
    idx1 = min(max_size, idx1 + split_size); split_sizes.append(slice(idx0, idx1))`.
    With `split_size = 0 < max_size` the Python loop never terminates (DESIGN §7 row 4); that input
    is unreachable from `_split_tensordict` (see `splitTensordict`), the model stops instead. -/
def splitLoop (n ss idx1 : Nat) : List (Nat × Nat) :=
  if idx1 < n ∧ 0 < ss then
    (idx1, min n (idx1 + ss)) :: splitLoop n ss (min n (idx1 + ss))
  else []
termination_by n - idx1
decreasing_by omega

/-- mirrors tensordict/_td.py:TensorDict.split (int): `idx0 = 0; idx1 = min(max_size, split_size);
    split_sizes = [slice(idx0, idx1)]` then the loop. Always at least one slice. -/
def splitSlices (n ss : Nat) : List (Nat × Nat) :=
  (0, min n ss) :: splitLoop n ss (min n ss)

/-- mirrors tensordict/base.py:TensorDictBase.chunk — `chunks < 1` raises ValueError (`none`),
    otherwise `split(-(n // -chunks), dim)`. -/
def chunkSlices (n k : Nat) : Option (List (Nat × Nat)) :=
  if k < 1 then none else some (splitSlices n (ceilDiv n k))

/-- mirrors tensordict/utils.py:_split_tensordict.next_index — `idx_start = 0; idx_end = chunksize;
    while idx_start < n: yield slice(idx_start, idx_end); idx_start = idx_end; idx_end += chunksize`.
    `stop` is *not* clamped to `n` (the slice is clamped by indexing).
    With `chunksize = 0 < n` Python would yield `slice(0, 0)` forever; unreachable from
    `_split_tensordict` (chunksize 0 takes the unbind branch, and the ceiling is 0 only for n = 0). -/
def genLoop (n cs start stop : Nat) : List (Nat × Nat) :=
  if start < n ∧ start < stop then
    (start, stop) :: genLoop n cs stop (stop + cs)
  else []
termination_by n - start
decreasing_by omega

/-- what `_split_tensordict` hands to one worker call -/
inductive Piece where
  /-- `td[base + (slice(start, stop),)]`; `stop` may exceed `n` in generator mode -/
  | rng (start stop : Nat)
  /-- `td[base + (i,)]` (generator) or member `i` of `td.unbind(dim)`: the mapped dim is removed -/
  | idx (i : Nat)
  deriving Repr, DecidableEq

inductive SplitErr where
  /-- ValueError: both chunksize and num_chunks -/
  | both
  /-- ValueError of `chunk`: chunks must be strictly positive -/
  | chunks
  /-- ZeroDivisionError inside the generator (raised at the first `next`) -/
  | zerodiv
  deriving Repr, DecidableEq

/-- `num_chunks = min(max(td.shape[dim], 1), num_chunks)` — at most one chunk per element, but one
    (empty) chunk along an empty dim (after `fix: map(num_chunks=…) on an empty dimension`; the pinned
    tree had `min(n, num_chunks)`, i.e. 0 chunks for n = 0 and a division by zero / ValueError). -/
def effChunks (n k : Nat) : Nat := min (max n 1) k

/-- the `num_chunks is not None` branch of `_split_tensordict`;
    generator: `chunksize = -(n // -num_chunks)` *inside* the generator (ZeroDivisionError at the
    first `next` when `num_chunks = 0`), then the running slices; eager: `td.chunk(num_chunks, dim)`. -/
def splitByCount (n k : Nat) (gen : Bool) : Except SplitErr (List Piece) :=
  if gen then
    if effChunks n k = 0 then .error .zerodiv
    else .ok ((genLoop n (ceilDiv n (effChunks n k)) 0 (ceilDiv n (effChunks n k))).map fun p => .rng p.1 p.2)
  else
    match chunkSlices n (effChunks n k) with
    | none => .error .chunks
    | some l => .ok (l.map fun p => .rng p.1 p.2)

/-- the `chunksize is not None` branch: 0 → `range(n)` / `td.unbind(dim)`; otherwise the generator
    with unclamped stops, or `td.split(min(n, chunksize), dim)`. -/
def splitBySize (n cs : Nat) (gen : Bool) : Except SplitErr (List Piece) :=
  if cs = 0 then .ok ((List.range n).map .idx)
  else if gen then .ok ((genLoop n cs 0 cs).map fun p => .rng p.1 p.2)
  else .ok ((splitSlices n (min n cs)).map fun p => .rng p.1 p.2)

/-- mirrors tensordict/utils.py:_split_tensordict (shuffle = False).  `n = td.shape[dim]`.
    Branch order as in the source: neither given → `num_chunks = num_workers`; both given →
    ValueError; then the two branches above. -/
def splitTensordict (n : Nat) (chunksize numChunks : Option Nat) (numWorkers : Nat) (gen : Bool) :
    Except SplitErr (List Piece) :=
  match chunksize, numChunks with
  | none, none => splitByCount n numWorkers gen
  | some _, some _ => .error .both
  | none, some k => splitByCount n k gen
  | some cs, none => splitBySize n cs gen

/-- the method `_split_tensordict` calls on `td` when `use_generator=False` -/
inductive EagerCall where
  | chunk (k : Nat)
  | split (ss : Nat)
  | unbind
  deriving Repr, DecidableEq

/-- which call, with which argument (the eager half of `_split_tensordict`) -/
def eagerCall (n : Nat) (chunksize numChunks : Option Nat) (numWorkers : Nat) :
    Except SplitErr EagerCall :=
  match chunksize, numChunks with
  | none, none => .ok (.chunk (effChunks n numWorkers))
  | some _, some _ => .error .both
  | none, some k => .ok (.chunk (effChunks n k))
  | some cs, none => if cs = 0 then .ok .unbind else .ok (.split (min n cs))

/-- what that call returns (`TensorDictBase.chunk`, `TensorDict.split`, `unbind`) -/
def runEager (n : Nat) : EagerCall → Except SplitErr (List Piece)
  | .chunk k =>
    match chunkSlices n k with
    | none => .error .chunks
    | some l => .ok (l.map fun p => .rng p.1 p.2)
  | .split ss => .ok ((splitSlices n ss).map fun p => .rng p.1 p.2)
  | .unbind => .ok ((List.range n).map .idx)

/-- the indices along the mapped dim that a piece selects out of `n` (slice clamping) -/
def Piece.rows (n : Nat) : Piece → List Nat
  | .rng s e => List.range' s (min e n - s)
  | .idx i => if i < n then [i] else []

/-- the piece of a row list (what the worker function receives) -/
def Piece.extract (rows : List α) : Piece → List α
  | .rng s e => (rows.drop s).take (e - s)
  | .idx i => (rows.drop i).take 1

/-- length along the mapped dim of the chunk as seen by `_map` (`item.shape[dim]`, resp. 1 per
    unbound member) -/
def Piece.len (n : Nat) (p : Piece) : Nat := (p.rows n).length

/-! ### reassembly in `_map` -/

/-- `out is None`: `imaplist` collects the non-None results; `torch.cat(imaplist, dim)` /
    `maybe_dense_stack(imaplist, dim)`; nothing collected → `None` is returned.
    A result of an unbound member (`chunksize = 0`) is a one-row list. -/
def mapNoOut (results : List (Option (List β))) : Option (List β) :=
  let imaplist := results.filterMap id
  if imaplist.isEmpty then none else some imaplist.flatten

/-- `out[base + (slice(start, stop),)].update_(item)`: raises (`none`) when the destination slice
    and the item disagree in length along the dim. -/
def writeRows (out : List β) (start : Nat) (item : List β) : Option (List β) :=
  if start + item.length ≤ out.length then
    some (out.take start ++ item ++ out.drop (start + item.length))
  else none

/-- mirrors the `for item in imap` loop of `_map` with a regular (not shared / memmap) `out`,
    **after** `fix: map(out=...) keeps the running offset aligned when a chunk returns None`:
    each result comes with the length of the chunk that produced it; the running `start` advances
    by `item.shape[dim]` (1 when chunksize = 0) for a result and by the chunk length for `None`. -/
def reassembleOut : Nat → List β → List (Nat × Option (List β)) → Option (List β)
  | _, out, [] => some out
  | start, out, (len, none) :: rest => reassembleOut (start + len) out rest
  | start, out, (_, some item) :: rest =>
    match writeRows out start item with
    | none => none
    | some out' => reassembleOut (start + item.length) out' rest

/-- the same loop as on the pinned tree (4564555): `start` is **not** advanced for `None`. -/
def reassembleOutPinned : Nat → List β → List (Nat × Option (List β)) → Option (List β)
  | _, out, [] => some out
  | start, out, (_, none) :: rest => reassembleOutPinned start out rest
  | start, out, (_, some item) :: rest =>
    match writeRows out start item with
    | none => none
    | some out' => reassembleOutPinned (start + item.length) out' rest

/-- shared / memmap `out`: `out` is split with the same arguments, the wrapper run in the worker
    does `out_piece.update_(result)` (skipped for `None` after the second fix) and returns `None`.
    Writes go through views, so they land in `out` at the rows of the piece. -/
def writePiece (out : List β) (p : Piece) (item : Option (List β)) : Option (List β) :=
  match item with
  | none => some out
  | some item =>
    match p with
    | .rng s e => if item.length = min e out.length - s then writeRows out s item else none
    | .idx i => if item.length = 1 then writeRows out i item else none

def mapSharedOut : List β → List (Piece × Option (List β)) → Option (List β)
  | out, [] => some out
  | out, (p, r) :: rest =>
    match writePiece out p r with
    | none => none
    | some out' => mapSharedOut out' rest

/-! ### `_map` as a whole -/

inductive OutKind where
  /-- `out=None` -/
  | absent
  /-- a regular tensordict: results are collected in the parent and written with a running offset -/
  | regular
  /-- `out.is_shared() or out.is_memmap()`: split like the input, written inside the workers -/
  | shared
  deriving Repr, DecidableEq

inductive MapErr where
  | split (e : SplitErr)
  /-- `update_` raised: destination slice and result disagree in length -/
  | update
  /-- `_zip_strict(self_split, out_split)` raised -/
  | zip
  deriving Repr, DecidableEq

/-- mirrors tensordict/base.py:TensorDictBase._map (iterable = False, shuffle = False).
    `rows` = the input along the mapped dim, `fn piece chunk` = the user function (`none` = `None`),
    `out` = the rows of the `out=` buffer (ignored for `.absent`).
    Returns (value returned by `map`, final content of the buffer).
    * absent  : `imaplist` of the non-None results, `torch.cat` / stack; `None` when nothing collected
    * regular : running-offset loop (`reassembleOut`), `out` itself is returned
    * shared  : `out` is split with the *same* arguments, zipped strictly with the input pieces, every
                worker updates its piece; the wrapper returns `None`, so `map` returns `None`. -/
def mapModel (rows : List α) (cs nc : Option Nat) (w : Nat) (gen : Bool)
    (fn : Piece → List α → Option (List β)) (kind : OutKind) (out : List β) :
    Except MapErr (Option (List β) × List β) :=
  match splitTensordict rows.length cs nc w gen with
  | .error e => .error (.split e)
  | .ok ps =>
    match kind with
    | .absent => .ok (mapNoOut (ps.map fun p => fn p (p.extract rows)), out)
    | .regular =>
      match reassembleOut 0 out (ps.map fun p => ((p.extract rows).length, fn p (p.extract rows))) with
      | none => .error .update
      | some out' => .ok (some out', out')
    | .shared =>
      match splitTensordict out.length cs nc w gen with
      | .error e => .error (.split e)
      | .ok ops =>
        if ops.length ≠ ps.length then .error .zip
        else
          match mapSharedOut out (ops.zip (ps.map fun p => fn p (p.extract rows))) with
          | none => .error .update
          | some out' => .ok (none, out')

/-- the same with the reassembly loop of the pinned tree (used only for the recorded counter-witness) -/
def mapRegularPinned (rows : List α) (ps : List Piece) (fn : Piece → List α → Option (List β))
    (out : List β) : Option (List β) :=
  reassembleOutPinned 0 out (ps.map fun p => ((p.extract rows).length, fn p (p.extract rows)))

end TdVerif.C12
