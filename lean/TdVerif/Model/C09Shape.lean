/-
  C09 — shapes: left broadcasting of tensor operands and the metadata of reductions.

  mirrors tensordict/utils.py:`expand_as_right`, `_maybe_correct_neg_dim`;
          tensordict/base.py:`_maybe_broadcast_other`;
          tensordict/_td.py:`TensorDict._cast_reduction` (the per-entry branch, after the `fix:` commits
          for keepdim names, dim=None and prod(keepdim)), `TensorDict.all/any`;
          tensordict/base.py:`logsumexp`, `prod` (keepdim post-processing).
  The torch side (`Tensor.expand`, `Tensor.unsqueeze(-1)`, the shape of a reduction) is the spec part.
-/
import TdVerif.Model.C09KV

namespace TdVerif.C09

abbrev Shape := List Nat

/-- functional tensor: a shape and a total coordinate map (meaningful on in-bounds coordinates) -/
structure T (α : Type) where
  shape : Shape
  get : List Nat → α

/-! ### torch spec -/

/-- source coordinate read by `Tensor.expand`: right aligned, size-1 dims are read at 0 -/
def expandCoord (src : Shape) (c : List Nat) : List Nat :=
  List.zipWith (fun d i => if d = 1 then 0 else i) src (c.drop (c.length - src.length))

/-- `Tensor.expand(tgt)` is legal: no more dims than the target, each dim equal or 1 (right aligned) -/
def expandOk (src tgt : Shape) : Bool :=
  src.length ≤ tgt.length &&
    (List.zipWith (fun d t => d == t || d == 1) src (tgt.drop (tgt.length - src.length))).all id

def T.expand {α : Type} (t : T α) (tgt : Shape) : Except Err (T α) :=
  if expandOk t.shape tgt then .ok ⟨tgt, fun c => t.get (expandCoord t.shape c)⟩ else .error .runtime

/-- `tensor.unsqueeze(-1)` -/
def T.unsqueezeLast {α : Type} (t : T α) : T α := ⟨t.shape ++ [1], fun c => t.get c.dropLast⟩

def T.unsqueezeLastN {α : Type} (t : T α) : Nat → T α
  | 0 => t
  | n + 1 => (t.unsqueezeLast).unsqueezeLastN n

/-- `torch.broadcast_shapes` on reversed shapes -/
def broadcastRev : List Nat → List Nat → Option (List Nat)
  | [], l => some l
  | l, [] => some l
  | a :: as, b :: bs =>
    match broadcastRev as bs with
    | none => none
    | some r => if a = b then some (a :: r) else if a = 1 then some (b :: r) else if b = 1 then some (a :: r) else none

def broadcastShapes (a b : Shape) : Option Shape := (broadcastRev a.reverse b.reverse).map List.reverse

/-- shape torch gives to a reduction over the (normalised) dims `ds` -/
def reduceShape (s : Shape) (ds : List Nat) (keepdim : Bool) : Shape :=
  if keepdim then (s.zipIdx.map (fun p => if ds.contains p.2 then 1 else p.1))
  else (s.zipIdx.filter (fun p => !ds.contains p.2)).map (·.1)

/-! ### tensordict side -/

/-- mirrors tensordict/utils.py:`expand_as_right(tensor, dest)` -/
def expandAsRight {α : Type} (t : T α) (dest : Shape) : Except Err (T α) :=
  if dest.length < t.shape.length then .error .runtime
  else if (List.zipWith (fun d e => d != e && d != 1) t.shape dest).any id then .error .runtime
  else (t.unsqueezeLastN (dest.length - t.shape.length)).expand dest

/-- mirrors tensordict/base.py:`_maybe_broadcast_other` for a tensor operand of shape `oshape` against a
tensordict of batch size `batch`: `shape = broadcast_shapes(batch, oshape)`, `self.expand(shape)`,
`other.expand(shape)`, then per leaf `x` (of shape `shape ++ feat`) `expand_as_right(other, x)`.
Result: the broadcast batch size and the operand as seen by the leaf. -/
def broadcastOther {α : Type} (batch : Shape) (o : T α) (feat : Shape) : Except Err (Shape × T α) :=
  match broadcastShapes batch o.shape with
  | none => .error .runtime
  | some shape =>
    if !expandOk batch shape then .error .runtime     -- self.expand(shape)
    else
      match o.expand shape with
      | .error e => .error e
      | .ok o' =>
        match expandAsRight o' (shape ++ feat) with
        | .error e => .error e
        | .ok r => .ok (shape, r)

/-- mirrors tensordict/base.py:`_inplace_tensor_operand` (in-place ops, added by a `fix:` commit): the
operand must expand to the batch size itself (`other.expand(self.batch_size)`), then to each leaf -/
def broadcastOtherInplace {α : Type} (batch : Shape) (o : T α) (feat : Shape) : Except Err (T α) :=
  match o.expand batch with
  | .error e => .error e
  | .ok o' => expandAsRight o' (batch ++ feat)

/-- mirrors tensordict/utils.py:`_maybe_correct_neg_dim(dim, None, ndim)` -/
def correctNegDim (d : Int) (ndim : Nat) : Except Err Nat :=
  let nd := if d < 0 then (ndim : Int) + d else d
  if nd < 0 ∨ nd ≥ ndim then .error .index else .ok nd.toNat

/-- the `dim` argument of a reduction front-end -/
inductive DimArg where
  | noDefault
  | none
  | feature
  | int (d : Int)
  | tuple (ds : List Int)
  deriving Repr

/-- per front-end constants of `_cast_reduction` -/
structure RedCfg where
  tupleOk : Bool          -- sum/mean/nansum/nanmean/std/var: True; prod/amin/amax/min/max/cummin/cummax: False
  callOnNested : Bool     -- True for the tupleOk family and prod, False for amin/amax/min/max/cum*
  fixedBatch : Bool       -- cummin/cummax pass batch_size=self.batch_size
  deriving Repr

/-- what every leaf is asked to do -/
inductive LeafRed where
  | all (keepdim : Option Bool)                      -- no `dim` kwarg: every dim of the leaf
  | dimNone (keepdim : Option Bool)                  -- `dim=None`
  | dims (ds : List Nat) (keepdim : Option Bool)     -- `dim=<int or tuple>` (already normalised)
  | feature                                          -- flatten the feature dims, reduce the last
  deriving Repr, DecidableEq

structure RedOut where
  batch : Shape
  names : Option (List String)     -- `none`: no names on the result
  leaf : LeafRed
  deriving Repr, DecidableEq

def dropAt (l : List α) (ds : List Nat) : List α := (l.zipIdx.filter (fun p => !ds.contains p.2)).map (·.1)

def mapMExcept {α β : Type} (f : α → Except Err β) : List α → Except Err (List β)
  | [] => .ok []
  | x :: xs =>
    match f x with
    | .error e => .error e
    | .ok y =>
      match mapMExcept f xs with
      | .error e => .error e
      | .ok ys => .ok (y :: ys)

/-- `dim` after `proc_dim` (and `dim = dim[0]` when tuples are not allowed) -/
inductive PDim where
  | noDefault | none | feature
  | one (d : Nat)
  | many (ds : List Nat)

/-- mirrors `proc_dim` of tensordict/_td.py:`_cast_reduction`.  A tuple passed to a front-end with
`tuple_ok=False` is outside the documented signature (`dim: int`); the code then silently uses its first
member unnormalised — the model rejects that input class (`type`), it is not part of the modelled domain. -/
def procDim (cfg : RedCfg) (dim : DimArg) (ndim : Nat) : Except Err PDim :=
  match dim with
  | .noDefault => .ok .noDefault
  | .none => if cfg.tupleOk then .ok .none else .error .type      -- `dim = dim[0]` on None
  | .feature => .ok .feature
  | .int d =>
    match correctNegDim d ndim with
    | .error e => .error e
    | .ok n => if cfg.tupleOk then .ok (.many [n]) else .ok (.one n)
  | .tuple ds =>
    if cfg.tupleOk then
      match mapMExcept (fun d => correctNegDim d ndim) ds with
      | .error e => .error e
      | .ok ns => .ok (.many ns)
    else .error .type

/-- mirrors the per-entry branch of tensordict/_td.py:`TensorDict._cast_reduction`
(`keepdim`: `none` = NO_DEFAULT, which is falsy) -/
def castReduction (cfg : RedCfg) (batch : Shape) (names : Option (List String)) (dim : DimArg)
    (keepdim : Option Bool) : Except Err RedOut :=
  let keep := keepdim.getD false
  match procDim cfg dim batch.length with
  | .error e => .error e
  | .ok .feature =>
    if keep then .error .type                       -- "dim='feature' is incompatible with keepdim=True."
    else if !cfg.callOnNested then .error .runtime
    else .ok ⟨batch, names, .feature⟩
  | .ok .noDefault =>
    if keep then
      -- `elif dim is not NO_DEFAULT or keepdim`
      .ok ⟨if cfg.fixedBatch then batch else batch.map (fun _ => 1), names, .all keepdim⟩
    else .ok ⟨[], Option.none, .all Option.none⟩      -- last branch: batch_size=[], names=None
  | .ok .none =>
    .ok ⟨if cfg.fixedBatch then batch else if keep then batch.map (fun _ => 1) else [],
         if keep || cfg.fixedBatch then names else Option.none, .dimNone keepdim⟩
  | .ok (.one d) =>
    .ok ⟨if cfg.fixedBatch then batch else reduceShape batch [d] keep,
         if keep || cfg.fixedBatch then names else names.map (fun ns => dropAt ns [d]), .dims [d] keepdim⟩
  | .ok (.many ds) =>
    .ok ⟨if cfg.fixedBatch then batch else reduceShape batch ds keep,
         if keep || cfg.fixedBatch then names else names.map (fun ns => dropAt ns ds), .dims ds keepdim⟩

/-- what `reduce=True` does with the leaves: concatenate them and reduce the concatenation -/
inductive FurtherRed where
  | flatAll                                            -- no dim: flatten every leaf, cat, reduce everything
  | feature                                            -- flatten the feature dims, cat along -1, reduce -1
  | dims (catDim : Nat) (ds : List Nat) (single : Bool) (keepdim : Option Bool)
  deriving Repr, DecidableEq

/-- mirrors the `further_reduce` branch of tensordict/_td.py:`TensorDict._cast_reduction` (after fix 7dcdffe:
dims are normalised against the batch dims) -/
def furtherReduce (batch : Shape) (dim : DimArg) (keepdim : Option Bool) : Except Err FurtherRed :=
  match dim with
  | .noDefault => .ok .flatAll
  | .feature => .ok .feature
  | .none => .error .type                              -- `torch.cat(..., dim=None)`
  | .int d =>
    match correctNegDim d batch.length with
    | .error e => .error e
    | .ok n => .ok (.dims n [n] true keepdim)
  | .tuple ds =>
    match mapMExcept (fun d => correctNegDim d batch.length) ds with
    | .error e => .error e
    | .ok [] => .error .index                          -- `cat_dim = dim[0]`
    | .ok (n :: ns) => .ok (.dims n (n :: ns) false keepdim)

/-- shape torch gives to one leaf of shape `batch ++ feat` under `LeafRed` -/
def leafShape (batch feat : Shape) : LeafRed → Shape
  | .all k => if k.getD false then (batch ++ feat).map (fun _ => 1) else []
  | .dimNone k => if k.getD false then (batch ++ feat).map (fun _ => 1) else []
  | .dims ds k => reduceShape (batch ++ feat) ds (k.getD false)
  | .feature => batch

end TdVerif.C09
