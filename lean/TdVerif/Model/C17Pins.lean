/-
  Hashes of the sources the models were transcribed from and last validated against (harness/c02_gen.py --repin).
  Refreshed by the builder after re-reading the model against a changed function; compared with Gen/C02Src.lean by
  `transcribed_sources_unchanged`.
-/
namespace TdVerif.C17

/-- pinned AST hashes -/
def c17Pinned : List (String × String) := [
  ("tensordict/utils.py:_as_context_manager", "ccb824c7fb187479"),
  ("tensordict/base.py:TensorDictBase.__enter__", "b9b89de2b47d5699"),
  ("tensordict/base.py:TensorDictBase.__exit__", "8fd9c119af6132ee"),
  ("tensordict/_contextlib.py:_reverse_lock", "24dade106562b11f"),
  ("tensordict/_contextlib.py:_reverse_unlock", "03609580e469e621"),
  ("tensordict/_contextlib.py:_reverse_transpose", "3e0af763afa11700"),
  ("tensordict/_contextlib.py:_reverse_flatten_keys", "ee2511604a428a7d"),
  ("tensordict/_contextlib.py:_reverse_unflatten_keys", "c6e7392d8dff37a9"),
  ("tensordict/_contextlib.py:_reverse_flatten", "d59adef2462e8fb1"),
  ("tensordict/_contextlib.py:_reverse_unflatten", "5e482a47d5ec8d73"),
  ("tensordict/_contextlib.py:_reverse_permute", "0a45781eec3a2ea7"),
  ("tensordict/_contextlib.py:_reverse_view", "3a88533ecc32be10"),
  ("tensordict/_contextlib.py:_reverse_unsqueeze", "9b5392f2d9f1d75e"),
  ("tensordict/_contextlib.py:_reverse_squeeze", "0f31afe84dfa7a23")
]

end TdVerif.C17
