/-
  C17 — context-managed transformations: model.

  A tensordict is abstracted to its metadata `St` (batch size, dim names, leaf key paths, lock flag);
  values are handled by the oracle of check_C17.py and by the value-level inverse theorems over the
  functional tensors of C02 (Props/C17.lean, section "values").

  What is transcribed:
    * how each `@_as_context_manager` method binds a *spelled* call (positional / keyword / varargs)
      — `toOp` (base.py front-ends, utils.py:_get_shape_from_args);
    * the forward effect — the C02 model (`opMeta`) for the shape ops, `flattenKeys`/`unflattenKeys`, lock flag;
    * utils.py:_as_context_manager — what is recorded on the result (`(name, (args, kwargs, ref))`,
      or nothing when `is_locked` did not change);
    * tensordict/_contextlib.py:_reverse_* — `reverse`: from the recorded *raw* args/kwargs, which method
      with which arguments is called on the yielded object at `__exit__` (after the keyword-spelling fix d29ab81);
    * the write-back `out.update(inv, inplace=False)` / `out.update_(inv)` by lock state — `writeBack`.
-/
import TdVerif.Model.C02Td

namespace TdVerif.C17
open TdVerif.C02

/-- an argument value as spelled at the call site -/
inductive Val where
  | int (i : Int)
  | ints (l : List Int)
  | str (s : List Char)
  | bool (b : Bool)
  | none
  deriving DecidableEq, Repr

/-- a spelled call: positional arguments and keyword arguments -/
structure Call where
  args : List Val
  kwargs : List (String × Val)
  deriving DecidableEq, Repr

/-- a key component is a string (as a list of characters); a key is a path of components -/
abbrev Key := List (List Char)

/-- metadata of a tensordict -/
structure St where
  bs : Shape
  names : Names
  keys : List Key
  locked : Bool
  deriving DecidableEq, Repr

def Call.kw (c : Call) (k : String) : Option Val := (c.kwargs.find? (fun p => p.1 == k)).map (·.2)

/-! ### Python call binding -/

/-- bind positional and keyword arguments to a parameter list with optional defaults
(`TypeError` for too many positionals, unknown or duplicated keywords, missing required parameters) -/
def bindOne (c : Call) (p : String × Option Val) (i : Nat) : Except Err Val :=
  match c.args[i]?, c.kw p.1 with
  | some _, some _ => .error .type      -- multiple values for the argument
  | some v, Option.none => .ok v
  | Option.none, some v => .ok v
  | Option.none, Option.none => match p.2 with | some d => .ok d | Option.none => .error .type

def bindLoop (c : Call) : List (String × Option Val) → Nat → Except Err (List Val)
  | [], _ => .ok []
  | p :: ps, i =>
    match bindOne c p i with
    | .error e => .error e
    | .ok v => match bindLoop c ps (i + 1) with
      | .error e => .error e
      | .ok vs => .ok (v :: vs)

def bindParams (params : List (String × Option Val)) (c : Call) : Except Err (List Val) :=
  if c.args.length > params.length then .error .type else
  if c.kwargs.any (fun kv => ¬ params.any (fun p => p.1 == kv.1)) then .error .type else
  if (c.kwargs.map (·.1)).eraseDups.length ≠ c.kwargs.length then .error .type else
  bindLoop c params 0

def asInt : Val → Except Err Int
  | .int i => .ok i
  | _ => .error .type

def asInts : Val → Except Err (List Int)
  | .ints l => .ok l
  | _ => .error .type

def asStr : Val → Except Err (List Char)
  | .str s => .ok s
  | _ => .error .type

/-- utils.py:_get_shape_from_args(*args, kwarg_name=…, **kwargs) -/
def shapeFromArgs (c : Call) (kwname : String) : Except Err (List Int) :=
  match c.args with
  | [] =>
    if c.kwargs.isEmpty then .ok []
    else match c.kw kwname with
      | some (.ints l) => .ok l
      | _ => .error .type
  | a :: rest =>
    if ¬ c.kwargs.isEmpty then .error .type
    else match a, rest with
      | .ints l, [] => .ok l
      | _, _ => c.args.mapM asInt

/-- the parameter lists of the decorated methods with explicit signatures (checked against the source by
`Props.C17.signatures_match`); varargs methods (`permute`, `squeeze`, `unsqueeze`, `view`) are listed as in source -/
def modelParams : List (String × List String) := [
  ("flatten", ["start_dim", "end_dim"]),
  ("flatten_keys", ["separator", "inplace", "is_leaf"]),
  ("lock_", []),
  ("permute", ["*args", "**kwargs"]),
  ("squeeze", ["*args", "**kwargs"]),
  ("to_module", ["module", "inplace", "return_swap", "swap_dest", "use_state_dict", "non_blocking", "memo"]),
  ("transpose", ["dim0", "dim1"]),
  ("unflatten", ["dim", "unflattened_size"]),
  ("unflatten_keys", ["separator", "inplace"]),
  ("unlock_", []),
  ("unsqueeze", ["*args", "**kwargs"]),
  ("view", ["*shape", "size", "batch_size"])]

/-- the operations this model gives a forward semantics to -/
inductive Fwd where
  | shape (op : Op)
  | flattenKeys (sep : List Char)
  | unflattenKeys (sep : List Char)
  | lock
  | unlock
  deriving Repr

def Fwd.isLockOp : Fwd → Bool
  | .lock => true
  | .unlock => true
  | _ => false

/-- how a spelled call of method `name` is bound (base.py front-ends) -/
def toOp (name : String) (c : Call) : Except Err Fwd :=
  match name with
  | "transpose" => do
    let vs ← bindParams [("dim0", Option.none), ("dim1", Option.none)] c
    pure (.shape (.transpose (← asInt (vs.getD 0 .none)) (← asInt (vs.getD 1 .none))))
  | "permute" => do pure (.shape (.permute (← shapeFromArgs c "dims")))
  | "squeeze" => do
    -- `self._squeeze(*args, **kwargs)` with `_squeeze(self, dim=None)`
    let vs ← bindParams [("dim", some .none)] c
    match vs.getD 0 .none with
    | .none => pure (.shape (.squeeze Option.none))
    | v => pure (.shape (.squeeze (some (← asInt v))))
  | "unsqueeze" => do
    let vs ← bindParams [("dim", Option.none)] c
    pure (.shape (.unsqueeze (← asInt (vs.getD 0 .none))))
  | "flatten" => do
    let vs ← bindParams [("start_dim", some (.int 0)), ("end_dim", some (.int (-1)))] c
    pure (.shape (.flatten (← asInt (vs.getD 0 .none)) (← asInt (vs.getD 1 .none))))
  | "unflatten" => do
    let vs ← bindParams [("dim", Option.none), ("unflattened_size", Option.none)] c
    pure (.shape (.unflatten (← asInt (vs.getD 0 .none)) (← asInts (vs.getD 1 .none))))
  | "view" =>
    -- `view(self, *shape, size=None, batch_size=None)`: `_view(size=size) if size is not None else _view(*shape)`
    if c.kwargs.any (fun kv => kv.1 != "size" && kv.1 != "batch_size") then .error .type else
    match (c.kw "size").getD .none with
    | .ints l => .ok (.shape (.view l))
    | .none => do pure (.shape (.view (← shapeFromArgs ⟨c.args, []⟩ "size")))
    | .int _ => .error .type
    | .str _ => .error .type
    | .bool _ => .error .type
  | "flatten_keys" => do
    let vs ← bindParams [("separator", some (.str ['.'])), ("inplace", some (.bool false)), ("is_leaf", some .none)] c
    pure (.flattenKeys (← asStr (vs.getD 0 .none)))
  | "unflatten_keys" => do
    let vs ← bindParams [("separator", some (.str ['.'])), ("inplace", some (.bool false))] c
    pure (.unflattenKeys (← asStr (vs.getD 0 .none)))
  | "lock_" => do let _ ← bindParams [] c; pure .lock
  | "unlock_" => do let _ ← bindParams [] c; pure .unlock
  | _ => .error .type

/-! ### key operations -/

/-- `sep.join(key)` -/
def joinSep (sep : List Char) : Key → List Char
  | [] => []
  | [k] => k
  | k :: rest => k ++ sep ++ joinSep sep rest

/-- `s.split(c)` for a one-character separator -/
def splitC (c : Char) : List Char → List (List Char)
  | [] => [[]]
  | x :: xs =>
    if x = c then [] :: splitC c xs
    else match splitC c xs with
      | h :: t => (x :: h) :: t
      | [] => [[x]]

/-- `s.split(sep)` for any non-empty separator (leftmost, non-overlapping), by fuel = length -/
def splitFuel (sep : List Char) : Nat → List Char → List Char → List (List Char)
  | 0, _, cur => [cur.reverse]
  | fuel + 1, s, cur =>
    match s with
    | [] => [cur.reverse]
    | x :: xs =>
      if sep.isPrefixOf s then cur.reverse :: splitFuel sep fuel (s.drop sep.length) []
      else splitFuel sep fuel xs (x :: cur)

def splitSep (sep : List Char) (s : List Char) : List (List Char) :=
  match sep with
  | [] => [s]          -- Python raises ValueError("empty separator"); not in the modelled domain
  | [c] => splitC c s
  | _ => splitFuel sep (s.length + 1) s []

def isPrefixKey (p q : Key) : Bool := p.isPrefixOf q

/-- a set of leaf paths is a valid tensordict key structure: no duplicates, no leaf that is also a node -/
def validKeys (ks : List Key) : Bool :=
  ks.eraseDups.length == ks.length && ks.all (fun p => ks.all (fun q => p == q || !isPrefixKey p q))

def flattenKey (sep : List Char) (k : Key) : Key := [joinSep sep k]

/-- base.py:_flatten_keys_outplace — every leaf path joined with the separator; collisions → KeyError -/
def flattenKeys (sep : List Char) (ks : List Key) : Except Err (List Key) :=
  let flat := ks.map (flattenKey sep)
  if flat.eraseDups.length ≠ flat.length then .error .key else .ok flat

/-- base.py:unflatten_keys — every *top-level* key containing the separator is renamed to the split path
(`rename_key_(…, safe=True)`); nested entries are left alone; clashes → KeyError -/
def unflattenKey (sep : List Char) (k : Key) : Key :=
  match k with
  | [s] => splitSep sep s
  | k => k

def unflattenKeys (sep : List Char) (ks : List Key) : Except Err (List Key) :=
  let out := ks.map (unflattenKey sep)
  if validKeys out then .ok out else .error .key

/-- no key component contains the separator character, and no path is empty -/
def NoSepInKeys (c : Char) (ks : List Key) : Prop := ∀ k ∈ ks, k ≠ [] ∧ ∀ comp ∈ k, c ∉ comp

/-- a flat tensordict: every leaf is a top-level entry -/
def FlatKeys (ks : List Key) : Prop := ∀ k ∈ ks, ∃ s, k = [s]

/-! ### forward effect -/

/-- result of a forward call: the yielded state and whether it is the very same object (`return self`) -/
structure Yielded where
  st : St
  isSelf : Bool
  /-- what `_as_context_manager` recorded on the result: `none` = `_last_op` is None -/
  recorded : Bool
  deriving Repr

def emptyUnflatten : Op → Bool
  | .unflatten _ sz => sz.isEmpty
  | _ => false

def applyFwd (f : Fwd) (s : St) : Except Err Yielded :=
  match f with
  | .shape op =>
    match opMeta op s.bs s.names with
    | .error e => .error e
    | .ok Option.none => .ok ⟨s, true, true⟩
    | .ok (some (bs', nm, _)) =>
      -- C17 domain: the original has at least one leaf whose non-batch part has numel ≠ 0, so torch's own size check
      -- in the per-leaf `view`/`unflatten` call applies (Props.C02.view_leaf_validates; leafless originals are the
      -- C02 known finding): inconsistent sizes raise RuntimeError
      if prod bs' ≠ prod s.bs then .error .runtime else
      if emptyUnflatten op then .error .runtime else
      -- `propagate_lock=True`: the result of a locked tensordict is locked
      let nm' : Names := match op with
        | .unflatten _ _ => nm       -- assigned through the setter; same list up to the all-None normalisation
        | _ => nm
      .ok ⟨{ bs := bs', names := normNames nm', keys := s.keys, locked := s.locked }, false, true⟩
  | .flattenKeys sep =>
    match flattenKeys sep s.keys with
    | .error e => .error e
    -- `_flatten_keys_outplace` builds a new (unlocked) tensordict
    | .ok ks => .ok ⟨{ s with keys := ks, locked := false }, false, true⟩
  | .unflattenKeys sep =>
    match unflattenKeys sep s.keys with
    | .error e => .error e
    -- `self._clone(recurse=False).unflatten_keys(inplace=True)`: the clone is unlocked
    | .ok ks => .ok ⟨{ s with keys := ks, locked := false }, false, true⟩
  -- utils.py:_as_context_manager("is_locked"): recorded only if the attribute changed
  | .lock => .ok ⟨{ s with locked := true }, true, !s.locked⟩
  | .unlock => .ok ⟨{ s with locked := false }, true, s.locked⟩

def fwd (name : String) (c : Call) (s : St) : Except Err Yielded := do
  let f ← toOp name c
  applyFwd f s

/-! ### the registered inverses (tensordict/_contextlib.py) -/

def normNeg (d : Int) (n : Nat) : Int := if d < 0 then n + d else d

/-- `np.argsort` of a list of distinct ints: position of the k-th smallest -/
def argsort (l : List Int) : List Int :=
  (l.mergeSort (fun a b => a ≤ b)).map (fun v => (l.idxOf v : Int))

/-- the inverse of a permutation `p` of `range n`: position of each `k` in `p` -/
def invPerm (p : List Nat) : List Nat := (List.range p.length).map (fun k => p.idxOf k)

/-- Python `seq[a : b+1]` for non-negative `a`, any `b` -/
def pySlice (l : List Nat) (a b : Int) : List Nat :=
  if a < 0 ∨ b + 1 ≤ a then [] else (l.drop a.toNat).take ((b + 1 - a).toNat)

/-- `_reverse_*`: method name and call applied to the yielded object `self`, given the original `out` -/
def reverse (name : String) (c : Call) (self out : St) : Except Err (String × Call) :=
  match name with
  | "lock_" => .ok ("unlock_", ⟨[], []⟩)
  | "unlock_" => .ok ("lock_", ⟨[], []⟩)
  | "transpose" =>
    -- (after fix d29ab81) `len(args) == 2 | len(args) == 1 + kwargs["dim1"] | kwargs["dim0"], kwargs["dim1"]`
    match c.args with
    | [a, b] => .ok ("transpose", ⟨[a, b], []⟩)
    | [a] => match c.kw "dim1" with
      | some b => .ok ("transpose", ⟨[a, b], []⟩)
      | Option.none => .error .key
    | [] => match c.kw "dim0", c.kw "dim1" with
      | some a, some b => .ok ("transpose", ⟨[a, b], []⟩)
      | _, _ => .error .key
    | _ => .error .value          -- too many values to unpack
  | "flatten_keys" =>
    let sep := match c.args with | a :: _ => a | [] => (c.kw "separator").getD (.str ['.'])
    .ok ("unflatten_keys", ⟨[sep], []⟩)
  | "unflatten_keys" =>
    let sep := match c.args with | a :: _ => a | [] => (c.kw "separator").getD (.str ['.'])
    .ok ("flatten_keys", ⟨[sep], []⟩)
  | "flatten" => do
    let (d0, d1) : Val × Val := match c.args with
      | [a, b] => (a, b)
      | [a] => (a, (c.kw "end_dim").getD (.int (-1)))
      | _ => ((c.kw "start_dim").getD (.int 0), (c.kw "end_dim").getD (.int (-1)))
    let d0 ← asInt d0
    let d1 ← asInt d1
    let d1 := normNeg d1 out.bs.length
    let d0 := normNeg d0 out.bs.length
    pure ("unflatten", ⟨[.int d0, .ints ((pySlice out.bs d0 d1).map Int.ofNat)], []⟩)
  | "unflatten" => do
    let (d0, sz) : Val × Val := match c.args with
      | a :: rest => (a, match rest with | b :: _ => b | [] => (c.kw "unflattened_size").getD .none)
      | [] => ((c.kw "dim").getD .none, (c.kw "unflattened_size").getD .none)
    let d0 ← asInt d0
    let sz ← asInts sz
    let d0 := normNeg d0 out.bs.length
    -- (after fix 24799c4) `dim1 == dim0`: nothing to flatten back, `self` is written back as it is
    if sz.length = 1 then pure ("identity", ⟨[], []⟩)
    else pure ("flatten", ⟨[.int d0, .int (d0 + sz.length - 1)], []⟩)
  | "permute" => do
    let dims ← shapeFromArgs c "dims"
    let dims := dims.map (fun d => if d ≥ 0 then d else (self.bs.length : Int) + d)
    pure ("permute", ⟨[.ints (argsort dims)], []⟩)
  | "view" => .ok ("view", ⟨[.ints (out.bs.map Int.ofNat)], []⟩)
  | "unsqueeze" =>
    match c.args with
    | [d] => .ok ("squeeze", ⟨[d], []⟩)
    | [] => if c.kwargs.isEmpty then .error .runtime
            else match c.kw "dim" with | some d => .ok ("squeeze", ⟨[d], []⟩) | Option.none => .error .key
    | _ => .error .value
  | "squeeze" =>
    -- (after fix c836249) a no-op squeeze returned `self`: `if out is self: return self` — see `exitBlock`
    match c.args with
    | [d] => .ok ("unsqueeze", ⟨[d], []⟩)
    | [] => if c.kwargs.isEmpty then .error .runtime
            else match c.kw "dim" with | some d => .ok ("unsqueeze", ⟨[d], []⟩) | Option.none => .error .key
    | _ => .error .value
  | _ => .error .assertion     -- __exit__: NotImplementedError("Unrecognised function")

/-! ### write-back and the `with` block -/

/-- `out.update(inv, inplace=False)` (unlocked: entries rebound, new keys admitted, a new leaf replaces a
node of the same name and vice versa) / `out.update_(inv)` (locked: in place, keys not in `out` are ignored);
a batch-size mismatch raises -/
def insertPath (ks : List Key) (p : Key) : List Key :=
  if ks.contains p then ks
  else (ks.filter (fun q => !(isPrefixKey q p) && !(isPrefixKey p q))) ++ [p]

/-- two key paths are unrelated: neither is a prefix of the other (in particular they differ) -/
def Unrelated (p q : Key) : Prop := isPrefixKey p q = false ∧ isPrefixKey q p = false

def writeBack (out inv : St) : Except Err St :=
  if inv.bs ≠ out.bs then .error .runtime
  else if out.locked then .ok out
  else .ok { out with keys := inv.keys.foldl insertPath out.keys }

/-- edits made to the yielded object inside the block -/
inductive Edit where
  | value                 -- in-place value edit: no metadata change
  | addKey (k : Key)      -- `y[k] = tensor`: needs an unlocked yielded object
  deriving Repr

def applyEdit (y : St) : Edit → Except Err St
  | .value => .ok y
  | .addKey k => if y.locked then .error .lock else .ok { y with keys := insertPath y.keys k }

def applyEdits (y : St) : List Edit → Except Err St
  | [] => .ok y
  | e :: es => do let y' ← applyEdit y e; applyEdits y' es

/-- base.py:__exit__ on the (modified) yielded object `y`, original `out` -/
def exitBlock (name : String) (c : Call) (recorded isSelf : Bool) (y out : St) : Except Err St :=
  if ¬ recorded then .ok out else do
    let (invName, invCall) ← reverse name c y out
    if name = "squeeze" ∧ isSelf then pure out else
    match invName with
    | "lock_" | "unlock_" =>
      -- `_reverse_lock/_unlock` act on `self`, which *is* the original
      let r ← fwd invName invCall y
      pure r.st
    | "identity" => writeBack out y
    | _ =>
      let inv ← fwd invName invCall y
      writeBack out inv.st

/-- `with orig.<name>(<call>) as y: <edits>` — returns the original afterwards -/
def withBlock (name : String) (c : Call) (edits : List Edit) (orig : St) : Except Err St := do
  let y ← fwd name c orig
  let y' ← applyEdits y.st edits
  -- when the method returned `self`, the edits were made on the original itself
  let out := if y.isSelf then y' else orig
  exitBlock name c y.recorded y.isSelf y' out

/-- nested blocks: `with orig.<n1>(c1) as y: (with y.<n2>(c2) as z: edits2); edits1` — the inner block is entered on the
yielded object and exits first (LIFO: `_last_op_queue` is a stack per object) -/
def withNested (n1 : String) (c1 : Call) (n2 : String) (c2 : Call) (edits2 edits1 : List Edit) (orig : St) : Except Err St := do
  let y ← fwd n1 c1 orig
  let y1 ← withBlock n2 c2 edits2 y.st
  let y2 ← applyEdits y1 edits1
  let out := if y.isSelf then y2 else orig
  exitBlock n1 c1 y.recorded y.isSelf y2 out

/-- nested blocks on the *same* object: `with orig.<n1>(c1) as y: (with orig.<n2>(c2) as z: edits2); edits1 on y` -/
def withSibling (n1 : String) (c1 : Call) (n2 : String) (c2 : Call) (edits2 edits1 : List Edit) (orig : St) : Except Err St := do
  let y ← fwd n1 c1 orig
  -- when the outer call returned `self`, the inner block runs on that very object
  let o1 ← withBlock n2 c2 edits2 (if y.isSelf then y.st else orig)
  let yst := if y.isSelf then o1 else y.st
  let y2 ← applyEdits yst edits1
  let out := if y.isSelf then y2 else o1
  exitBlock n1 c1 y.recorded y.isSelf y2 out

/-- the original is a TEMPORARY (`with make_td().<name>(<call>) as y:`): the record made by `_as_context_manager` holds only a weak
reference to it.  When the method returned a new object the original is gone at exit (`out_wr()` is `None`): after the fix in
base.py:__exit__ there is nothing to write back to and the exit just returns.  When the method returned the original itself (a no-op
squeeze, a transpose of a dim with itself, `lock_`…) the yielded object keeps it alive and the ordinary exit runs.  The result is the
state of the YIELDED object after the block. -/
def withTempBlock (name : String) (c : Call) (edits : List Edit) (orig : St) : Except Err St := do
  let y ← fwd name c orig
  let y' ← applyEdits y.st edits
  if y.isSelf then exitBlock name c y.recorded y.isSelf y' y' else pure y'

/-! ### bindings: which tensor (storage) every leaf path names

The metadata state above cannot tell `update(…, inplace=False)` (the original's entries are REBOUND to the tensors of the inverse image)
from `update(…, inplace=True)` / `update_` (the data is copied INTO the tensors the original already holds): both leave the same key
set. `Binds` records, per leaf path, an identifier of the tensor it is bound to (observed as the storage pointer by the harness). -/

abbrev Binds := List (Key × Nat)

def lookupB : Binds → Key → Option Nat
  | [], _ => none
  | (k', id) :: b, k => if k' = k then some id else lookupB b k

/-- one entry of `out.update(inv, inplace=False)`: an existing leaf path is rebound to the new tensor; a new path is added (a leaf
replaces a node of the same name and vice versa, as in `insertPath`) -/
def bindPath (b : Binds) (p : Key × Nat) : Binds :=
  if (lookupB b p.1).isSome then b.map (fun q => if q.1 = p.1 then (q.1, p.2) else q)
  else (b.filter (fun q => !(isPrefixKey q.1 p.1) && !(isPrefixKey p.1 q.1))) ++ [p]

/-- the tail of every `_reverse_*`: `out.update_(inv)` when the original is locked (in place: no binding changes, paths that are
not in `out` are ignored), `out.update(inv, inplace=False)` when it is not -/
def writeBackB (locked : Bool) (out inv : Binds) : Binds :=
  if locked then out else inv.foldl bindPath out

/-- the paths of the inverse image, given the bindings of the (modified) yielded object: shape ops keep the paths,
`flatten_keys` is undone by `unflatten_keys` and vice versa (separator as bound from the spelled call) -/
def invBinds (name : String) (c : Call) (y : Binds) : Except Err Binds :=
  match toOp name c with
  | .error e => .error e
  | .ok (.flattenKeys sep) => .ok (y.map fun p => (unflattenKey sep p.1, p.2))
  | .ok (.unflattenKeys sep) => .ok (y.map fun p => (flattenKey sep p.1, p.2))
  | .ok _ => .ok y

/-- bindings of the original after `__exit__` -/
def exitBinds (name : String) (c : Call) (locked : Bool) (out y : Binds) : Except Err Binds := do
  let inv ← invBinds name c y
  pure (writeBackB locked out inv)

end TdVerif.C17
