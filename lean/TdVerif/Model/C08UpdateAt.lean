/-
  C08 — `lazy.update_at_(value, index)` (tensordict/_lazy.py): the index write that does not go
  through `__setitem__` (it is also what `_stack_onto_` calls for `torch.stack(..., out=)`).
-/
import TdVerif.Model.C08SetMask2

namespace TdVerif.C08

/-- mirrors `update_at_(value, index)` (_lazy.py) for a tensordict value: `_split_index(index)`
(which expands the Ellipsis itself); a mask or an integer tensor addressed to the stack dim → the
generic key-by-key path of base.py (`set_at_` → `_set_at_str`, i.e. the writes of `lazySetCoreM`);
an integer on the stack dim → the one member's `update_at_`; otherwise piece `i` of
`value.unbind(stack_dim - num_single + num_none - num_squash)`, zipped strictly with the selected
members, goes to member `i`'s `update_at_` -/
def lazyUpdateAt (L : Lazy α) (ix : List Ix) (v : TD α) : Option (Lazy α) :=
  (convertEllipsis ix L.batch.length).bind fun ix' =>
  (splitIndex L ix').bind fun st =>
    if st.hasBool ∨ st.isNd then lazySetCoreM L ix' v
    else
      let ud : Int := (L.sd : Int) - st.numSingle + st.numNone - st.numSquash
      if st.isInteger then
        match st.sel with
        | .single i => (memberSet L.members st.out i v).map fun ms => { L with members := ms }
        | _ => none
      else if ud < 0 then none
      else
        let ids := st.sel.ids L.members.length
        if v.batch[ud.toNat]? ≠ some ids.length then none else
        (writeAll st.out ((List.range ids.length).map fun j =>
            (ids[j]?.getD L.members.length, v.select ud.toNat j)) L.members).map
          fun ms => { L with members := ms }

end TdVerif.C08
