/-
  C19 — histories on a LOCKED tensordict between vmap calls.

  `_add_batch_dim` is `@cache`d (tensordict/utils.py `cache`): on a tensordict that owns a lock
  (`_is_locked is True`) the batched wrapper built for (in_dim, vmap_level) is stored in the node's
  `_cache` and handed back on the next call.  The wrapper holds references to the *tensors* that were
  in the node and in every nested node when it was built (and to their metadata: names, batch size).

    * in-place writes (`add_`, `set_`, `update_`, `td[idx] = …`, `share_memory_` on a nested node) change
      the content of those same tensors: the memoised wrapper shows the new values;
    * a few operations permitted under lock REBIND the tensors or the metadata of a node: `memmap_()`
      (this node and every nested node), `names = …` (idem), `batch_size = …` (this node only, unless it carries dim names: then like `names`), and, on a
      node without lock parents, `unlock_()` / `set` / `lock_()`.  They call `_erase_cache_up`, which
      empties the cache of the node and of every *lock parent*, transitively;
    * `lock_()` on a node makes it a lock parent of every nested node; a lazy stack over members that
      were locked beforehand merely reports `is_locked` (`_is_locked is None`): it is no lock parent
      of its members, and `cache` does not memoise on it.

  The model: nodes 0..n-1 with a content-parent relation; each node has a generation counter (bumped by
  a rebinding), a cache, and a wrapper records the generations of its subtree at build time.  The
  theorem (Props/C19.lean): whenever the lock graph covers the content graph wherever something is
  memoised (`Graph.WF`), every wrapper any request returns was built from the current generations.
-/
import TdVerif.Model.C19Vmap

namespace TdVerif.C19.MH
open TdVerif.C19

inductive Kind | unlocked | own | byMembers
  deriving DecidableEq, Repr

/-- concrete topology: `cparent[k]` is the node that contains node `k`; `kind[k]` how it is locked -/
structure Topo where
  cparent : List (Option Nat)
  kind : List Kind
  deriving Repr

def Topo.n (t : Topo) : Nat := t.cparent.length
def Topo.kindOf (t : Topo) (k : Nat) : Kind := (t.kind[k]?).getD .unlocked
def Topo.parentOf (t : Topo) (k : Nat) : Option Nat := (t.cparent[k]?).getD none

/-- the nodes that contain `j` (content ancestors), `j` first -/
def Topo.ancFuel (t : Topo) : Nat → Nat → List Nat
  | 0, j => [j]
  | f + 1, j => j :: match t.parentOf j with
      | none => []
      | some p => t.ancFuel f p

/-- the lock ancestors of `j`: the nodes `_erase_cache_up` reaches from `j`.  The container `p` of `j` is
a lock parent of `j` exactly when `p` owns a lock (`lock_()` propagated from or through `p`) -/
def Topo.lancFuel (t : Topo) : Nat → Nat → List Nat
  | 0, j => [j]
  | f + 1, j => j :: match t.parentOf j with
      | none => []
      | some p => if t.kindOf p = .own then t.lancFuel f p else []

/-- the abstract view the theorems use -/
structure Graph where
  n : Nat
  anc : Nat → List Nat
  lanc : Nat → List Nat
  memoises : Nat → Bool

def Topo.graph (t : Topo) : Graph :=
  { n := t.n, anc := t.ancFuel t.n, lanc := t.lancFuel t.n, memoises := fun k => t.kindOf k == .own }

/-- nodes nested in `j` (inclusive) -/
def Graph.sub (g : Graph) (j : Nat) : List Nat := (List.range g.n).filter (fun d => (g.anc d).contains j)

/-- the lock graph covers the content graph wherever something is memoised -/
def Graph.WF (g : Graph) : Prop :=
  ∀ j, j < g.n → ∀ k, k ∈ g.anc j → g.memoises k = true → k ∈ g.lanc j

def Graph.wfCheck (g : Graph) : Bool :=
  (List.range g.n).all (fun j => (g.anc j).all (fun k => !g.memoises k || (g.lanc j).contains k))

/-- a batched wrapper: its parameters, when it was built (object identity), and the generations of the
nodes below it at that time -/
structure W where
  inDim : Nat
  level : Nat
  builtAt : Nat
  snap : List Nat
  deriving DecidableEq, Repr

def snapOf (g : Graph) (k : Nat) (gens : Nat → Nat) : List Nat :=
  (List.range g.n).map (fun j => if k ∈ g.anc j then gens j else 0)

structure St where
  gens : Nat → Nat
  memo : Nat → List ((Nat × Nat) × W)
  clock : Nat

def St.init : St := ⟨fun _ => 0, fun _ => [], 0⟩

inductive Ev
  | request (k i level : Nat)   -- node k `_add_batch_dim(in_dim=i, vmap_level=level)`
  | write (j : Nat)             -- in-place write into the tensors of node j
  | rebind (j : Nat)            -- tensors / metadata of node j replaced, `_erase_cache_up`
  | erase (j : Nat)             -- `_erase_cache` of node j alone (nothing rebound)
  deriving Repr

def step (g : Graph) (s : St) : Ev → St × Option W
  | .request k i l =>
    if g.memoises k then
      match (s.memo k).lookup (i, l) with
      | some w => ({ s with clock := s.clock + 1 }, some w)
      | none =>
        let w : W := ⟨i, l, s.clock, snapOf g k s.gens⟩
        ({ s with memo := fun k' => if k' = k then ((i, l), w) :: s.memo k else s.memo k', clock := s.clock + 1 }, some w)
    else ({ s with clock := s.clock + 1 }, some ⟨i, l, s.clock, snapOf g k s.gens⟩)
  | .write _ => (s, none)
  | .rebind j =>
    ({ s with gens := fun j' => if j' = j then s.gens j + 1 else s.gens j',
              memo := fun k => if k ∈ g.lanc j then [] else s.memo k }, none)
  | .erase j => ({ s with memo := fun k => if k = j then [] else s.memo k }, none)

def run (g : Graph) (s : St) : List Ev → St × List W
  | [] => (s, [])
  | e :: es =>
    let (s', w) := step g s e
    let (s'', ws) := run g s' es
    (s'', w.toList ++ ws)

/-- everything memoised is keyed correctly, sits on a memoising node and was built from the current
generations of the nodes below it -/
def Inv (g : Graph) (s : St) : Prop :=
  ∀ k e, e ∈ s.memo k →
    g.memoises k = true ∧ e.2.inDim = e.1.1 ∧ e.2.level = e.1.2 ∧ e.2.snap = snapOf g k s.gens

/-- a wrapper is current: it shows the tensors (and metadata) the nodes hold now -/
def W.Current (g : Graph) (s : St) (k : Nat) (w : W) : Prop := w.snap = snapOf g k s.gens

instance (g : Graph) (s : St) (k : Nat) (w : W) : Decidable (w.Current g s k) := by unfold W.Current; infer_instance

/-- what the vmapped function sees through a wrapper: the batched view of the tensordict assembled from the
tensors of the generations the wrapper holds (`view` is the storage: generations ↦ content) -/
def W.resolve (w : W) (view : List Nat → TD) : BTD := addBD w.inDim w.level (view w.snap)

/-! ### the operations of the API as events -/

/-- what the operations permitted on a locked tensordict do to the caches (probed on the library; the
correspondence check compares object identities of the wrappers after each of them) -/
def apiEvents (g : Graph) (op : String) (j : Nat) : List Ev :=
  match op with
  | "inplace" => [.write j]                              -- add_, zero_, set_, update_, td[i] = …, share_memory_ (nested)
  | "memmap_" => (g.sub j).map .rebind                   -- every nested node is rebound in turn
  | "names" => (g.sub j).map .rebind                     -- names propagate to the nested nodes
  | "batch_size" => [.rebind j]                          -- a node without dim names: this node only
  | "batch_size_named" => (g.sub j).map .rebind          -- a node with dim names: the setter re-assigns the cut / padded names, which walks down like `names`
  | "batch_size_same" => []                              -- assigning the current batch size returns at once
  | "refused_unlock" => (g.sub j).map .erase             -- unlock_() of a node with lock parents: refused, caches below dropped
  | "unlock_set_lock" => (g.sub j).map .erase ++ [.rebind j]   -- only reachable on a node without lock parents
  | _ => []

/-- the variant of `_memmap_` that only clears the node's own cache (what `_erase_cache_up` prevents) -/
def Graph.eraseSelfOnly (g : Graph) : Graph := { g with lanc := fun j => [j] }

/-- the variant of `cache` that also memoises on a lazy stack over pre-locked members -/
def Topo.graphMemoAll (t : Topo) : Graph :=
  { t.graph with memoises := fun k => t.kindOf k != .unlocked }

/-- for each returned wrapper the index of the first request that returned the same object -/
def identityPattern (ws : List W) : List Nat :=
  ws.map (fun w => ws.findIdx (fun w' => w'.builtAt == w.builtAt))

end TdVerif.C19.MH
