/-
  Hashes of the sources the models were transcribed from and last validated against (harness/c12_pins.py --repin).
  Refreshed by the builder after re-reading the model against a changed function; compared with Gen/C12Src.lean by
  `Props.C11.transcribed_sources_unchanged`.
-/
namespace TdVerif.C11

/-- pinned AST hashes -/
def c11Pinned : List (String × String) := [
  ("tensordict/_reductions.py:_rebuild_tensordict_files_consolidated", "3a0a01db6e88bdb6"),
  ("tensordict/_reductions.py:_consolidated_is_current", "caf9cc2ef1898ed4"),
  ("tensordict/_reductions.py:_normalize_metadata", "66b94c1fd07c6547"),
  ("tensordict/_reductions.py:_reduce_td", "6545905ea57adce3"),
  ("tensordict/_lazy.py:LazyStackedTensorDict.from_dict", "59b0f3e56a6a23e4"),
  ("tensordict/base.py:TensorDictBase.state_dict", "4ff50a3b8d707d54"),
  ("tensordict/base.py:TensorDictBase.load_state_dict", "51ae9bf9b9c60c6e"),
  ("tensordict/_pytree.py:_tensordict_flatten", "ba6bcf3faaf178bd"),
  ("tensordict/_pytree.py:_tensordict_unflatten", "638b59f819ad6ee0")
]

end TdVerif.C11
