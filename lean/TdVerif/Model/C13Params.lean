/-
  C13 — TensorDictParams: how the wrapped tensordict's leaves are exposed as module parameters / buffers.

  Transcribed: tensordict/nn/params.py:TensorDictParams._reset_params (registry rebuilt from
  `self._param_td.items(True, True)`: key joined with ".", `nn.Parameter` leaves to `_parameters`, all other
  leaves to `_buffers`, through `dict(zip(keys, values))`), and the discipline of
  `_unlock_and_set` / `TensorDictParams.update`: the operation on the wrapped tensordict, then `_reset_params()`;
  a locked TensorDictParams raises before anything happens.
-/
import TdVerif.Model.C13Module

namespace TdVerif.C13.Params
open TdVerif.C13

abbrev Path := List Name

/-- `".".join(key)` -/
def flatName (p : Path) : Name := ".".intercalate p

/-- mirrors `_reset_params` (params=None): the two registries computed from the leaves in order -/
def resetParams (leaves : List (Path × Tn)) : Dict Tn × Dict Tn :=
  leaves.foldl (fun acc e =>
    if e.2.isParam then (Dict.set acc.1 (flatName e.1) e.2, acc.2)
    else (acc.1, Dict.set acc.2 (flatName e.1) e.2)) ([], [])

structure TDP where
  leaves : List (Path × Tn)        -- `_param_td.items(True, True)`
  params : Dict Tn                 -- `_parameters` of the TensorDictParams module
  buffers : Dict Tn                -- `_buffers`
  locked : Bool := false

inductive Op where
  /-- any structural operation on the wrapped tensordict that goes through `_unlock_and_set` or `update`
  (set, __setitem__, update, pop, del_, rename_key_, select/exclude in place, create_nested, apply(inplace), …) -/
  | mutate (f : List (Path × Tn) → List (Path × Tn))
  /-- `_apply_on_data` operations (zero_, fill_, copy_, update_, apply_, set_ …): values only, no re-registration -/
  | valuesOnly
  | lock
  | unlock

/-- one operation: a locked TensorDictParams raises `RuntimeError` (state unchanged) -/
def step (s : TDP) : Op → TDP
  | .mutate f =>
    if s.locked then s
    else
      let l := f s.leaves
      { s with leaves := l, params := (resetParams l).1, buffers := (resetParams l).2 }
  | .valuesOnly => s
  | .lock => { s with locked := true }
  | .unlock => { s with locked := false }

def run (s : TDP) (ops : List Op) : TDP := ops.foldl step s

/-- the registry is the one `_reset_params` computes from the current leaves -/
def Exposed (s : TDP) : Prop := (s.params, s.buffers) = resetParams s.leaves

end TdVerif.C13.Params
