/-
  C08 — stacks of stacks: reads with a rank-1 integer tensor (list / range / tensor) on the OUTER
  stack dim (the is_nd_tensor branch of `__getitem__`, `recompose`, over members that are lazy stacks).
-/
import TdVerif.Model.C08Lazy2
namespace TdVerif.C08

/-- `lazy_of_lazy[index]` with a rank-1 integer tensor (list, range) on the OUTER stack dim: the
is_nd_tensor branch of `__getitem__` (`recompose`) over members that are lazy stacks — the inner
stacks picked by the entries, each read with the remaining index, stacked again at
`stack_dim - num_single + num_none`.  Other indices: `lazyGetCore2`. -/
def lazyGetCore2T [Inhabited α] (L : Lazy2 α) (ix : List Ix) : Option (LRes2 α) :=
  match splitIndex2 L ix with
  | none => none
  | some st =>
    if st.hasBool = false ∧ st.isNd = true then
      match st.sel with
      | .tens t =>
        if st.out.any Ix.isAdv then none else
        let newSd : Int := (L.sd : Int) - st.numSingle + st.numNone
        match t.shape with
        | [k] =>
          (allSome ((List.range k).map fun j =>
              (normInt (t.get [j]) L.members.length).bind (memberIndex2 L st.out))).bind fun res =>
            (lazyStackR res newSd).map fun p => .lazy p.1 p.2
        | _ => none
      | _ => none
    else lazyGetCore2 L ix

def lazyGet2T [Inhabited α] (L : Lazy2 α) (ix : List Ix) : Option (LRes2 α) :=
  (convertEllipsis ix L.batch.length).bind (lazyGetCore2T L)

end TdVerif.C08
