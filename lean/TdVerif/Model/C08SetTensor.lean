/-
  C08 — `lazy[index] = tensor_or_number` (the else-branch of `__setitem__`, tensordict/_lazy.py,
  after the fix "lazy[idx] = tensor / number did not broadcast"): for every entry the value is
  brought to the indexed shape of that entry (extra leading singleton dims dropped, then
  `expand`) and written with `set_at_`.
-/
import TdVerif.Model.C08SetMask2
namespace TdVerif.C08

/-- `while value.ndim > len(target) and value.shape[0] == 1: value = value[0]` -/
def stripLeadingOnes (t : T α) (rank : Nat) : T α :=
  if t.shape.length ≤ rank then t else
  let k := ((t.shape.take (t.shape.length - rank)).takeWhile (· == 1)).length
  { shape := t.shape.drop k, get := fun c => t.get (List.replicate k 0 ++ c) }

/-- the value a tensor / number is turned into for one leaf of indexed shape `target`
(`__setitem__`, after the fix "lazy[idx] = tensor did not broadcast"): extra leading singleton
dims dropped, then `expand(target)` unless it already has that shape; `none` = torch refuses -/
def bcastValue (t : T α) (target : Shape) : Option (T α) :=
  let t' := stripLeadingOnes t target.length
  if t'.shape = target then some t'
  else if t'.shape.length ≤ target.length then
    (if expandOk t'.shape target then
      some (t'.expandTo (target.length - t'.shape.length) t'.shape.length target) else none)
  else none

/-- mirrors `lazy[index] = tensor_or_number`: every leaf receives the value broadcast to its
indexed shape (`_getitem_batch_size(batch_size, index) + feature dims`) through `set_at_` -/
def tensorValueTD (ibs : Shape) (keys : List String) (kvs : List (String × T α)) (dflt : T α) : TD α :=
  { batch := ibs, keys := keys, leaf := fun k => ((kvs.find? (·.1 == k)).map (·.2)).getD dflt }

def lazySetTensor (L : Lazy α) (keys : List String) (feat : String → Shape) (ix : List Ix) (t : T α) : Option (Lazy α) :=
  (convertEllipsis ix L.batch.length).bind fun ix' =>
  (idxShape ix' L.batch).bind fun ibs =>
  (allSome (keys.map fun k => (bcastValue t (ibs ++ feat k)).map fun x => (k, x))).bind fun kvs =>
    lazySetCoreM L ix' (tensorValueTD ibs keys kvs t)

end TdVerif.C08
