/-
  C14 — ProbabilisticTensorDictSequential(return_composite=True): heads whose parameters are computed from the samples
  of earlier heads (autoregressive policies). Symbolic model of what `forward` writes and of what `log_prob` scores.

  Transcribed (tensordict/nn/probabilistic.py):
    forward       ProbabilisticTensorDictSequential.forward, return_composite branch, random interaction type:
                  module after module; a probabilistic module draws its sample and writes the sample's log-prob
    logProbCond   ProbabilisticTensorDictSequential.log_prob -> _get_dist_composite(condition_on_samples=True) (repaired):
                  the deterministic modules are re-run on a copy that keeps the samples of the given tensordict
    logProbFresh  the same with condition_on_samples=False (as pinned): every intermediate head is re-sampled into the
                  copy before the next parameters are computed; the heads then score the samples of the given tensordict
  The deterministic module in front of a head is folded into the head (`f`, `reads`): the parameter entries themselves
  are not represented.
-/
namespace TdVerif.C14.Auto

/-- symbolic values: two terms are equal iff they were computed the same way from the same things -/
inductive T where
  | missing
  | inp (k : String)
  | par (f : Nat) (args : List T)     -- parameters computed by deterministic module `f`
  | draw (p : T) (n : Nat)            -- the n-th draw of the run, from the distribution with parameters `p`
  | lp (p : T) (v : T)                -- log-probability of `v` under the distribution with parameters `p`
  deriving Repr, Inhabited

abbrev Env := List (String × T)

def get? : Env → String → Option T
  | [], _ => none
  | (k', v) :: r, k => if k' = k then some v else get? r k

def put : Env → String → T → Env
  | [], k, v => [(k, v)]
  | (k', v') :: r, k, v => if k' = k then (k, v) :: r else (k', v') :: put r k v

def look (e : Env) (k : String) : T := (get? e k).getD .missing

/-- a deterministic module computing the parameters from `reads`, followed by the probabilistic module of the head -/
structure Stage where
  name : String
  lpKey : String
  f : Nat
  reads : List String
  deriving Repr

def params (s : Stage) (e : Env) : T := .par s.f (s.reads.map (look e))

def forward : List Stage → Env → Nat → Env
  | [], e, _ => e
  | s :: r, e, n =>
    let p := params s e
    let v := T.draw p n
    forward r (put (put e s.name v) s.lpKey (.lp p v)) (n + 1)

def logProbCond (stages : List Stage) (e : Env) : List (String × T) :=
  stages.map (fun s => (s.lpKey, T.lp (params s e) (look e s.name)))

def logProbFresh : List Stage → Env → Env → Nat → List (String × T)
  | [], _, _, _ => []
  | [s], orig, cp, _ => [(s.lpKey, .lp (params s cp) (look orig s.name))]
  | s :: t :: r, orig, cp, n =>
    let p := params s cp
    (s.lpKey, .lp p (look orig s.name)) :: logProbFresh (t :: r) orig (put cp s.name (.draw p n)) (n + 1)

/-- what `forward` left under the log-prob keys -/
def written (stages : List Stage) (e : Env) : List (String × T) := stages.map (fun s => (s.lpKey, look e s.lpKey))

end TdVerif.C14.Auto
