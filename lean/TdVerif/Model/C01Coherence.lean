/-
  C01 — batch-shape / device / dim-name coherence: a metadata-only model of a TensorDict tree.

  `M`           a leaf (shape, device) or a node (batch size, device, dim names, insertion-ordered entries)
  `Coherent`    the property's invariant
  Code section  transcriptions (each cites file:function) of the code that mutates metadata, in the ORDER in which
                the code mutates, so the partial effects of a call that raises are part of the model:
                  _check_new_batch_size / _batch_size_setter (after the two `fix:` commits), names setter /
                  _rename_subtds / rename_, _validate_value (shape check, shallow clone + batch_size assignment of a
                  nested value, device move, refine_names / adoption of the value's names), _set_tuple with
                  auto-created nodes (= empty()), del_, rename_key_ (after the `fix:` commits), create_nested, clear.
  Devices are numbers (0 = cpu, 1 = meta in the harness); moving a non-empty value from device 1 to another
  device raises (torch: "Cannot copy out of meta tensor").
-/
import TdVerif.Model.C04Tree

namespace TdVerif.C01

abbrev Shape := List Nat
abbrev DimNames := List (Option String)

inductive M where
  | leaf (shape : Shape) (dev : Nat)
  | node (bs : Shape) (dev : Option Nat) (names : Option DimNames) (kids : List (String × M))
  deriving Repr, Inhabited

abbrev Kids := List (String × M)
abbrev Path := List String

inductive Err where
  | key | value | runtime | other | attr | index | type
  deriving Repr, DecidableEq, Inhabited

inductive Out where
  | ok
  | err (e : Err)
  deriving Repr, DecidableEq, Inhabited

/-! ### storage dict -/

def kget (k : String) : Kids → Option M
  | [] => none
  | (k', v) :: r => if k' = k then some v else kget k r

def kset (k : String) (v : M) : Kids → Kids
  | [] => [(k, v)]
  | (k', v') :: r => if k' = k then (k, v) :: r else (k', v') :: kset k v r

/-- `del d[k]`: afterwards `k` is unbound (keys are unique in a real dict, so this removes the one binding) -/
def kdel (k : String) : Kids → Kids
  | [] => []
  | (k', v') :: r => if k' = k then kdel k r else (k', v') :: kdel k r

/-! ### observers -/

/-- `_shape(value)`: the shape of a tensor, the batch size of a tensordict -/
def M.shape : M → Shape
  | .leaf s _ => s
  | .node bs _ _ _ => bs

def M.isNode : M → Bool
  | .node .. => true
  | .leaf .. => false

/-- `shape[:len(bs)] == bs` -/
def takeEq (s bs : Shape) : Bool := s.take bs.length == bs

/-- `is_empty()`: no leaf anywhere below -/
def isEmptyK : Kids → Bool
  | [] => true
  | (_, .leaf ..) :: _ => false
  | (_, .node _ _ _ sub) :: r => isEmptyK sub && isEmptyK r

def M.isEmpty : M → Bool
  | .leaf .. => false
  | .node _ _ _ kids => isEmptyK kids

/-- `value.device == d` (a tensordict without device is "not on d") -/
def M.onDev (d : Nat) : M → Bool
  | .leaf _ dv => dv == d
  | .node _ dv _ _ => dv == some d

/-! ### the invariant -/

/-- `c` may be stored in a container of batch size `bs` and device `dev` -/
def fits (bs : Shape) (dev : Option Nat) (c : M) : Prop :=
  takeEq c.shape bs = true ∧ ∀ d, dev = some d → c.onDev d = true

/-- every entry's leading dims equal the container's batch size, nested batch sizes extend their parent's,
entries live on the container's device when one is set, one dim name per batch dim (or no names at all) -/
inductive Coherent : M → Prop where
  | leaf (s : Shape) (d : Nat) : Coherent (.leaf s d)
  | node (bs : Shape) (dev : Option Nat) (names : Option DimNames) (kids : Kids) :
      (∀ ns, names = some ns → ns.length = bs.length) →
      (∀ k c, (k, c) ∈ kids → fits bs dev c) →
      (∀ k c, (k, c) ∈ kids → Coherent c) →
      Coherent (.node bs dev names kids)

/-! ### names (tensordict/_td.py: names setter, _rename_subtds; base.py: rename_) -/

def countNone (v : DimNames) : Nat := (v.filter (·.isNone)).length

/-- `len(set(value))` -/
def distinct : DimNames → DimNames
  | [] => []
  | x :: r => if (distinct r).contains x then distinct r else x :: distinct r

/-- the checks of the `names` setter that precede `_rename_subtds`: `none` = the assignment is treated as
`names = None`; `some (error)` / `some ok` -/
inductive NamesCheck where
  | erase | bad | good
  deriving DecidableEq

def namesCheck (v : DimNames) (batchDims : Nat) : NamesCheck :=
  let nn := countNone v
  if nn = batchDims then .erase
  else
    let nn' := if nn > 0 then nn - 1 else 0
    if (distinct v).length ≠ v.length - nn' then .bad
    else if v.length ≠ batchDims then .bad
    else .good

/-- `_rename_subtds(None)`: the nested tensordicts (one level) forget their names -/
def eraseSub : Kids → Kids
  | [] => []
  | (k, .leaf s d) :: r => (k, .leaf s d) :: eraseSub r
  | (k, .node bs dv _ sub) :: r => (k, .node bs dv none sub) :: eraseSub r

/-- `_rename_subtds(names)`: every nested tensordict gets `names + its own names beyond` through its own
`names` setter (`rename_`), recursively; the first child that rejects them raises (earlier children keep
their new names, the parent's own names are not assigned yet) -/
def renameSub (v : DimNames) : Kids → Kids × Out
  | [] => ([], .ok)
  | (k, .leaf s d) :: r =>
    let (r', o) := renameSub v r
    ((k, .leaf s d) :: r', o)
  | (k, .node cbs cdv cnames sub) :: r =>
    let itemNames : DimNames := cnames.getD (List.replicate cbs.length none)
    let tdn := v ++ itemNames.drop v.length
    -- `item.rename_(*tdn)` = `item.names = tdn`
    match namesCheck tdn cbs.length with
    | .erase =>
      let (r', o) := renameSub v r
      ((k, .node cbs cdv none (eraseSub sub)) :: r', o)
    | .bad => ((k, .node cbs cdv cnames sub) :: r, .err .value)
    | .good =>
      match renameSub tdn sub with
      | (sub', .err e) => ((k, .node cbs cdv cnames sub') :: r, .err e)
      | (sub', .ok) =>
        let (r', o) := renameSub v r
        ((k, .node cbs cdv (some tdn) sub') :: r', o)

/-- `td.names = value` -/
def setNamesM (value : Option DimNames) : M → M × Out
  | .leaf s d => (.leaf s d, .err .attr)
  | .node bs dv names kids =>
    match value with
    | none => (.node bs dv none (eraseSub kids), .ok)
    | some v =>
      match namesCheck v bs.length with
      | .erase => (.node bs dv none (eraseSub kids), .ok)
      | .bad => (.node bs dv names kids, .err .value)
      | .good =>
        match renameSub v kids with
        | (kids', .err e) => (.node bs dv names kids', .err e)
        | (kids', .ok) => (.node bs dv (some v) kids', .ok)

/-! ### batch size (tensordict/base.py: _check_new_batch_size, _batch_size_setter — repaired) -/

/-- `_check_new_batch_size(new)`: a nested tensordict that will have to grow is checked through its own
content; an empty nested tensordict is exempted; everything else must carry `new` as a prefix -/
def checkNewBs (new : Shape) : Kids → Bool
  | [] => true
  | (_, .leaf s _) :: r => takeEq s new && checkNewBs new r
  | (_, .node cbs _ _ sub) :: r =>
    (if cbs.length < new.length && !isEmptyK sub then checkNewBs new sub
     else (takeEq cbs new || isEmptyK sub)) && checkNewBs new r

/-- names after a batch size change: extended by `None`s or truncated, through the `names` setter -/
def namesAfterResize (old : DimNames) (new : Shape) : DimNames :=
  if old.length < new.length then old ++ List.replicate (new.length - old.length) none
  else old.take new.length

/-- the tail of `_batch_size_setter(new)` once the entries have been processed (`grown`): a failure there
propagates; otherwise the names are erased, the node's own batch size changes and the names are re-assigned
(extended / truncated) through the `names` setter. -/
def finishResize (new bs : Shape) (dv : Option Nat) (names : Option DimNames) (grown : Kids × Out) : M × Out :=
  match grown with
  | (kids', .err e) => (.node bs dv names kids', .err e)
  | (kids', .ok) =>
    match names with
    | none => (.node new dv none kids', .ok)
    | some ns => setNamesM (some (namesAfterResize ns new)) (.node new dv none kids')

/-- `snapshot = self._nested_meta_snapshot(); try: … except Exception: self._nested_meta_restore(snapshot); raise`
(tensordict/base.py): a call that raises leaves the batch sizes and names of the whole subtree as they were -/
def restoreOnErr (orig : M) (r : M × Out) : M × Out :=
  match r.2 with
  | .err e => (orig, .err e)
  | _ => r

/-- the batch size a nested tensordict is given when its parent receives `new` -/
def childNew (new cbs : Shape) : Shape := if cbs.length < new.length then new else new ++ cbs.drop new.length

/-- the loop of `_batch_size_setter(new)` over the entries `kids`: a nested tensordict with fewer batch dims
receives `new`, an (empty) one with an incompatible prefix receives `new` + its own extra dims — each through
its own `_batch_size_setter` (called with a torch.Size, so an equal size returns at once). -/
def growKids (new : Shape) : Kids → Kids × Out
  | [] => ([], .ok)
  | (k, .leaf s d) :: r =>
    let (r', o) := growKids new r
    ((k, .leaf s d) :: r', o)
  | (k, .node cbs cdv cnames sub) :: r =>
    if cbs.length < new.length || !takeEq cbs new then
      let cnew := childNew new cbs
      let child : M × Out :=
        if cnew = cbs then (.node cbs cdv cnames sub, .ok)
        else if !checkNewBs cnew sub then (.node cbs cdv cnames sub, .err .runtime)
        else finishResize cnew cbs cdv cnames (growKids cnew sub)
      match child with
      | (c', .err e) => ((k, c') :: r, .err e)
      | (c', .ok) =>
        let (r', o) := growKids new r
        ((k, c') :: r', o)
    else
      let (r', o) := growKids new r
      ((k, .node cbs cdv cnames sub) :: r', o)

/-- `td.batch_size = new` (after the `fix:` commits: shapes checked first, metadata restored when the rest fails) with `new` given as a list/tuple (the early return `new == self.batch_size` only fires
for a `torch.Size`, as in the recursive calls on nested tensordicts modelled in `growKids`) -/
def setBatchM (new : Shape) : M → M × Out
  | .leaf s d => (.leaf s d, .err .attr)
  | .node bs dv names kids =>
    if !checkNewBs new kids then (.node bs dv names kids, .err .runtime)
    else
      -- `_batch_size_setter_checked` runs inside try/except: when it raises, `_nested_meta_restore` puts the batch size and
      -- the names of every nested tensordict back (the nested setters do the same for their own subtree; what the
      -- outermost one restores is what counts)
      restoreOnErr (.node bs dv names kids) (finishResize new bs dv names (growKids new kids))

/-! ### validation of a written value (tensordict/base.py:_validate_value) -/

/-- does the value hold a leaf on device `d`? (moving it elsewhere raises for the meta device) -/
def hasLeafOn (d : Nat) : Kids → Bool
  | [] => false
  | (_, .leaf _ dv) :: r => dv == d || hasLeafOn d r
  | (_, .node _ _ _ sub) :: r => hasLeafOn d sub || hasLeafOn d r

def toDevK (d : Nat) : Kids → Kids
  | [] => []
  | (k, .leaf s _) :: r => (k, .leaf s d) :: toDevK d r
  | (k, .node bs _ ns sub) :: r => (k, .node bs (some d) ns (toDevK d sub)) :: toDevK d r

/-- the device that cannot be copied out of (meta) -/
def stuckDev : Nat := 1

/-- `value.to(d)` -/
def toDev (d : Nat) : M → Except Err M
  | .leaf s dv => if dv = stuckDev ∧ d ≠ stuckDev then .error .other else .ok (.leaf s d)
  | .node bs _ ns sub => if d ≠ stuckDev ∧ hasLeafOn stuckDev sub then .error .other else .ok (.node bs (some d) ns (toDevK d sub))

def M.namesList : M → DimNames
  | .leaf .. => []
  | .node bs _ ns _ => ns.getD (List.replicate bs.length none)

def M.hasNames : M → Bool
  | .node _ _ (some _) _ => true
  | _ => false

/-- the loop of `refine_names(*ns)`: a named dim can only be refined to the same name -/
def refineOk : DimNames → DimNames → Bool
  | [], _ => true
  | _ :: _, [] => false        -- IndexError in the code; cannot happen after the shape check
  | n :: ns, c :: cs => (c.isNone || c == n) && refineOk ns cs

/-- `_validate_value`, step 1: `_shape(value)[:batch_dims] != batch_size` — a tensor is rejected, a nested
tensordict is (shallow-)cloned and assigned the container's batch size. No check for a rank-0 container. -/
def valShape (bs : Shape) (value : M) : Except Err M :=
  if bs ≠ [] ∧ !takeEq value.shape bs then
    match value with
    | .leaf .. => .error .runtime
    | .node .. =>
      match setBatchM bs value with
      | (v, .ok) => .ok v
      | (_, .err e) => .error e
  else .ok value

/-- step 2: `value.to(device)` when the container has a device and the value is not on it -/
def valDev (dev : Option Nat) (v1 : M) : Except Err M :=
  match dev with
  | some d => if v1.onDev d then .ok v1 else toDev d v1
  | none => .ok v1

/-- step 3 (only when the container has batch dims and the value is a tensordict): a named container refines the
value's names, an unnamed container adopts the names of a named value (through its own `names` setter, which
renames its other nested entries and may raise half way). Returns the container's names and entries afterwards. -/
def valNames (bs : Shape) (dev : Option Nat) (names : Option DimNames) (kids : Kids) (v2 : M) :
    Option DimNames × Kids × Except Err M :=
  if bs ≠ [] ∧ v2.isNode then
    match names with
    | some ns =>
      if v2.namesList.take bs.length ≠ ns then
        -- value.clone(False).refine_names(*self.names)
        if !refineOk ns v2.namesList then (names, kids, .error .runtime)
        else
          match setNamesM (some ns) v2 with
          | (v3, .ok) => (names, kids, .ok v3)
          | (_, .err e) => (names, kids, .error e)
      else (names, kids, .ok v2)
    | none =>
      if v2.hasNames then
        -- self.names = value.names[: self.batch_dims]
        match setNamesM (some (v2.namesList.take bs.length)) (.node bs dev names kids) with
        | (.node _ _ names' kids', .ok) => (names', kids', .ok v2)
        | (.node _ _ names' kids', .err e) => (names', kids', .error e)
        | (.leaf .., _) => (names, kids, .error .attr)
      else (names, kids, .ok v2)
  else (names, kids, .ok v2)

/-- `_validate_value(value, check_shape=True)` for a container with metadata (bs, dev, names) holding `kids`.
Returns the container's names and entries afterwards and the validated value, or the error. -/
def validate (bs : Shape) (dev : Option Nat) (names : Option DimNames) (kids : Kids) (value : M) :
    Option DimNames × Kids × Except Err M :=
  match valShape bs value with
  | .error e => (names, kids, .error e)
  | .ok v1 =>
    match valDev dev v1 with
    | .error e => (names, kids, .error e)
    | .ok v2 => valNames bs dev names kids v2

/-! ### keyed operations -/

/-- `_set_tuple(key, value, inplace=False, validated=…)` with auto-created nested tensordicts (`empty()`:
same batch size, device and names). A value rejected at the end leaves the auto-created nodes behind. -/
def setPath (validated : Bool) : Path → M → M → M × Out
  | [], _, t => (t, .err .index)
  | _ :: _, _, .leaf s d => (.leaf s d, .err .attr)
  | [k], v, .node bs dv ns kids =>
    if validated then (.node bs dv ns (kset k v kids), .ok)
    else
      match validate bs dv ns kids v with
      | (ns', kids', .error e) => (.node bs dv ns' kids', .err e)
      | (ns', kids', .ok v') => (.node bs dv ns' (kset k v' kids'), .ok)
  | k :: k2 :: rest, v, .node bs dv ns kids =>
    match kget k kids with
    | none =>
      let (c, o) := setPath validated (k2 :: rest) v (.node bs dv ns [])
      (.node bs dv ns (kset k c kids), o)
    | some (.node cbs cdv cns sub) =>
      let (c, o) := setPath validated (k2 :: rest) v (.node cbs cdv cns sub)
      (.node bs dv ns (kset k c kids), o)
    | some (.leaf ..) => (.node bs dv ns kids, .err .key)

def getPath : Path → M → Option M
  | [], t => some t
  | k :: rest, .node _ _ _ kids =>
    match kget k kids with
    | some c => getPath rest c
    | none => none
  | _ :: _, .leaf .. => none

def delPath : Path → M → M × Out
  | [], t => (t, .err .index)
  | _ :: _, .leaf s d => (.leaf s d, .err .attr)
  | [k], .node bs dv ns kids =>
    if (kget k kids).isSome then (.node bs dv ns (kdel k kids), .ok) else (.node bs dv ns kids, .err .key)
  | k :: k2 :: rest, .node bs dv ns kids =>
    match kget k kids with
    | none => (.node bs dv ns kids, .err .key)
    | some c =>
      let (c', o) := delPath (k2 :: rest) c
      (.node bs dv ns (kset k c' kids), o)

def isPrefix : Path → Path → Bool
  | [], _ => true
  | _ :: _, [] => false
  | a :: p, b :: q => a == b && isPrefix p q

/-- does a proper prefix of the key run through a tensor? (`get` raises ValueError) -/
def throughLeaf : Path → M → Bool
  | [], _ => false
  | _ :: _, .leaf .. => true
  | [_], .node .. => false
  | k :: k2 :: rest, .node _ _ _ kids =>
    match kget k kids with
    | some c => throughLeaf (k2 :: rest) c
    | none => false

/-- `rename_key_(old, new)` (safe=False), after the `fix:` commits -/
def renamePath (old new : Path) (t : M) : M × Out :=
  if old = [] ∨ new = [] then (t, .err .key) else
  if old = new then (if (getPath old t).isSome then (t, .ok) else (t, .err .key)) else
  if throughLeaf old t then (t, .err .value) else
  match getPath old t with
  | none => (t, .err .key)
  | some v =>
    if isPrefix old new then
      match delPath old t with
      | (t1, .err e) => (t1, .err e)
      | (t1, .ok) => setPath true new v t1
    else
      -- validated when the entry stays in its nested tensordict or moves to one of its parents
      let validated := new.length = 1 || isPrefix new.dropLast old
      match setPath validated new v t with
      | (t1, .err e) => (t1, .err e)
      | (t1, .ok) => if isPrefix new old then (t1, .ok) else delPath old t1

/-- `create_nested(key)`: `empty()` copies at every level, overwriting what was there -/
def createNested : Path → M → M × Out
  | [], t => (t, .err .index)
  | _ :: _, .leaf s d => (.leaf s d, .err .attr)
  | [k], .node bs dv ns kids => (.node bs dv ns (kset k (.node bs dv ns []) kids), .ok)
  | k :: k2 :: rest, .node bs dv ns kids =>
    let (c, o) := createNested (k2 :: rest) (.node bs dv ns [])
    (.node bs dv ns (kset k c kids), o)

/-- `pop(key)` without default: `get` (KeyError when absent, ValueError through a tensor) then `del_` -/
def popPath (p : Path) (t : M) : M × Out :=
  if p = [] then (t, .err .key)
  else if throughLeaf p t then (t, .err .value)
  else match getPath p t with
    | none => (t, .err .key)
    | some _ => delPath p t

/-- `popitem()`: the entry inserted last leaves (`dict.popitem`) -/
def popItem : M → M × Out
  | .leaf s d => (.leaf s d, .err .attr)
  | .node bs dv ns kids => if kids = [] then (.node bs dv ns kids, .err .key) else (.node bs dv ns kids.dropLast, .ok)

/-- `setdefault(key, value)` with a tuple key: `set` only when the key is not bound (membership through a tensor is False) -/
def setDefaultPath (p : Path) (v : M) (t : M) : M × Out :=
  if p = [] then (t, .err .type)
  else if (getPath p t).isSome then (t, .ok) else setPath false p v t

/-- the loop of `refine_names(*names)`: a named dim can only be refined to the same name; more names than
batch dims index past the current names (IndexError) -/
def refineLoop : DimNames → DimNames → Out
  | [], _ => .ok
  | _ :: _, [] => .err .index
  | n :: ns, c :: cs => if c.isNone || c == n then refineLoop ns cs else .err .runtime

/-- `td.refine_names(*names)` (no Ellipsis): the loop, then the `names` setter -/
def refineNamesM (names : DimNames) (t : M) : M × Out :=
  match t with
  | .leaf s d => (.leaf s d, .err .attr)
  | .node bs dv ns kids =>
    match refineLoop names (M.namesList (.node bs dv ns kids)) with
    | .err e => (.node bs dv ns kids, .err e)
    | .ok => setNamesM (some names) (.node bs dv ns kids)

/-! ### update with a dict payload (tensordict/base.py:update, default options) -/

/-- a payload value: a tensor or a (nested) python dict -/
inductive PV where
  | leaf (shape : Shape) (dev : Nat)
  | dict (kvs : List (String × PV))
  deriving Repr, Inhabited

/-- `_convert_to_tensordict(dict)` = `TensorDict(dict, batch_size=self.batch_size, device=self.device, names=…)`:
the entries are `set` one by one into a fresh tensordict carrying the container's metadata (each tensor is validated:
shape, device); nested dicts are converted the same way. The first entry that is refused makes the constructor raise. -/
def convertKids (bs : Shape) (dv : Option Nat) (ns : Option DimNames) : List (String × PV) → Kids → Except Err Kids
  | [], acc => .ok acc
  | (k, .leaf s d) :: r, acc =>
    match validate bs dv ns acc (.leaf s d) with
    | (_, _, .error e) => .error e
    | (_, acc', .ok v') => convertKids bs dv ns r (kset k v' acc')
  | (k, .dict sub) :: r, acc =>
    match convertKids bs dv ns sub [] with
    | .error e => .error e
    | .ok ckids => convertKids bs dv ns r (kset k (.node bs dv ns ckids) acc)

/-- `_set_tuple(key, value, inplace=False, validated=False)` for a payload value: a dict is converted by the
tensordict that finally receives it -/
def setPathPV : Path → PV → M → M × Out
  | [], _, t => (t, .err .index)
  | _ :: _, _, .leaf s d => (.leaf s d, .err .attr)
  | [k], .leaf s d, .node bs dv ns kids =>
    match validate bs dv ns kids (.leaf s d) with
    | (ns', kids', .error e) => (.node bs dv ns' kids', .err e)
    | (ns', kids', .ok v') => (.node bs dv ns' (kset k v' kids'), .ok)
  | [k], .dict sub, .node bs dv ns kids =>
    match convertKids bs dv ns sub [] with
    | .error e => (.node bs dv ns kids, .err e)
    | .ok ckids => (.node bs dv ns (kset k (.node bs dv ns ckids) kids), .ok)
  | k :: k2 :: rest, v, .node bs dv ns kids =>
    match kget k kids with
    | none =>
      let (c, o) := setPathPV (k2 :: rest) v (.node bs dv ns [])
      (.node bs dv ns (kset k c kids), o)
    | some (.node cbs cdv cns sub) =>
      let (c, o) := setPathPV (k2 :: rest) v (.node cbs cdv cns sub)
      (.node bs dv ns (kset k c kids), o)
    | some (.leaf ..) => (.node bs dv ns kids, .err .key)

/-- `update(payload)`: a dict value that meets a nested tensordict is handed to that tensordict's own `update`;
everything else goes through `_set_tuple(validated=False)`; the first item that raises stops the update (earlier
items stay written) -/
def updateC : Nat → List (Path × PV) → M → M × Out
  | _, [], t => (t, .ok)
  | 0, _ :: _, t => (t, .err .runtime)
  | _ + 1, _ :: _, .leaf s d => (.leaf s d, .err .attr)
  | _ + 1, ([], _) :: _, .node bs dv ns kids => (.node bs dv ns kids, .err .index)
  | fuel + 1, (k :: sub, v) :: rest, .node bs dv ns kids =>
    let direct : M × Out :=
      match setPathPV (k :: sub) v (.node bs dv ns kids) with
      | (t', .err e) => (t', .err e)
      | (t', .ok) => updateC fuel rest t'
    match kget k kids, v with
    | some (.node cbs cdv cns csub), .dict pv =>
      let inner := if sub = [] then pv.map (fun kv => ([kv.1], kv.2)) else [(sub, v)]
      match updateC fuel inner (.node cbs cdv cns csub) with
      | (c, .err e) => (.node bs dv ns (kset k c kids), .err e)
      | (c, .ok) => updateC fuel rest (.node bs dv ns (kset k c kids))
    | _, _ => direct

def pvW : PV → Nat
  | .leaf .. => 0
  | .dict kvs => go kvs
where
  go : List (String × PV) → Nat
    | [] => 0
    | (_, v) :: r => 2 + (match v with
        | .dict sub => go sub
        | .leaf .. => 0) + go r

def updMeasureC : List (Path × PV) → Nat
  | [] => 0
  | (p, v) :: r => 1 + p.length + pvW v + updMeasureC r

/-! ### update with a tensordict payload (tensordict/base.py:update, default options) -/

/-- the loose batch-size test at the top of `update(tensordict)` (update_batch_size=False): RuntimeError when
`self.batch_size[:payload.batch_dims] != payload.batch_size[:self.batch_dims]` -/
def looseMismatch (bs vbs : Shape) : Bool := bs.take vbs.length != vbs.take bs.length

/-- the loop of `update(payload)` over `payload.items()` (string keys): a nested tensordict that meets a nested
tensordict is handed to that tensordict's own `update` (which starts with the loose batch-size test); everything else
goes through `_set_tuple(validated=False)`; the first entry that raises stops the update (earlier entries stay written) -/
def updateTdK : Kids → M → M × Out
  | [], t => (t, .ok)
  | _ :: _, .leaf s d => (.leaf s d, .err .attr)
  | (k, .leaf s d) :: rest, .node bs dv ns kids =>
    match setPath false [k] (.leaf s d) (.node bs dv ns kids) with
    | (t', .err e) => (t', .err e)
    | (t', .ok) => updateTdK rest t'
  | (k, .node vbs vdv vns vsub) :: rest, .node bs dv ns kids =>
    match kget k kids with
    | some (.node cbs cdv cns csub) =>
      if looseMismatch cbs vbs then (.node bs dv ns kids, .err .runtime)
      else
        match updateTdK vsub (.node cbs cdv cns csub) with
        | (c, .err e) => (.node bs dv ns (kset k c kids), .err e)
        | (c, .ok) => updateTdK rest (.node bs dv ns (kset k c kids))
    | _ =>
      match setPath false [k] (.node vbs vdv vns vsub) (.node bs dv ns kids) with
      | (t', .err e) => (t', .err e)
      | (t', .ok) => updateTdK rest t'

/-- `td.update(payload)` with a tensordict payload -/
def updateTdM (payload : M) (t : M) : M × Out :=
  match t, payload with
  | .leaf s d, _ => (.leaf s d, .err .attr)
  | .node bs dv ns kids, .node vbs _ _ vsub =>
    if looseMismatch bs vbs then (.node bs dv ns kids, .err .runtime) else updateTdK vsub (.node bs dv ns kids)
  | .node bs dv ns kids, .leaf .. => (.node bs dv ns kids, .err .type)

/-! ### auto_batch_size_ (tensordict/utils.py:_set_max_batch_size) -/

/-- `batch_dims is None or len(batch_size) < batch_dims` -/
def hasRoom (bd : Option Nat) (acc : Shape) : Bool :=
  match bd with
  | none => true
  | some n => acc.length < n

/-- the `while True` loop of `_set_max_batch_size`: `first` is what is left of `tensor_shapes[0]` from `curr_dim` on,
`others` what is left of the other shapes (paired with "is an empty tensor collection", which the loop skips);
`acc` is `batch_size`. A dim is appended only while `batch_dims is None or len(batch_size) < batch_dims`, but the
loop keeps running over the first shape either way. -/
def autoPrefix (bd : Option Nat) : Shape → Shape → List (Shape × Bool) → Shape
  | acc, [], _ => acc
  | acc, d :: rest, others =>
    if others.all (fun sb => sb.2 || sb.1.head? == some d) then
      autoPrefix bd (if hasRoom bd acc then acc ++ [d] else acc) rest (others.map fun sb => (sb.1.tail, sb.2))
    else acc

/-- the part of `_set_max_batch_size(source, batch_dims)` that follows the recursion into the nested tensordicts:
an empty `source` is cut to `batch_dims` dims when `batch_dims` is truthy (the slice is a `torch.Size`, so an equal
size returns at once), otherwise the common leading dims are assigned through the `batch_size` setter (as a list). -/
def autoFinish (bd : Option Nat) : M → M × Out
  | .leaf s d => (.leaf s d, .err .attr)
  | .node bs dv names [] =>
    match bd with
    | none => (.node bs dv names [], .ok)
    | some n =>
      if n = 0 ∨ bs.take n = bs then (.node bs dv names [], .ok)
      else setBatchM (bs.take n) (.node bs dv names [])
  | .node bs dv names ((k, first) :: others) =>
    setBatchM (autoPrefix bd [] first.shape (others.map fun kv => (kv.2.shape, kv.2.isEmpty)))
      (.node bs dv names ((k, first) :: others))

/-- the recursion of `_set_max_batch_size` into the nested tensordicts, in `values()` order: each one is processed
completely (its own nested tensordicts first, then its own batch size); the first failure propagates and leaves the
later entries — and every enclosing batch size — as they were. -/
def autoKids (bd : Option Nat) : Kids → Kids × Out
  | [] => ([], .ok)
  | (k, .leaf s d) :: r =>
    let (r', o) := autoKids bd r
    ((k, .leaf s d) :: r', o)
  | (k, .node cbs cdv cnames sub) :: r =>
    match autoKids bd sub with
    | (sub', .err e) => ((k, .node cbs cdv cnames sub') :: r, .err e)
    | (sub', .ok) =>
      match autoFinish bd (.node cbs cdv cnames sub') with
      | (c', .err e) => ((k, c') :: r, .err e)
      | (c', .ok) =>
        let (r', o) := autoKids bd r
        ((k, c') :: r', o)

/-- `td.auto_batch_size_(batch_dims)` (after the `fix:` commit: nothing changes when the call raises) -/
def autoBatchM (bd : Option Nat) : M → M × Out
  | .leaf s d => (.leaf s d, .err .attr)
  | .node bs dv names kids =>
    -- `_set_max_batch_size` runs inside try/except: when it raises, every batch size and name is put back
    restoreOnErr (.node bs dv names kids)
      (match autoKids bd kids with
        | (kids', .err e) => (.node bs dv names kids', .err e)
        | (kids', .ok) => autoFinish bd (.node bs dv names kids'))

/-! ### restructuring in place: exclude / flatten_keys / unflatten_keys (inplace=True)

Their effect on the mapping is the subject of C04 (`exclude_refines`, `flatten_inplace_eq_outplace`, `unflatten_refines`
in Props/C04.lean); here the same calls are followed on the metadata. -/

/-- `del d[p]` when present, through nested tensordicts only (tensordict/_td.py:_exclude: a string key is popped with a
default, nested keys are grouped by their first component and handed to the nested tensordict when there is one) -/
def removeIfPresent : Path → Kids → Kids
  | [], kids => kids
  | [k], kids => kdel k kids
  | k :: k2 :: rest, kids =>
    match kget k kids with
    | some (.node cbs cdv cns sub) => kset k (.node cbs cdv cns (removeIfPresent (k2 :: rest) sub)) kids
    | _ => kids

/-- `td.exclude(*keys, inplace=True)` (keys non-empty): every listed entry is removed when present -/
def excludeM (keys : List Path) : M → M × Out
  | .leaf s d => (.leaf s d, .err .attr)
  | .node bs dv ns kids => (.node bs dv ns (keys.foldl (fun ks p => removeIfPresent p ks) kids), .ok)

/-- `keys(include_nested=True, leaves_only=True)` with the values, in iteration order -/
def leavesM : Kids → Path → List (Path × M)
  | [], _ => []
  | (k, .leaf s d) :: r, pre => (pre ++ [k], .leaf s d) :: leavesM r pre
  | (k, .node _ _ _ sub) :: r, pre => leavesM sub (pre ++ [k]) ++ leavesM r pre

/-- `td.flatten_keys(sep, inplace=True)` (tensordict/base.py:_flatten_keys_inplace after the `fix:` commit): a clash
of flat names raises KeyError before anything is touched; otherwise every leaf is popped, what is left is excluded, and the
leaves are written at the root under their joined names with `_set_str(..., validated=True)` — no shape or device check. -/
def flattenM (sep : String) : M → M × Out
  | .leaf s d => (.leaf s d, .err .attr)
  | .node bs dv ns kids =>
    let lv := leavesM kids []
    let flat := lv.map fun kv => C04.joinWith sep kv.1
    if (C04.dedup flat).length < (C04.dedup (lv.map (·.1))).length then (.node bs dv ns kids, .err .key)
    else (.node bs dv ns ((flat.zip (lv.map (·.2))).foldl (fun d kv => kset kv.1 kv.2 d) []), .ok)

/-- `rename_key_(old, new, safe=True)` for `old ≠ new`: refused (KeyError) when `new in td.keys(include_nested=True)` -/
def renameSafe (old new : Path) (t : M) : M × Out :=
  if (getPath new t).isSome then (t, .err .key) else renamePath old new t

/-- `td.unflatten_keys(sep, inplace=True)`: every root key containing the separator is renamed to its split form with
`safe=True`; a KeyError is re-raised as KeyError, anything else propagates; earlier renames persist -/
def unflattenLoopM (sep : String) : List String → M → M × Out
  | [], t => (t, .ok)
  | k :: ks, t =>
    if C04.sepIn sep k then
      match renameSafe [k] (C04.splitKeyS sep k) t with
      | (t', .err e) => (t', .err e)
      | (t', .ok) => unflattenLoopM sep ks t'
    else unflattenLoopM sep ks t

/-- the empty separator occurs in every name and `name.split("")` raises ValueError -/
def unflattenM (sep : String) : M → M × Out
  | .leaf s d => (.leaf s d, .err .attr)
  | .node bs dv ns kids =>
    if sep = "" ∧ kids ≠ [] then (.node bs dv ns kids, .err .value)
    else unflattenLoopM sep (kids.map (·.1)) (.node bs dv ns kids)

/-! ### update(tensordict, update_batch_size=True) (tensordict/base.py:update after the `fix:` commits d11e6ff / 45f58da)

When the batch sizes of receiver and payload are "obviously mismatching" (`looseMismatch`), the receiver is emptied of its
leaves, given the batch size of the payload and updated again; a nested tensordict meeting a nested tensordict goes through
the same procedure, after which the level above checks whether it still extends its batch size — if not (`batch_size_changed`)
the level recomputes its own batch size at the end (`batch_size = (); auto_batch_size_(batch_dims)`), also when a later entry
raises (there the errors of the adjustment itself are swallowed). -/

/-- `keys(include_nested=True)`: nested tensordicts and leaves, as paths -/
def allKeysM : Kids → Path → List Path
  | [], _ => []
  | (k, .leaf ..) :: r, pre => (pre ++ [k]) :: allKeysM r pre
  | (k, .node _ _ _ sub) :: r, pre => (pre ++ [k]) :: (allKeysM sub (pre ++ [k]) ++ allKeysM r pre)

/-- `item.batch_size[: self.batch_dims] != self.batch_size` for a nested tensordict -/
def childOff (bs : Shape) : M → Bool
  | .node cbs _ _ _ => cbs.take bs.length != bs
  | .leaf .. => false

/-- `bd = self.batch_dims; self.batch_size = (); self.auto_batch_size_(bd)` -/
def fixupBs : M → M × Out
  | .leaf s d => (.leaf s d, .err .attr)
  | .node bs dv ns kids =>
    match setBatchM [] (.node bs dv ns kids) with
    | (t1, .err e) => (t1, .err e)
    | (t1, .ok) => autoBatchM (some bs.length) t1

/-- the `except Exception:` handler around the loop: when a nested tensordict no longer extends the batch size (or the flag
is set) the adjustment runs, its own errors are swallowed; the original exception is re-raised by the caller -/
def handlerBs (changed : Bool) : M → M
  | .leaf s d => .leaf s d
  | .node bs dv ns kids =>
    if changed || kids.any (fun kv => childOff bs kv.2) then (fixupBs (.node bs dv ns kids)).1 else .node bs dv ns kids

/-- the "mismatching batch sizes" head of `update`: every key of the receiver must be a key of the payload (RuntimeError
otherwise, nothing touched); then `self.batch_size = ()`, the leaves are excluded in place, `self.batch_size = payload.batch_size` -/
def prepBs (vbs : Shape) (vkeys : List Path) : M → M × Out
  | .leaf s d => (.leaf s d, .err .attr)
  | .node bs dv ns kids =>
    if !(allKeysM kids []).all (fun p => vkeys.contains p) then (.node bs dv ns kids, .err .runtime)
    else
      match setBatchM [] (.node bs dv ns kids) with
      | (t1, .err e) => (t1, .err e)
      | (.leaf s d, .ok) => (.leaf s d, .err .attr)
      | (.node bs1 dv1 ns1 kids1, .ok) =>
        match excludeM ((leavesM kids1 []).map (·.1)) (.node bs1 dv1 ns1 kids1) with
        | (t2, .err e) => (t2, .err e)
        | (t2, .ok) => setBatchM vbs t2

/-- the head of `target.update(value, update_batch_size=True)`: the mismatching-batch-size procedure when the loose test fires -/
def prepIf (vbs : Shape) (vkeys : List Path) (t : M) : M × Out :=
  if looseMismatch t.shape vbs then prepBs vbs vkeys t else (t, .ok)

/-- the loop over `payload.items()` with the flag `batch_size_changed` -/
def updateBsK : Kids → Bool → M → M × Out
  | [], changed, t => if changed then fixupBs t else (t, .ok)
  | _ :: _, _, .leaf s d => (.leaf s d, .err .attr)
  | (k, .leaf s d) :: rest, changed, .node bs dv ns kids =>
    match setPath false [k] (.leaf s d) (.node bs dv ns kids) with
    | (t', .err e) => (handlerBs changed t', .err e)
    | (t', .ok) => updateBsK rest changed t'
  | (k, .node vbs vdv vns vsub) :: rest, changed, .node bs dv ns kids =>
    match kget k kids with
    | some (.node cbs cdv cns csub) =>
      -- target.update(value, update_batch_size=True): its head, then its own loop; an exception reaches the handler of this level
      match prepIf vbs (allKeysM vsub []) (.node cbs cdv cns csub) with
      | (c0, .err e) => (handlerBs changed (.node bs dv ns (kset k c0 kids)), .err e)
      | (c0, .ok) =>
        match updateBsK vsub false c0 with
        | (c, .err e) => (handlerBs changed (.node bs dv ns (kset k c kids)), .err e)
        | (c, .ok) => updateBsK rest (changed || childOff bs c) (.node bs dv ns (kset k c kids))
    | _ =>
      match setPath false [k] (.node vbs vdv vns vsub) (.node bs dv ns kids) with
      | (t', .err e) => (handlerBs changed t', .err e)
      | (t', .ok) => updateBsK rest changed t'

/-- `td.update(payload, update_batch_size=True)` with a tensordict payload -/
def updateBsM (payload : M) (t : M) : M × Out :=
  match t, payload with
  | .leaf s d, _ => (.leaf s d, .err .attr)
  | .node bs dv ns kids, .node vbs _ _ vsub =>
    match prepIf vbs (allKeysM vsub []) (.node bs dv ns kids) with
    | (c0, .err e) => (c0, .err e)
    | (c0, .ok) => updateBsK vsub false c0
  | .node bs dv ns kids, .leaf .. => (.node bs dv ns kids, .err .type)

/-! ### writes into existing storage: set_, set_at_, update_, update_at_, `td[index] = value`

These calls write VALUES (tensordict/_td.py: _set_at_str / _set_at_tuple, utils.py:_set_item, `tensor[index] = value`); the
only metadata they may create are the keys `td[index] = {new_key: ...}` auto-creates through a `_SubTensorDict`
(`_SubTensorDict._set_str`: a zero tensor of shape `parent.batch_size + value.shape[batch_dims:]`, nested tensordicts
expanded likewise). They are not transcribed line by line — what torch accepts as `tensor[index] = value` is outside this
model — but by the ENVELOPE of their effect on the metadata: nothing that exists changes its batch size, device, names,
key or place; entries may only be appended (when `allowNew`), and an appended entry must fit its container and be coherent.
The step below takes the state observed after the call and accepts it exactly when it lies inside the envelope; the check
sends every observed post-state through it. -/

/-- decidable coherence of the entries of a container of batch size `bs` on device `dv` -/
def coherentK (bs : Shape) (dv : Option Nat) : Kids → Bool
  | [] => true
  | (_, .leaf s d) :: r => takeEq s bs && (dv.isNone || dv == some d) && coherentK bs dv r
  | (_, .node cbs cdv cns sub) :: r =>
    takeEq cbs bs && (dv.isNone || dv == cdv) && (match cns with | none => true | some l => l.length == cbs.length) &&
      coherentK cbs cdv sub && coherentK bs dv r

/-- `kids'` is `kids` — same keys, same order, same metadata at every depth — followed (if `allowNew`) by new coherent entries -/
def growsK (allowNew : Bool) (bs : Shape) (dv : Option Nat) : Kids → Kids → Bool
  | [], new => (allowNew || new.isEmpty) && coherentK bs dv new
  | (k, .leaf s d) :: r, (k', .leaf s' d') :: r' => k == k' && s == s' && d == d' && growsK allowNew bs dv r r'
  | (k, .node cbs cdv cns sub) :: r, (k', .node cbs' cdv' cns' sub') :: r' =>
    k == k' && cbs == cbs' && cdv == cdv' && cns == cns' && growsK allowNew cbs cdv sub sub' && growsK allowNew bs dv r r'
  | _, _ => false

/-- `select(*keys, inplace=True)` (its effect on the mapping is C04's subject: Props/C04.lean `select_refines`): seen on the
metadata, entries may only DISAPPEAR — what remains (in the order of the keys, which is free here) keeps its key, batch size,
device and names at every depth -/
def shrinksK : Kids → Kids → Bool
  | _, [] => true
  | kids, (k, .leaf s d) :: r =>
    (match kget k kids with
      | some (.leaf s0 d0) => s == s0 && d == d0
      | _ => false) && shrinksK kids r
  | kids, (k, .node cbs cdv cns sub') :: r =>
    (match kget k kids with
      | some (.node b0 d0 n0 sub0) => cbs == b0 && cdv == d0 && cns == n0 && shrinksK sub0 sub'
      | _ => false) && shrinksK kids r

/-- an in-place `select` observed to end in `obs`: accepted iff `obs` is inside that envelope -/
def selectInM (obs : M) : M → M × Out
  | .leaf s d => (.leaf s d, .err .attr)
  | .node bs dv ns kids =>
    match obs with
    | .node bs' dv' ns' kids' =>
      if bs == bs' && dv == dv' && ns == ns' && shrinksK kids kids' then (.node bs dv ns kids', .ok)
      else (.node bs dv ns kids, .err .runtime)
    | .leaf .. => (.node bs dv ns kids, .err .runtime)

/-- a write into existing storage observed to end in `obs`: accepted iff `obs` is inside the envelope -/
def writeM (allowNew : Bool) (obs : M) : M → M × Out
  | .leaf s d => (.leaf s d, .err .attr)
  | .node bs dv ns kids =>
    match obs with
    | .node bs' dv' ns' kids' =>
      if bs == bs' && dv == dv' && ns == ns' && growsK allowNew bs dv kids kids' then (.node bs dv ns kids', .ok)
      else (.node bs dv ns kids, .err .runtime)
    | .leaf .. => (.node bs dv ns kids, .err .runtime)

/-- apply `f` to the node addressed by `handle` (a nested handle `td[handle]`), rebuilding the path -/
def atPath (f : M → M × Out) : Path → M → M × Out
  | [], t => f t
  | k :: rest, .node bs dv ns kids =>
    match kget k kids with
    | some c =>
      let (c', o) := atPath f rest c
      (.node bs dv ns (kset k c' kids), o)
    | none => (.node bs dv ns kids, .err .key)
  | _ :: _, .leaf s d => (.leaf s d, .err .key)

inductive Op where
  | set (handle key : Path) (v : M)
  | setBatch (handle : Path) (bs : Shape)
  | setNames (handle : Path) (names : Option DimNames)
  | del (handle key : Path)
  | rename (handle old new : Path)
  | createNested (handle key : Path)
  | clear (handle : Path)
  | pop (handle key : Path)
  | popitem (handle : Path)
  | setdefault (handle key : Path) (v : M)
  | refineNames (handle : Path) (names : DimNames)
  | update (handle : Path) (items : List (Path × PV))
  | updateTd (handle : Path) (payload : M)
  | updateBs (handle : Path) (payload : M)
  | write (handle : Path) (allowNew : Bool) (observed : M)
  | selectIn (handle : Path) (observed : M)
  | autoBatch (handle : Path) (batchDims : Option Nat)
  | excludeIn (handle : Path) (keys : List Path)
  | flattenIn (handle : Path) (sep : String)
  | unflattenIn (handle : Path) (sep : String)
  deriving Repr, Inhabited

def clearM : M → M × Out
  | .leaf s d => (.leaf s d, .err .attr)
  | .node bs dv ns _ => (.node bs dv ns [], .ok)

def step (t : M) : Op → M × Out
  | .set h key v => atPath (setPath false key v) h t
  | .setBatch h bs => atPath (setBatchM bs) h t
  | .setNames h ns => atPath (setNamesM ns) h t
  | .del h key => atPath (delPath key) h t
  | .rename h o n => atPath (renamePath o n) h t
  | .createNested h key => atPath (createNested key) h t
  | .clear h => atPath clearM h t
  | .pop h key => atPath (popPath key) h t
  | .popitem h => atPath popItem h t
  | .setdefault h key v => atPath (setDefaultPath key v) h t
  | .refineNames h ns => atPath (refineNamesM ns) h t
  | .update h items => atPath (updateC (updMeasureC items) items) h t
  | .updateTd h m => atPath (updateTdM m) h t
  | .updateBs h m => atPath (updateBsM m) h t
  | .write h an obs => atPath (writeM an obs) h t
  | .selectIn h obs => atPath (selectInM obs) h t
  | .autoBatch h bd => atPath (autoBatchM bd) h t
  | .excludeIn h keys => atPath (excludeM keys) h t
  | .flattenIn h sep => atPath (flattenM sep) h t
  | .unflattenIn h sep => atPath (unflattenM sep) h t

def run (t : M) : List Op → M
  | [] => t
  | op :: ops => run (step t op).1 ops

end TdVerif.C01
