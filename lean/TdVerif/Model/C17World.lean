/-
C17 — several objects, one `_last_op_queue` PER OBJECT.

tensordict/base.py:__enter__ creates the deque on the instance (`self._last_op_queue = collections.deque()` under
`if not hasattr(self, "_last_op_queue")`) and pushes the instance's `_last_op`; `__exit__` pops from the instance's deque.
tensordict/utils.py:_as_context_manager stores the record `(name, (args, kwargs, weakref(self)))` on the RESULT of the method.
`Model/C17Ctx.lean` follows one block (or a LIFO nest) on one original; this file has a heap of objects so that blocks on different
objects can be entered and closed in any order (generators, `ExitStack`, manual `__enter__`/`__exit__`).
-/
import TdVerif.Model.C17Ctx

namespace TdVerif.C17
open TdVerif.C02

/-- `_last_op`: method name, spelled call, and (the id of) the object the method was called on (`weakref(self)`) -/
structure Rec where
  name : String
  call : Call
  src : Nat
  deriving DecidableEq, Repr

/-- a tensordict object: its metadata, its `_last_op` and its OWN `_last_op_queue` (head = top of the deque) -/
structure Obj where
  st : St
  lastOp : Option Rec
  queue : List (Option Rec)
  deriving DecidableEq, Repr

/-- a heap of objects, the next free id, and the program's variables (variable `v` names object `vars[v]`) -/
structure World where
  objs : Nat → Obj
  next : Nat
  vars : List Nat

def Obj.fresh (s : St) : Obj := ⟨s, none, []⟩

def World.set (w : World) (i : Nat) (o : Obj) : World := { w with objs := fun k => if k = i then o else w.objs k }

def World.var (w : World) (v : Nat) : Nat := w.vars.getD v 0

/-- the originals are the variables `0 … n-1` -/
def World.init (origs : List St) : World :=
  { objs := fun k => Obj.fresh (origs.getD k ⟨[], none, [], false⟩), next := origs.length, vars := List.range origs.length }

/-- `x_new = x_v.<name>(<call>)` (utils.py:_as_context_manager): a method that returns `self` re-uses the object, otherwise a new
object is allocated; the record (or `None` for a lock op that changed nothing) is stored on the RESULT.  The result is bound to
the next variable. -/
def wCall (w : World) (v : Nat) (name : String) (c : Call) : Except Err World := do
  let i := w.var v
  let o := w.objs i
  let y ← fwd name c o.st
  let r : Option Rec := if y.recorded then some ⟨name, c, i⟩ else none
  if y.isSelf then
    pure { (w.set i { o with st := y.st, lastOp := r }) with vars := w.vars ++ [i] }
  else
    pure { (w.set w.next ⟨y.st, r, []⟩) with next := w.next + 1, vars := w.vars ++ [w.next] }

/-- base.py:__enter__: `self._last_op_queue.append(self._last_op)` -/
def wEnter (w : World) (v : Nat) : World :=
  let j := w.var v
  let o := w.objs j
  w.set j { o with queue := o.lastOp :: o.queue }

/-- edits made on the object inside a block -/
def wEdits (w : World) (v : Nat) (es : List Edit) : Except Err World := do
  let j := w.var v
  let o := w.objs j
  let st ← applyEdits o.st es
  pure (w.set j { o with st := st })

/-- the part of base.py:__exit__ after the pop: run the registered inverse of record `r` on object `j` and write the result back to
the object the record points at -/
def wExitWith (r : Option Rec) (w : World) (j : Nat) : Except Err World :=
  match r with
  | none => .ok w
  | some r => do
    let st' ← exitBlock r.name r.call true (r.src == j) (w.objs j).st (w.objs r.src).st
    pure (w.set r.src { w.objs r.src with st := st' })

/-- base.py:__exit__ (normal exit): `_last_op = self._last_op_queue.pop()` — the object's OWN deque; popping an empty deque is an
IndexError -/
def wExitObj (w : World) (j : Nat) : Except Err World :=
  match (w.objs j).queue with
  | [] => .error .index
  | r :: q => wExitWith r (w.set j { w.objs j with queue := q }) j

def wExit (w : World) (v : Nat) : Except Err World := wExitObj w (w.var v)

/-- base.py:__exit__ when the body RAISED (`exc_type` is an Exception): the record pushed by `__enter__` is popped and nothing is written
back (only a `to_module` record is undone, which this model does not cover); the exception propagates -/
def wExitRaised (w : World) (v : Nat) : Except Err World :=
  let j := w.var v
  match (w.objs j).queue with
  | [] => .error .index
  | _ :: q => .ok (w.set j { w.objs j with queue := q })

inductive Step where
  | call (v : Nat) (name : String) (c : Call)
  | enter (v : Nat)
  | edits (v : Nat) (es : List Edit)
  | exit (v : Nat)
  /-- the block on `v` is left by an exception raised in its body -/
  | exitRaised (v : Nat)

def runStep (w : World) : Step → Except Err World
  | .call v name c => wCall w v name c
  | .enter v => .ok (wEnter w v)
  | .edits v es => wEdits w v es
  | .exit v => wExit w v
  | .exitRaised v => wExitRaised w v

def runSteps (w : World) : List Step → Except Err World
  | [] => .ok w
  | s :: ss => do
    let w' ← runStep w s
    runSteps w' ss

/-- metadata of the object a variable names -/
def World.stOf (w : World) (v : Nat) : St := (w.objs (w.var v)).st

/-- one block, as a program: `with x0.<name>(<call>) as x1: <edits on x1>` -/
def blockProg (name : String) (c : Call) (es : List Edit) : List Step :=
  [.call 0 name c, .enter 1, .edits 1 es, .exit 1]

/-- two blocks on two different originals `x0`, `x1`, entered in that order, closed in the order given (`aFirst` = NOT last-in
first-out) -/
def interleavedProg (n1 : String) (c1 : Call) (e1 : List Edit) (n2 : String) (c2 : Call) (e2 : List Edit) (aFirst : Bool) : List Step :=
  [.call 0 n1 c1, .call 1 n2 c2, .enter 2, .enter 3, .edits 2 e1, .edits 3 e2] ++
  (if aFirst then [.exit 2, .exit 3] else [.exit 3, .exit 2])

/-- `with x0.<n1>(c1) as x1: (with x1.<n2>(c2) as x2: edits2 on x2); edits1 on x1` -/
def nestedProg (n1 : String) (c1 : Call) (n2 : String) (c2 : Call) (e2 e1 : List Edit) : List Step :=
  [.call 0 n1 c1, .enter 1, .call 1 n2 c2, .enter 2, .edits 2 e2, .exit 2, .edits 1 e1, .exit 1]

/-- `with x0.<n1>(c1) as x1: (with x0.<n2>(c2) as x2: edits2 on x2); edits1 on x1` (the inner block is entered on the ORIGINAL again) -/
def siblingProg (n1 : String) (c1 : Call) (n2 : String) (c2 : Call) (e2 e1 : List Edit) : List Step :=
  [.call 0 n1 c1, .enter 1, .call 0 n2 c2, .enter 2, .edits 2 e2, .exit 2, .edits 1 e1, .exit 1]

/-- two blocks in a row on the same original: `with x0.<n1>(c1) as x1: edits1`, then `with x0.<n2>(c2) as x2: edits2` -/
def sequentialProg (n1 : String) (c1 : Call) (e1 : List Edit) (n2 : String) (c2 : Call) (e2 : List Edit) : List Step :=
  [.call 0 n1 c1, .enter 1, .edits 1 e1, .exit 1, .call 0 n2 c2, .enter 2, .edits 2 e2, .exit 2]

/-- a block whose body raises after its edits, then (the exception caught) a second, normal block on the same original -/
def abortedThenProg (n1 : String) (c1 : Call) (e1 : List Edit) (n2 : String) (c2 : Call) (e2 : List Edit) : List Step :=
  [.call 0 n1 c1, .enter 1, .edits 1 e1, .exitRaised 1, .call 0 n2 c2, .enter 2, .edits 2 e2, .exit 2]

/-- the objects a normal exit of `j` reads or writes: `j` itself and the object its top record points at -/
def footprint (w : World) (j : Nat) : List Nat :=
  j :: match (w.objs j).queue with
       | some r :: _ => [r.src]
       | _ => []

/-- what a queue shared by all objects would do (NOT the code: the variant that `wExitObj` rules out): the pop returns the record
pushed last by ANY object -/
def wExitShared (shared : List (Option Rec)) (w : World) (j : Nat) : Except Err (World × List (Option Rec)) :=
  match shared with
  | [] => .error .index
  | r :: q => do
    let w' ← wExitWith r w j
    pure (w', q)

end TdVerif.C17
