/-
  C03 — indexing.  Three layers, kept apart on purpose:

  * `TdVerif.C03`            index grammar `Ix`, shapes, row-major coordinates, broadcasting
  * `TdVerif.C03.TorchSpec`  OUR RENDERING OF TORCH: what `tensor[index]` selects (shape and
                             coordinate map).  Spec, not tensordict code; validated against
                             torch itself by the stream `spec_vs_torch` of harness/check_C03.py.
  * `TdVerif.C03.Td`         transcription of the tensordict code paths
                               convert_ellipsis_to_idx   tensordict/utils.py
                               _getitem_batch_size       tensordict/utils.py
                               _get_names_idx            tensordict/base.py
                               __getitem__               tensordict/base.py
                               _index_tensordict         tensordict/_td.py
                               __setitem__/_set_at_str   tensordict/_td.py
                             tied to the source by the correspondence streams of check_C03.py.
  The property theorems (Props/C03.lean) relate `Td` to `TorchSpec`.
-/
import TdVerif.Model.SliceSpec

namespace TdVerif.C03

abbrev Shape := List Nat

inductive Err where
  | index | runtime | value | type
  deriving DecidableEq, Repr, Inhabited

instance {ε α} [DecidableEq ε] [DecidableEq α] : DecidableEq (Except ε α) := fun a b =>
  match a, b with
  | .ok x, .ok y => if h : x = y then isTrue (by rw [h]) else isFalse (by intro h'; cases h'; exact h rfl)
  | .error x, .error y => if h : x = y then isTrue (by rw [h]) else isFalse (by intro h'; cases h'; exact h rfl)
  | .ok _, .error _ => isFalse (by intro h; cases h)
  | .error _, .ok _ => isFalse (by intro h; cases h)

/-- One item of a Python index expression. `tensor`/`mask` carry shape + row-major data. -/
inductive Ix where
  | int (i : Int)
  | slice (start stop step : Option Int)
  | none
  | ell
  | list (l : List Int)
  | range (start stop step : Int)
  | tensor (shape : Shape) (data : List Int)
  | mask (shape : Shape) (data : List Bool)
  deriving DecidableEq, Repr, Inhabited

/-- What sits between the brackets: a bare object or a tuple. -/
inductive PyIndex where
  | single (i : Ix)
  | tuple (l : List Ix)
  deriving DecidableEq, Repr, Inhabited

def PyIndex.items : PyIndex → List Ix
  | .single i => [i]
  | .tuple l => l

/-! ### shapes and coordinates -/

def numel : Shape → Nat
  | [] => 1
  | n :: r => n * numel r

/-- row-major flat offset of a coordinate -/
def ravel : Shape → List Nat → Nat
  | [], _ => 0
  | _ :: r, c => c.headD 0 * numel r + ravel r c.tail

/-- inverse of `ravel` on in-range offsets -/
def unravel : Shape → Nat → List Nat
  | [], _ => []
  | _ :: r, p => p / numel r :: unravel r (p % numel r)

/-- all coordinates of a shape in row-major order -/
def coords : Shape → List (List Nat)
  | [] => [[]]
  | n :: r => (List.range n).flatMap (fun i => (coords r).map (i :: ·))

/-- `torch.broadcast_shapes` on reversed shapes -/
def bcRev : List Nat → List Nat → Option (List Nat)
  | [], b => some b
  | a :: as, [] => some (a :: as)
  | x :: a, y :: b =>
    match bcRev a b with
    | none => none
    | some r =>
      if x = y then some (x :: r) else if x = 1 then some (y :: r)
      else if y = 1 then some (x :: r) else none

def broadcast2 (a b : Shape) : Option Shape := (bcRev a.reverse b.reverse).map List.reverse

def broadcastAll : List Shape → Option Shape
  | [] => some []
  | s :: r => (broadcastAll r).bind (broadcast2 s)

/-- `range(a, b, c)` as data (`c ≠ 0`) -/
def rangeData (a b c : Int) : List Int :=
  (List.range (SliceSpec.rangeLen a b c).toNat).map (fun i => SliceSpec.rangeGet a c i)

/-- `len(range(*slice(a,b,c).indices(n)))`; `ValueError` for a zero step -/
def pySliceLen (a b c : Option Int) (n : Nat) : Except Err Nat :=
  match SliceSpec.indices a b c n with
  | .error _ => .error .value
  | .ok (s, e, st) => .ok (SliceSpec.rangeLen s e st).toNat

/-- flat positions of the `true` entries, in row-major order -/
def truePositions : List Bool → Nat → List Nat
  | [], _ => []
  | true :: r, p => p :: truePositions r (p + 1)
  | false :: r, p => truePositions r (p + 1)

/-! ### TorchSpec — what torch does for `tensor[index]` -/
namespace TorchSpec

/-- One step of torch's index plan. Each piece consumes some input dims and yields some output dims. -/
inductive Piece where
  /-- `select`: an int (or 0-d integer tensor) on a dim of size `n`, normalised index `i` -/
  | sel (n i : Nat)
  /-- a slice on a dim of size `n`: output dim `len`, source coordinate `start + step * c` -/
  | sl (n start step len : Nat)
  /-- `None`: a new output dim of size 1 -/
  | new
  /-- advanced index on the dims `ns`: one index tensor (`cols`, row-major) per dim, all of shape `shape`
      (an integer tensor / list / range: one dim; a boolean mask of rank k: k dims, `nonzero` columns) -/
  | adv (ns : List Nat) (shape : Shape) (cols : List (List Int))
  deriving Repr, DecidableEq, Inhabited

def Piece.full (n : Nat) : Piece := .sl n 0 1 n

/-- number of tensor dims an index names explicitly (`None` and `...` name none; a mask names `ndim`) -/
def specified : List Ix → Nat
  | [] => 0
  | .none :: r => specified r
  | .ell :: r => specified r
  | .mask s _ :: r => s.length + specified r
  | _ :: r => 1 + specified r

def normIdx (i : Int) (n : Nat) : Nat := (if i < 0 then i + n else i).toNat

def consSel (n : Nat) (i : Int) (rest : Except Err (List Piece)) : Except Err (List Piece) :=
  if -(n : Int) ≤ i ∧ i < n then rest.map (Piece.sel n (normIdx i n) :: ·) else .error .index

/-- torch accepts only positive steps -/
def consSlice (n : Nat) (a b c : Option Int) (rest : Except Err (List Piece)) : Except Err (List Piece) :=
  if c.getD 1 ≤ 0 then .error .value else
  match SliceSpec.indices a b c n with
  | .error _ => .error .value
  | .ok (s, e, st) => rest.map (Piece.sl n s.toNat st.toNat (SliceSpec.rangeLen s e st).toNat :: ·)

def consAdv (n : Nat) (shape : Shape) (data : List Int) (rest : Except Err (List Piece)) : Except Err (List Piece) :=
  rest.map (Piece.adv [n] shape [data] :: ·)

/-- a boolean mask over dims `s` becomes `nonzero` index columns, one per dim -/
def maskPiece (s : Shape) (d : List Bool) : Piece :=
  let pos := (truePositions d 0).map (unravel s)
  .adv s [pos.length] ((List.range s.length).map (fun k => pos.map (fun c => (c.getD k 0 : Int))))

/-- left-to-right pass over the items (`applySlicing` in python_variable_indexing.cpp).
    `e` = number of dims the ellipsis stands for. After the items, the remaining dims are kept whole. -/
def walk (e : Nat) : Shape → List Ix → Except Err (List Piece)
  | dims, [] => .ok (dims.map Piece.full)
  | dims, .none :: r => (walk e dims r).map (Piece.new :: ·)
  | dims, .ell :: r => (walk e (dims.drop e) r).map ((dims.take e).map Piece.full ++ ·)
  | dims, .mask s d :: r =>
    if s ≠ [] ∧ dims.take s.length = s then (walk e (dims.drop s.length) r).map (maskPiece s d :: ·)
    else .error .index
  | [], .int _ :: _ => .error .index
  | [], .slice .. :: _ => .error .index
  | [], .list _ :: _ => .error .index
  | [], .range .. :: _ => .error .index
  | [], .tensor .. :: _ => .error .index
  | n :: ds, .int i :: r => consSel n i (walk e ds r)
  | n :: ds, .slice a b c :: r => consSlice n a b c (walk e ds r)
  | n :: ds, .list l :: r => consAdv n [l.length] l (walk e ds r)
  | n :: ds, .range a b c :: r => consAdv n [(SliceSpec.rangeLen a b c).toNat] (rangeData a b c) (walk e ds r)
  | n :: ds, .tensor [] d :: r => consSel n (d.headD 0) (walk e ds r)
  | n :: ds, .tensor (m :: s) d :: r => consAdv n (m :: s) d (walk e ds r)

def advShapes : List Piece → List Shape
  | [] => []
  | .adv _ s _ :: r => s :: advShapes r
  | _ :: r => advShapes r

/-- the dims left after the selects, `true` = carries an index tensor -/
def kinds : List Piece → List Bool
  | [] => []
  | .sel .. :: r => kinds r
  | .adv .. :: r => true :: kinds r
  | _ :: r => false :: kinds r

/-- inside the run of indexed dims: the run may continue; once it stops no indexed dim may follow -/
def afterRun : List Bool → Bool
  | [] => true
  | true :: r => afterRun r
  | false :: r => r.all (!·)

/-- `hasContiguousSubspace` (ATen/TensorAdvancedIndexing): no un-indexed dim between the first and
    the last indexed one: skip the leading un-indexed dims, then the run of indexed dims, then none
    (`contiguous_eq_dropWhile` in Lemmas/C03Scan.lean states it with `dropWhile`) -/
def contiguous : List Bool → Bool
  | [] => true
  | false :: r => contiguous r
  | true :: r => afterRun r

/-- output dims in order; the broadcast shape `B` is emitted at the first advanced piece
    (`emitted = true`: it already was, or goes elsewhere) -/
def outDims (B : Shape) : Bool → List Piece → Shape
  | _, [] => []
  | f, .sel .. :: r => outDims B f r
  | f, .sl _ _ _ len :: r => len :: outDims B f r
  | f, .new :: r => 1 :: outDims B f r
  | false, .adv .. :: r => B ++ outDims B true r
  | true, .adv .. :: r => outDims B true r

/-- result shape: `B` replaces the indexed dims in place when they are contiguous, else goes in front -/
def outShape (P : List Piece) (B : Shape) : Shape :=
  if contiguous (kinds P) then outDims B false P else B ++ outDims B true P

/-- every index value within `[-n, n)` -/
def advInRange : List Piece → Bool
  | [] => true
  | .adv ns _ cols :: r =>
    (List.zipWith (fun (n : Nat) (col : List Int) => col.all (fun v => decide (-(n : Int) ≤ v ∧ v < n))) ns cols).all id
      && advInRange r
  | _ :: r => advInRange r

def hasZeroIndexedDim : List Piece → Bool
  | [] => false
  | .adv ns _ _ :: r => ns.contains 0 || hasZeroIndexedDim r
  | _ :: r => hasZeroIndexedDim r

/-- number of output dims before the first advanced piece -/
def preLen : List Piece → Nat
  | [] => 0
  | .sel .. :: r => preLen r
  | .sl .. :: r => 1 + preLen r
  | .new :: r => 1 + preLen r
  | .adv .. :: _ => 0

/-- coordinate inside an index tensor of shape `shape` for the broadcast coordinate `b` -/
def bcCoord (shape : Shape) (b : List Nat) : List Nat :=
  List.zipWith (fun n x => if n = 1 then 0 else x) shape (b.drop (b.length - shape.length))

def advValue (n : Nat) (shape : Shape) (col : List Int) (b : List Nat) : Nat :=
  normIdx (col.getD (ravel shape (bcCoord shape b)) 0) n

/-- source coordinate, piece by piece. `b` = coordinate in the broadcast block, `s` = the other
    output coordinates in order -/
def walkSrc (b : List Nat) : List Piece → List Nat → List Nat
  | [], _ => []
  | .sel _ i :: r, s => i :: walkSrc b r s
  | .sl _ st sp _ :: r, s => (st + sp * s.headD 0) :: walkSrc b r s.tail
  | .new :: r, s => walkSrc b r s.tail
  | .adv ns shape cols :: r, s =>
    List.zipWith (fun n col => advValue n shape col b) ns cols ++ walkSrc b r s

def srcCoord (P : List Piece) (B : Shape) (c : List Nat) : List Nat :=
  if contiguous (kinds P) then
    let k := preLen P
    walkSrc ((c.drop k).take B.length) P (c.take k ++ c.drop (k + B.length))
  else walkSrc (c.take B.length) P (c.drop B.length)

/-- the result of `tensor[index]`: its shape, which source element every result element is, and
    whether it is a view of the source (basic indexing) or a copy (advanced indexing) -/
structure IndexResult where
  shape : Shape
  src : List Nat → List Nat
  view : Bool

/-- second pass (`at::index`): broadcast the index tensors, bounds checks, placement.
    Bounds are only checked on elements that are actually gathered: an empty result checks nothing,
    except that an indexed dim of size 0 needs an empty index. -/
def finalize (P : List Piece) : Except Err IndexResult :=
  match broadcastAll (advShapes P) with
  | none => .error .index
  | some B =>
    let out := outShape P B
    if hasZeroIndexedDim P && !B.contains 0 then .error .index
    else if decide (numel out > 0) && !advInRange P then .error .index
    else .ok { shape := out, src := srcCoord P B, view := (advShapes P).isEmpty }

def plan (dims : Shape) (items : List Ix) : Except Err (List Piece) :=
  if specified items > dims.length then .error .index
  else walk (dims.length - specified items) dims items

/-- `torch.empty(dims)[items]` -/
def index (dims : Shape) (items : List Ix) : Except Err IndexResult :=
  match plan dims items with
  | .error e => .error e
  | .ok P => finalize P

/-- shape only -/
def indexShape (dims : Shape) (items : List Ix) : Except Err Shape :=
  (index dims items).map (·.shape)

/-! `tensor[index] = value` -/

/-- can a value of shape `v` be written into an indexed region of shape `out`: leading dims beyond `out`'s rank
    must be 1, the others equal or 1 (`expand`) -/
def valueOk (v out : Shape) : Bool :=
  let extra := v.length - out.length
  (v.take extra).all (· == 1) &&
    (List.zipWith (fun a b => a == b || a == 1) ((v.drop extra).reverse) out.reverse).all id &&
    decide (v.length - extra ≤ out.length)

/-- the element of the value tensor that lands at coordinate `c` of the indexed region -/
def valueCoord (v out : Shape) (c : List Nat) : List Nat :=
  let extra := v.length - out.length
  let v' := v.drop extra
  List.replicate extra 0 ++
    List.zipWith (fun n x => if n = 1 then 0 else x) v' (c.drop (out.length - v'.length))

/-- `tensor[index] = value`: for every position of the destination, the coordinate in `value` of the element
    written there (`none`: untouched). Positions hit several times keep the last write in row-major order
    of the indexed region (torch: unspecified; the harness only sends constant values there). -/
def setIndex (dims : Shape) (items : List Ix) (v : Shape) : Except Err (List Nat → Option (List Nat)) :=
  match index dims items with
  | .error e => .error e
  | .ok R =>
    if valueOk v R.shape then
      .ok (fun c' => ((coords R.shape).reverse.find? (fun c => R.src c == c')).map (valueCoord v R.shape))
    else .error .runtime

end TorchSpec

/-! ### Td — transcription of the tensordict code -/
namespace Td

def slAll : Ix := .slice none none none

/-- `_mask_extra_dims` of `convert_ellipsis_to_idx`: dims a boolean mask takes beyond the first one -/
def maskExtra : Ix → Int
  | .mask s _ => (s.length : Int) - 1
  | _ => 0

/-- result of the scanning loop of `convert_ellipsis_to_idx`: (start_pos, after_ellipsis_length, num_dims).
    `num_dims` grows by one for every `None` and shrinks by `ndim - 1` for every boolean mask. -/
def ellLoop : List Ix → Nat → Option Nat → Nat → Int → Except Err (Option Nat × Nat × Int)
  | [], _, sp, a, nd => .ok (sp, a, nd)
  | x :: r, i, sp, a, nd =>
    if x = .ell ∧ sp.isSome then .error .runtime      -- "An index can only have one ellipsis at most."
    else
      let sp' := if x = .ell then some i else sp
      let a' := if x ≠ .ell ∧ sp'.isSome then a + 1 else a
      let nd' := if x = .none then nd + 1 else nd - maskExtra x
      ellLoop r (i + 1) sp' a' nd'

/-- mirrors tensordict/utils.py:convert_ellipsis_to_idx (with the fix of DESIGN §7 row 8: a boolean mask of
    rank k counts for k dims) -/
def convertEllipsis (idx : PyIndex) (bsLen : Nat) : Except Err PyIndex :=
  let noEll : Bool := match idx with
    | .single i => i != Ix.ell
    | .tuple l => l.all (· != Ix.ell)
  if noEll then .ok idx else
  let items := idx.items
  let numEll := items.count Ix.ell
  let nones := items.count Ix.none
  let extra : Int := (items.map maskExtra).sum
  -- "Not enough dimensions in TensorDict for index provided."
  if (bsLen : Int) < (items.length : Int) - numEll - nones + extra then .error .runtime
  else
    match ellLoop items 0 none 0 bsLen with
    | .error e => .error e
    | .ok (none, _, _) => .ok (.tuple items)
    | .ok (some sp, after, numDims) =>
      let ellLen : Int := numDims - after - sp
      let newIndex := items.take sp ++ List.replicate ellLen.toNat slAll ++ (items.drop (sp + 1)).take after
      if (newIndex.length : Int) ≠ numDims then .error .runtime else .ok (.tuple newIndex)

/-- mirrors tensordict/utils.py:_check_index_ndim (fix of DESIGN §7 row 6): an index addressing more dims than the
    batch has is an IndexError. `None`/`Ellipsis` address none, a boolean mask its `ndim`, anything else one. -/
def indexNdim : List Ix → Nat
  | [] => 0
  | .none :: r => indexNdim r
  | .ell :: r => indexNdim r
  | .mask s _ :: r => s.length + indexNdim r
  | _ :: r => 1 + indexNdim r

def checkIndexNdim (idx : PyIndex) (batchDims : Nat) : Except Err Unit :=
  if indexNdim idx.items > batchDims then .error .index else .ok ()

/-- first loop of `_getitem_batch_size`: the `shape` recorded in `shapes_dict` for an item, if any.
    (0-d integer tensors record none: they behave as ints — fix of DESIGN §7 row 7.) -/
def itemShape : Ix → Option Shape
  | .list l => some [l.length]
  | .range a b c => some [(SliceSpec.rangeLen a b c).toNat]
  | .tensor [] _ => none
  | .tensor (m :: s) _ => some (m :: s)
  | .mask _ d => some [d.count true]
  | _ => none

/-- items at which `look_for_disjoint` is recomputed: slices, and `None` (fix of §7 row 7) -/
def isSep : Ix → Bool
  | .slice .. => true
  | .none => true
  | _ => false

structure Scan where
  shapes : List Shape      -- values of shapes_dict, insertion order
  look : Bool              -- look_for_disjoint
  disjoint : Bool
  deriving Repr, DecidableEq

/-- mirrors the first `for` loop of tensordict/utils.py:_getitem_batch_size -/
def scan : List Ix → Scan → Scan
  | [], st => st
  | x :: r, st =>
    let st1 : Scan := if isSep x then { st with look := !st.disjoint && !st.shapes.isEmpty } else st
    match itemShape x with
    | some s => scan r { shapes := st1.shapes ++ [s], look := st1.look, disjoint := st1.disjoint || st1.look }
    | none => scan r st1

structure Asm where
  out : List Nat
  cnt : Nat                -- Python `count + 1`
  pend : Option Shape      -- `bs_shape` (None once written)
  deriving Repr, DecidableEq

/-- dims an item advances `count` by: `idx.ndim` for a boolean mask, else 1 -/
def countStep : Ix → Nat
  | .mask s _ => s.length
  | _ => 1

/-- mirrors the second `for` loop of tensordict/utils.py:_getitem_batch_size.
    `i in shapes_dict` is `(itemShape x).isSome` (the first loop records key `i` exactly then). -/
def asm (bs : Shape) (disjoint : Bool) : List Ix → Asm → Except Err Asm
  | [], st => .ok st
  | .none :: r, st => asm bs disjoint r { st with out := st.out ++ [1] }
  | x :: r, st =>
    let cnt := st.cnt + countStep x
    if (itemShape x).isSome then
      match st.pend with
      | some B => asm bs disjoint r { out := if disjoint then B ++ st.out else st.out ++ B, cnt := cnt, pend := none }
      | none => asm bs disjoint r { st with cnt := cnt }
    else
      match x with
      | .slice a b c =>
        match bs[cnt - 1]? with
        | none => .error .index                    -- batch_size[count] out of range
        | some n =>
          match pySliceLen a b c n with
          | .error e => .error e
          | .ok len => asm bs disjoint r { st with out := st.out ++ [len], cnt := cnt }
      | _ => asm bs disjoint r { st with cnt := cnt }   -- ints (and 0-d tensors, Ellipsis): nothing appended

/-- mirrors tensordict/utils.py:_getitem_batch_size -/
def getitemBatchSize (bs : Shape) (idx : PyIndex) : Except Err Shape :=
  match idx with
  | .single (.int _) => .ok (bs.drop 1)
  | .single (.slice none none none) => .ok bs
  | _ =>
    let items := idx.items
    let sc := scan items { shapes := [], look := false, disjoint := false }
    let pend? : Except Err (Option Shape) :=
      if sc.shapes.isEmpty then .ok none
      else match broadcastAll sc.shapes with
        | none => .error .runtime                 -- torch.broadcast_shapes raises
        | some B => .ok (some B)
    match pend? with
    | .error e => .error e
    | .ok pend =>
      match asm bs sc.disjoint items { out := [], cnt := 0, pend := pend } with
      | .error e => .error e
      | .ok st => .ok (st.out ++ bs.drop st.cnt)

/-! names -/

abbrev Names := List (Option String)

/-- `is_boolean(idx)` of `_get_names_idx`: ndim of a lone boolean mask -/
def isBoolean : PyIndex → Option Nat
  | .single (.mask s _) => some s.length
  | .tuple [.mask s _] => some s.length
  | _ => none

structure NamesSt where
  take : List (Option Nat)   -- idx_to_take (names, as positions, of the dims that are not advanced-indexed)
  count : Nat
  advPos : Option Nat        -- adv_pos: position of the broadcast dims among the dims of the result
  advDim : Nat               -- adv_dim: dim indexed by the first index array
  advNdim : Nat              -- adv_ndim: number of broadcast dims
  nAdv : Nat                 -- n_adv
  advIsMask : Bool
  sepAfterAdv : Bool
  disjoint : Bool

/-- `_is_number`: ints and 0-d tensors (of any dtype) -/
def isNumber : Ix → Bool
  | .int _ => true
  | .tensor [] _ => true
  | .mask [] _ => true
  | _ => false

/-- for an index array: (its number of broadcast dims, the dims it indexes, is it a boolean mask) -/
def advInfo : Ix → Option (Nat × Nat × Bool)
  | .list _ => some (1, 1, false)
  | .range .. => some (1, 1, false)
  | .tensor s _ => some (s.length, 1, false)
  | .mask s _ => some (1, s.length, true)
  | _ => none

/-- an index array met by the loop: `nd` broadcast dims, `consumed` dims indexed, `m`: boolean mask -/
def advStep (nd consumed : Nat) (m : Bool) (st : NamesSt) : NamesSt :=
  let st1 : NamesSt :=
    if st.advPos.isNone then { st with advPos := some st.take.length, advDim := st.count, advIsMask := m }
    else if st.sepAfterAdv then { st with disjoint := true } else st
  { st1 with nAdv := st1.nAdv + 1, advNdim := max st1.advNdim nd, count := st1.count + consumed }

/-- a slice (or an unconverted Ellipsis) met by the loop -/
def sepStep (st : NamesSt) : NamesSt :=
  { st with take := st.take ++ [some st.count], count := st.count + 1, sepAfterAdv := st.advPos.isSome }

/-- one iteration of the loop of `_get_names_idx` (after the fix of the names of advanced-indexed results): index arrays
    are replaced by the dims of their broadcast shape, in place when adjacent, in front when a slice or `None` separates them -/
def namesStep (x : Ix) (st : NamesSt) : NamesSt :=
  match x with
  | .none => { st with take := st.take ++ [none], sepAfterAdv := st.advPos.isSome }
  | x =>
    if isNumber x then { st with count := st.count + 1 }
    else match advInfo x with
      | some (nd, consumed, m) => advStep nd consumed m st
      | none => sepStep st

def namesLoop : List Ix → NamesSt → NamesSt
  | [], st => st
  | x :: r, st => namesLoop r (namesStep x st)

def NamesSt.init : NamesSt :=
  { take := [], count := 0, advPos := none, advDim := 0, advNdim := 0, nAdv := 0, advIsMask := false,
    sepAfterAdv := false, disjoint := false }

/-- after the loop: a single index array keeps the name of the dim it indexes (repeated if it has several dims), a mask or
    several index arrays give unnamed dims; the block goes in front when the index arrays are separated -/
def namesFinish (st : NamesSt) : List (Option Nat) :=
  match st.advPos with
  | none => st.take
  | some p =>
    let block := List.replicate st.advNdim (if st.nAdv = 1 ∧ !st.advIsMask then some st.advDim else none)
    if st.disjoint then block ++ st.take else st.take.take p ++ block ++ st.take.drop p

/-- `names[i] if i is not None else None` -/
def lookOne (names : Names) : Option Nat → Except Err (Option String)
  | none => .ok none
  | some i => match names[i]? with
    | some nm => .ok nm
    | none => .error .index

/-- `[names[i] if i is not None else None for i in idx_to_take]` -/
def lookNames (names : Names) (t : List (Option Nat)) : Except Err Names := t.mapM (lookOne names)

/-- `_get_names_idx`, general branch: `if len([non-None items]) < ndim: idx = (*idx, Ellipsis)` -/
def namesItems (items : List Ix) (bsLen : Nat) : List Ix :=
  if (items.filter (· ≠ Ix.none)).length < bsLen then items ++ [Ix.ell] else items

/-- `_get_names_idx`, general branch: convert the Ellipsis, build `idx_to_take`, look the names up -/
def namesTake (names : Names) (bsLen : Nat) (items : List Ix) : Except Err Names :=
  match convertEllipsis (.tuple (namesItems items bsLen)) bsLen with
  | .error e => .error e
  | .ok conv => lookNames names (namesFinish (namesLoop conv.items NamesSt.init))

/-- mirrors tensordict/base.py:_get_names_idx; `.error` = the lookups `names[i]` ran out of range -/
def namesIdx (names : Option Names) (bsLen : Nat) (idx : PyIndex) : Except Err (Option Names) :=
  match names with
  | none => .ok none
  | some names =>
    let res : Except Err Names :=
      match isBoolean idx with
      | some (k + 1) => .ok (none :: names.drop (k + 1))
      | _ => namesTake names bsLen idx.items
    match res with
    | .error e => .error e
    | .ok l => if l.all (· == none) then .ok none else .ok (some l)

/-! the container -/

/-- a nested tensordict entry: its extra batch dims (beyond the parent's) and the feature shapes of its leaves -/
structure Nested where
  extra : Shape
  leaves : List Shape
  deriving Repr

/-- a tensordict as far as indexing sees it: batch size, dim names, feature shape of every leaf
    (leaf `k` has shape `bs ++ leaves[k]`), nested tensordicts -/
structure TD where
  bs : Shape
  names : Option Names
  leaves : List Shape
  nested : List Nested
  deriving Repr

structure LeafRes where
  res : TorchSpec.IndexResult

inductive GetRes where
  /-- `return self` -/
  | self
  /-- a new tensordict -/
  | new (bs : Shape) (names : Option Names) (leaves : List TorchSpec.IndexResult)
        (nested : List (Shape × List TorchSpec.IndexResult))

/-- `_check_for_invalid_index` of `_index_tensordict` (only acts when the batch size is empty) -/
def checkInvalidIndex (bs : Shape) (idx : PyIndex) : Except Err Unit :=
  if bs ≠ [] then .ok () else
  match idx with
  | .single .none => .ok ()
  | .tuple [.none] => .ok ()
  | .tuple [_] => .error .runtime          -- recursion on index[0]: not None, not a 0-d bool tensor, not a tuple
  | .tuple l => if l.all (· = .none) then .ok () else .error .runtime
  | .single _ => .error .runtime

/-- the leaf call `tensor[index]` (`_get_item`) on a leaf of shape `shape` -/
def leafGet (shape : Shape) (idx : PyIndex) : Except Err TorchSpec.IndexResult :=
  TorchSpec.index shape idx.items

/-- mirrors tensordict/_td.py:TensorDict._index_tensordict -/
def indexTensordict (td : TD) (idx : PyIndex) : Except Err GetRes := do
  checkInvalidIndex td.bs idx
  let bs ← getitemBatchSize td.bs idx
  let names ← namesIdx td.names td.bs.length idx
  let leaves ← td.leaves.mapM (fun feat => leafGet (td.bs ++ feat) idx)
  let nested ← td.nested.mapM (fun nd => do
      -- item._index_tensordict(index, new_batch_size = batch_size + item.batch_size[batch_dims:])
      checkInvalidIndex (td.bs ++ nd.extra) idx
      let ls ← nd.leaves.mapM (fun feat => leafGet (td.bs ++ nd.extra ++ feat) idx)
      pure (bs ++ nd.extra, ls))
  pure (.new bs names leaves nested)

/-- the end of `__getitem__`, once `index` is a tuple without Ellipsis: the dim-count check (fix of §7 row 6),
    the "every item is `:`" shortcut returning `self`, else `_index_tensordict` -/
def getitemTail (td : TD) (idx' : PyIndex) : Except Err GetRes :=
  match checkIndexNdim idx' td.bs.length with
  | .error e => .error e
  | .ok () => if idx'.items.all (· = slAll) then .ok .self else indexTensordict td idx'

/-- mirrors tensordict/base.py:TensorDictBase.__getitem__ (index branch; string keys are not indices) -/
def getitem (td : TD) (idx : PyIndex) : Except Err GetRes :=
  match idx with
  | .tuple [] => .ok .self
  | .single .ell => .ok .self
  | .single (.int i) => indexTensordict td (.single (.int i))
  | .single x => getitemTail td (.tuple [x])      -- index = (index,) ; no ellipsis conversion (istuple is False)
  | .tuple l =>
    match (if l.any (· = .ell) then convertEllipsis (.tuple l) td.bs.length else .ok (.tuple l)) with
    | .error e => .error e
    | .ok idx' => getitemTail td idx'

/-- mirrors tensordict/_td.py:TensorDict.__setitem__ for a scalar / tensor value (the `else` branch:
    `for key in self.keys(): self.set_at_(key, value, index)`), `_set_at_str` → `_set_item` → `tensor[idx] = value`;
    a nested tensordict entry receives `nested[idx] = value`, i.e. the same loop over its own leaves.
    `v` = shape of the value ([] for a scalar). One write map per leaf, nested leaves after the direct ones. -/
def setitem (td : TD) (idx : PyIndex) (v : Shape) : Except Err (List (List Nat → Option (List Nat))) := do
  let idx' ← (match idx with
    | .single .ell => convertEllipsis idx td.bs.length
    | .single _ => .ok idx
    | .tuple l => if l.any (· = .ell) then convertEllipsis idx td.bs.length else .ok idx)
  checkIndexNdim idx' td.bs.length
  let direct ← td.leaves.mapM (fun feat => TorchSpec.setIndex (td.bs ++ feat) idx'.items v)
  let nested ← td.nested.mapM (fun nd =>
      nd.leaves.mapM (fun feat => TorchSpec.setIndex (td.bs ++ nd.extra ++ feat) idx'.items v))
  pure (direct ++ nested.flatten)

/-- one entry of a collection value: where it goes (index of the destination leaf, or `none` for a key missing
    from the destination) and its full shape -/
structure VEntry where
  target : Option Nat
  shape : Shape
  deriving Repr

def hasPrefix (p s : Shape) : Bool := s.take p.length == p

/-- what one entry of the value did: the shape of the destination leaf (for a new key: the freshly created zero
    leaf) and, per destination position, the coordinate *in the original value entry* written there -/
structure EntryWrite where
  target : Option Nat
  leafShape : Shape
  written : List Nat → Option (List Nat)

/-- the batch handling of `__setitem__` for a collection value, given `indexed_bs`: which shape every entry has when it
    reaches torch and how many leading coordinates of it (`k`) do not exist in the original entry.
    * a dict goes through `from_dict_instance(value, batch_size=indexed_bs)`: every entry must start with `indexed_bs`;
    * `value.batch_size == indexed_bs`: nothing to do;
    * `value.shape == indexed_bs[-len(value.shape):]` (`-0:` is everything): `value.expand(indexed_bs)`;
    * otherwise `value.batch_size = indexed_bs`, which fails unless every entry starts with `indexed_bs`. -/
def collPlan (isDict : Bool) (vb ibs : Shape) (entries : List VEntry) : Except Err (Nat × List Shape) :=
  match (if isDict then (if entries.all (fun e => hasPrefix ibs e.shape) then .ok ibs else .error .runtime) else .ok vb
      : Except Err Shape) with
  | .error e => .error e
  | .ok vb =>
    if vb = ibs then .ok (0, entries.map (·.shape))
    else if vb = (if vb.length = 0 then ibs else ibs.drop (ibs.length - vb.length)) then
      .ok (ibs.length - vb.length, entries.map (fun e => ibs ++ e.shape.drop vb.length))
    else if entries.all (fun e => hasPrefix ibs e.shape) then .ok (0, entries.map (·.shape))
    else .error .runtime

/-- one key of the value: `_set_at_str` (→ `tensor[idx] = item`) on the destination leaf; for a key missing from the
    destination `_SubTensorDict.set`: `_validate_value(check_shape)` (the item must start with the sub-tensordict's batch
    size), a zero leaf `batch_size ++ item.shape[len(indexed_bs):]` is created and written at `idx`.
    `sh`: shape of the item when it reaches torch, `k`: leading coordinates added by `expand`. -/
def entryWriteK (td : TD) (ibs : Shape) (items : List Ix) (k : Nat) (e : VEntry) (sh : Shape) : Except Err EntryWrite := do
  let leafShape ← (match e.target with
    | some j => match td.leaves[j]? with
      | some feat => .ok (td.bs ++ feat)
      | none => .error .runtime
    | none => if hasPrefix ibs sh then .ok (td.bs ++ sh.drop ibs.length) else .error .runtime)
  let w ← TorchSpec.setIndex leafShape items sh
  pure { target := e.target, leafShape := leafShape, written := fun c => (w c).map (·.drop k) }

/-- mirrors tensordict/_td.py:TensorDict.__setitem__ for a dict / TensorDict value (the first branch): Ellipsis conversion,
    dim-count check, `indexed_bs = _getitem_batch_size(...)`, the batch handling (`collPlan`), then one `entryWriteK` per key
    in the order of `value.items()`. `isDict`: the value is a plain dict, `vb`: batch size of a TensorDict value. -/
def setitemColl (td : TD) (idx : PyIndex) (isDict : Bool) (vb : Shape) (entries : List VEntry) :
    Except Err (List EntryWrite) := do
  let idx' ← (match idx with
    | .single .ell => convertEllipsis idx td.bs.length
    | .single _ => .ok idx
    | .tuple l => if l.any (· = .ell) then convertEllipsis idx td.bs.length else .ok idx)
  checkIndexNdim idx' td.bs.length
  let ibs ← getitemBatchSize td.bs idx'
  let (k, shapes) ← collPlan isDict vb ibs entries
  (entries.zip shapes).mapM (fun (e, sh) => entryWriteK td ibs idx'.items k e sh)

/-- the `j`-th nested tensordict seen as a tensordict of its own (batch `bs ++ extra`) -/
def TD.nestedAsTd (td : TD) (j : Nat) : Option TD :=
  (td.nested[j]?).map (fun nd => { bs := td.bs ++ nd.extra, names := none, leaves := nd.leaves, nested := [] })

/-- forget the `k` leading coordinates `expand` added to the items -/
def dropWritten (k : Nat) (ws : List EntryWrite) : List EntryWrite :=
  ws.map (fun w => { w with written := fun c => (w.written c).map (·.drop k) })

/-- the leaves of the child after the batch handling: `expand` (k > 0) expands them too -/
def childEntries (k : Nat) (vb ibs : Shape) (entries : List VEntry) : List VEntry :=
  if k = 0 then entries else entries.map (fun e => { e with shape := ibs ++ e.shape.drop vb.length })

/-- what the batch handling of `__setitem__` does to a nested child (batch `vb ++ cbx`, leaves `entries`) of the value:
    nothing when the batches agree; `expand` expands the child too; `value.batch_size = indexed_bs`
    (`_check_new_batch_size` / `_batch_size_setter_checked`) gives a child with FEWER batch dims the new batch size, provided
    its own leaves start with it, and otherwise requires the child's batch to start with the new batch size -/
def childBatch (vb ibs cbx : Shape) (entries : List VEntry) : Except Err (Nat × Shape) :=
  if vb = ibs then .ok (0, vb ++ cbx)
  else if vb = (if vb.length = 0 then ibs else ibs.drop (ibs.length - vb.length)) then .ok (ibs.length - vb.length, ibs ++ cbx)
  else if (vb ++ cbx).length < ibs.length then
    (if entries.all (fun e => hasPrefix ibs e.shape) then .ok (0, ibs) else .error .runtime)
  else if hasPrefix ibs (vb ++ cbx) then .ok (0, vb ++ cbx) else .error .runtime

/-- `td[idx] = value` where `value` is a TensorDict (batch `vb`) holding ONE nested tensordict under the key of the `j`-th nested
    entry of `td`; the child has batch `vb ++ cbx` and the entries `entries` (targets: leaves of the nested entry).
    `__setitem__` handles the batch of `value` (`childBatch`: `expand` and the batch-size assignment act on children too), then `_set_at_str(key, child, idx)` → `_set_item` → `nested[idx] = child`:
    the same `__setitem__` on the nested tensordict, with the already converted index. -/
def setitemCollNested (td : TD) (idx : PyIndex) (vb : Shape) (j : Nat) (cbx : Shape) (entries : List VEntry) :
    Except Err (List EntryWrite) := do
  let idx' ← (match idx with
    | .single .ell => convertEllipsis idx td.bs.length
    | .single _ => .ok idx
    | .tuple l => if l.any (· = .ell) then convertEllipsis idx td.bs.length else .ok idx)
  checkIndexNdim idx' td.bs.length
  let ibs ← getitemBatchSize td.bs idx'
  let (k, cb) ← childBatch vb ibs cbx entries     -- cb: batch of the child when it reaches the nested tensordict
  -- `value.expand(indexed_bs)` expands the leaves of the child as well (k > 0: k leading coordinates are new)
  let entries' := childEntries k vb ibs entries
  match td.nestedAsTd j with
  | none => .error .runtime
  | some ntd =>
    (setitemColl ntd idx' false cb entries').map (dropWritten k)

/-! `_SubTensorDict`: a tensordict that only sees an index of the entries of its source -/

/-- a `_SubTensorDict` after `__init__`: the normalised index and the batch size -/
structure Sub where
  idx : PyIndex
  bs : Shape
  deriving Repr

/-- mirrors tensordict/_td.py:_SubTensorDict.__init__: a non-tuple index (a list too) is wrapped in a tuple, an Ellipsis is
    converted, the batch size comes from `_getitem_batch_size` (no dim-count check here: `__setitem__` did it before) -/
def subInit (td : TD) (idx : PyIndex) : Except Err Sub := do
  let items := idx.items
  let idx' ← (if items.any (· = .ell) then convertEllipsis (.tuple items) td.bs.length else .ok (.tuple items))
  let bs ← getitemBatchSize td.bs idx'
  pure { idx := idx', bs := bs }

/-- mirrors `_SubTensorDict._get_str` → `source._get_at_str(key, idx)` → `source[key][idx]` for the `j`-th leaf -/
def subGet (td : TD) (sub : Sub) (j : Nat) : Except Err TorchSpec.IndexResult :=
  match td.leaves[j]? with
  | some feat => leafGet (td.bs ++ feat) sub.idx
  | none => .error .runtime

/-- `_SubTensorDict.names`: `source._get_names_idx(idx)` -/
def subNames (td : TD) (sub : Sub) : Except Err (Option Names) := namesIdx td.names td.bs.length sub.idx

/-- mirrors `_SubTensorDict.set_(key, value)` (existing key, `target = some j`) and `.set(key, value)` for a key missing from
    the source (`target = none`): `_validate_value(check_shape=True)` — the value must start with the sub-tensordict's batch
    size (no check when that is empty) — then `source[key][idx] = value`, on a fresh zero entry
    `source.batch_size ++ value.shape[len(batch_size):]` for a new key -/
def subSet (td : TD) (sub : Sub) (target : Option Nat) (sh : Shape) : Except Err EntryWrite :=
  if sub.bs ≠ [] ∧ !hasPrefix sub.bs sh then .error .runtime
  else entryWriteK td sub.bs sub.idx.items 0 { target := target, shape := sh } sh

/-! sub-tensordicts of sub-tensordicts: `inner = td._get_sub_tensordict(idx1)._get_sub_tensordict(idx2)` -/

/-- the write-back of `_SubTensorDict._set_at_str`: the window `source[key][idx]` (selection `R`) has been modified according to
    `w` and is assigned back, `source[key][idx] = window`. A position of the source takes the content of the LAST window cell
    that maps to it; a cell that was not written still holds the source element it was read from. Whether the window was a
    view of the source or a copy plays no role. -/
def writeThrough (R : TorchSpec.IndexResult) (w : List Nat → Option (List Nat)) : List Nat → Option (List Nat) :=
  fun p => ((coords R.shape).reverse.find? (fun q => R.src q == p)).bind w

/-- `inner.get(key)`: `outer._get_at_str(key, idx2)` = `source[key][idx1][idx2]` -/
def subsubGet (td : TD) (o i : Sub) (j : Nat) : Except Err TorchSpec.IndexResult :=
  match td.leaves[j]? with
  | none => .error .runtime
  | some feat => do
    let R1 ← leafGet (td.bs ++ feat) o.idx
    let R2 ← TorchSpec.index R1.shape i.idx.items
    pure { shape := R2.shape, src := fun c => R1.src (R2.src c), view := R1.view && R2.view }

/-- mirrors `inner[idx3] = value` (scalar / tensor of shape `v`) for `inner = td._get_sub_tensordict(idx1)._get_sub_tensordict(idx2)`:
    `TensorDict.__setitem__` on the inner sub-tensordict (Ellipsis conversion and dim check against ITS batch size), then per key
    `_SubTensorDict._set_at_str`: read the window through the source chain, `window[idx3] = value`, and write the window back
    level by level (`outer._set_at_str(key, window, idx2)`, `td._set_at_str(key, window', idx1)`).
    One write map per leaf of the ROOT. -/
def subsubSet (td : TD) (idx1 idx2 idx3 : PyIndex) (v : Shape) : Except Err (List (List Nat → Option (List Nat))) := do
  let o ← subInit td idx1
  let i ← subInit { td with bs := o.bs } idx2
  let idx3' ← (match idx3 with
    | .single .ell => convertEllipsis idx3 i.bs.length
    | .single _ => .ok idx3
    | .tuple l => if l.any (· = .ell) then convertEllipsis idx3 i.bs.length else .ok idx3)
  checkIndexNdim idx3' i.bs.length
  td.leaves.mapM (fun feat => do
    let R1 ← leafGet (td.bs ++ feat) o.idx
    let R2 ← TorchSpec.index R1.shape i.idx.items
    let w3 ← TorchSpec.setIndex R2.shape idx3'.items v
    pure (writeThrough R1 (writeThrough R2 w3)))

/-- mirrors `td.set_at_(key, value, (i1, i2))` with a nested-tuple index ("multiple indexing"): `TensorDict._set_at_str` takes the
    `_sub_index` branch — `entry[i1][i2][()]` — and `copy_`s the value into that tensor (broadcast as `copy_` does: no extra leading
    dims). The entry changes only if both selections are views; otherwise the copy goes into a temporary and is lost (the
    documented warning of that branch). -/
def setAtMulti (shape : Shape) (i1 i2 : List Ix) (v : Shape) : Except Err (List Nat → Option (List Nat)) := do
  let R1 ← TorchSpec.index shape i1
  let R2 ← TorchSpec.index R1.shape i2
  if !(decide (v.length ≤ R2.shape.length) && TorchSpec.valueOk v R2.shape) then .error .runtime
  else if R1.view && R2.view then
    pure (writeThrough R1 (writeThrough R2 (fun r => some (TorchSpec.valueCoord v R2.shape r))))
  else pure (fun _ => none)

end Td
end TdVerif.C03
