/-
  C19 — the concrete operations the program generator of harness/c19_programs.py uses inside the
  vmapped function, as `TOp`s (metadata transformer + per-sample leaves transformer).  Each mirrors
  the tensordict operation named in its comment acting on a tensordict whose leaves are
  `batch ++ feature`-shaped coordinate maps (the batch-dimension semantics are those of C02; here
  they only serve to have *some* non-trivial programs on both sides — the C19 theorems hold for
  arbitrary `TOp`s).
-/
import TdVerif.Model.C19Vmap

namespace TdVerif.C19

def mapLeaves (f : T → T) : Leaves → Leaves := List.map (fun p => (p.1, f p.2))

def ewise (f : Int → Int) (t : T) : T := ⟨t.shape, fun c => f (t.get c)⟩

/-- `td * 2`, `td + 1`, `-td` -/
def opEwise (f : Int → Int) : TOp := ⟨id, fun _ n => n, fun _ => mapLeaves (ewise f)⟩

/-- `td.unsqueeze(d)` -/
def opUnsqueeze (d : Nat) : TOp :=
  ⟨fun b => b.insertIdx d 1, fun _ n => n.insertIdx d none,
   fun _ => mapLeaves (fun t => ⟨t.shape.insertIdx d 1, fun c => t.get (c.eraseIdx d)⟩)⟩

/-- `td.permute(*reversed(range(td.batch_dims)))` -/
def opPermuteRev : TOp :=
  ⟨List.reverse, fun _ n => n.reverse,
   fun b => mapLeaves (fun t => ⟨(t.shape.take b.length).reverse ++ t.shape.drop b.length,
                                 fun c => t.get ((c.take b.length).reverse ++ c.drop b.length)⟩)⟩

def swap01 {α} : List α → List α
  | a :: b :: r => b :: a :: r
  | l => l

/-- `td.transpose(0, 1)` -/
def opTranspose01 : TOp :=
  ⟨swap01, fun _ n => swap01 n, fun _ => mapLeaves (fun t => ⟨swap01 t.shape, fun c => t.get (swap01 c)⟩)⟩

/-- `td[0]` -/
def opIdx0 : TOp := ⟨List.tail, fun _ n => n.tail, fun _ => mapLeaves (fun t => select t 0 0)⟩

/-- `td.expand(2, *td.batch_size)` -/
def opExpand2 : TOp :=
  ⟨fun b => 2 :: b, fun _ n => none :: n, fun _ => mapLeaves (fun t => ⟨2 :: t.shape, fun c => t.get c.tail⟩)⟩

/-- `torch.stack([td, td], 0)`: values as `expand2`; the dimension names are kept, `None` for the new dimension
(tensordict/_torch_func.py:_stack after the repair "dense torch.stack of named tensordicts dropped the dim names") -/
def opStackSelf : TOp :=
  ⟨fun b => 2 :: b, fun _ n => none :: n, fun _ => mapLeaves (fun t => ⟨2 :: t.shape, fun c => t.get c.tail⟩)⟩

/-- `td.sum(0)` -/
def opSum0 : TOp :=
  ⟨List.tail, fun _ n => n.tail,
   fun _ => mapLeaves (fun t => ⟨t.shape.tail, fun c => ((List.range (t.shape.headD 0)).map (fun k => t.get (k :: c))).foldl (· + ·) 0⟩)⟩

/-- `torch.cat([td, td], 0)` -/
def opCatSelf : TOp :=
  ⟨fun b => match b with | n :: r => (2 * n) :: r | [] => [],
   fun _ n => n,
   fun _ => mapLeaves (fun t => ⟨match t.shape with | n :: r => (2 * n) :: r | [] => [],
                                 fun c => match c with | k :: r => t.get ((k % t.shape.headD 1) :: r) | [] => t.get []⟩)⟩

/-- `td.select(name)` / `td.exclude(name)` -/
def opSelect (name : String) : TOp := ⟨id, fun _ n => n, fun _ l => l.filter (fun p => p.1 == name)⟩
def opExclude (name : String) : TOp := ⟨id, fun _ n => n, fun _ l => l.filter (fun p => p.1 != name)⟩

/-- `td.set(dst, td[src] * 3)` -/
def opSetMul3 (src dst : String) : TOp :=
  ⟨id, fun _ n => n, fun _ l => match l.lookup src with
    | some t => (l.filter (fun p => p.1 != dst)) ++ [(dst, ewise (· * 3) t)]
    | none => l⟩

/-- `td.rename_key_(src, dst)` -/
def opRename (src dst : String) : TOp :=
  ⟨id, fun _ n => n, fun _ l => l.map (fun p => if p.1 == src then (dst, p.2) else p)⟩

/-- `a.apply(lambda x, y: x + y, b)`: leaves paired by key, metadata of `a` -/
def opAdd2 : TOp2 :=
  ⟨fun ba _ => ba, fun _ _ na _ => na,
   fun _ _ la lb => la.map (fun p => match lb.lookup p.1 with
     | some u => (p.1, ⟨p.2.shape, fun c => p.2.get c + u.get c⟩)
     | none => p)⟩

/-- `td.set("c", const)` with a value that does not depend on the vmapped input (`const = arange(100000, …)` of
shape batch + [2]): every sample receives the whole value -/
def opSetConst : TOp :=
  ⟨id, fun _ n => n, fun b l => (l.filter (fun p => p.1 != "c")) ++ [("c", arangeT 100000 (b ++ [2]))]⟩

/-- `torch.nn.functional.linear(x, w, bias)` on coordinate maps, with `nb` leading (per-sample) batch dims:
`w : c ++ [nout, nin]`, `bias : c ++ [nout]`, `x : c ++ [nin]`  ↦  `y : c ++ [nout]` -/
def linearT (nb : Nat) (w bias x : T) : T :=
  ⟨bias.shape, fun c =>
    ((List.range (x.shape.getD nb 0)).map (fun k => w.get (c ++ [k]) * x.get (c.take nb ++ [k]))).foldl (· + ·) 0 + bias.get c⟩

/-- a functional module call `with params.to_module(net): net(x)` for `net = torch.nn.Linear(nin, nout)`
(tensordict/base.py:to_module swaps the entries of `params` into the module for the duration of the call, so the
call computes with exactly these tensors).  `a` = the parameter tensordict {weight, bias}, `b` = {x} -/
def opLinear : TOp2 :=
  ⟨fun ba _ => ba, fun _ _ na _ => na,
   fun ba _ la lb =>
     match la.lookup "weight", la.lookup "bias", lb.lookup "x" with
     | some w, some bias, some x => [("y", linearT ba.length w bias x)]
     | _, _, _ => []⟩

/-- the same for `net = torch.nn.Sequential(Linear(nin, h), Linear(h, nout))`: the parameter tensordict is NESTED
({"0": {weight, bias}, "1": {weight, bias}}, flat names "0.weight" …); every nested node shares the vmapped dim -/
def opSeq2 : TOp2 :=
  ⟨fun ba _ => ba, fun _ _ na _ => na,
   fun ba _ la lb =>
     match la.lookup "0.weight", la.lookup "0.bias", la.lookup "1.weight", la.lookup "1.bias", lb.lookup "x" with
     | some w0, some b0, some w1, some b1, some x => [("y", linearT ba.length w1 b1 (linearT ba.length w0 b0 x))]
     | _, _, _, _, _ => []⟩

/-- is the operation applicable to a tensordict of this batch size / these keys (else the real call raises) -/
inductive OpName where
  | mul2 | add1 | neg | unsqueeze (d : Nat) | permuteRev | transpose01 | idx0 | expand2 | stackSelf | sum0 | catSelf
  | select (k : String) | exclude (k : String) | setMul3 (s d : String) | rename (s d : String) | flattenKeys | clone
  | setConst | deepen
  | vmap (i o : Int) (p : List OpName)

def OpName.simpleOp : OpName → Option TOp
  | .mul2 => some (opEwise (· * 2)) | .add1 => some (opEwise (· + 1)) | .neg => some (opEwise (fun x => -x))
  | .unsqueeze d => some (opUnsqueeze d) | .permuteRev => some opPermuteRev | .transpose01 => some opTranspose01
  | .idx0 => some opIdx0 | .expand2 => some opExpand2 | .stackSelf => some opStackSelf | .sum0 => some opSum0
  | .catSelf => some opCatSelf | .select k => some (opSelect k) | .exclude k => some (opExclude k)
  | .setMul3 s d => some (opSetMul3 s d) | .rename s d => some (opRename s d)
  | .flattenKeys => some (opEwise id) | .clone => some (opEwise id)
  | .setConst => some opSetConst
  | .deepen => some (opEwise id)   -- re-declares the nested node `n` with batch size batch ++ [1]: no leaf changes
  | .vmap .. => none

/-- applicability of a simple operation on a per-sample batch size -/
def OpName.okOn (b : Shape) : OpName → Bool
  | .unsqueeze d => d ≤ b.length
  | .transpose01 => 2 ≤ b.length
  | .idx0 => match b with | n :: _ => 0 < n | [] => false
  | .sum0 => 1 ≤ b.length
  | .catSelf => 1 ≤ b.length
  | _ => true

/-- the functions Model/C19Vmap.lean and C19Lazy.lean transcribe, with the shape (sha1 of the normalised ast) they had
when they were transcribed — to be updated together with the model -/
def expectedShapes : List (String × String) := [
  ("tensordict/_td.py:TensorDict._add_batch_dim", "748fb499dcd7b5c4"),
  ("tensordict/_td.py:TensorDict._remove_batch_dim", "f3a1b37039fe6d7a"),
  ("tensordict/_td.py:TensorDict._maybe_remove_batch_dim", "6c58d6406fc796a4"),
  ("tensordict/_lazy.py:LazyStackedTensorDict._add_batch_dim", "0db99c84eebb2bde"),
  ("tensordict/_lazy.py:LazyStackedTensorDict._cached_add_batch_dims", "d6703e473f913976"),
  ("tensordict/_lazy.py:LazyStackedTensorDict._remove_batch_dim", "05d560da2d86573d"),
  ("tensordict/_lazy.py:LazyStackedTensorDict._maybe_remove_batch_dim", "a84a861622944643"),
  ("tensordict/nn/functional_modules.py:_process_batched_inputs", "f527a47a708d6c5e"),
  ("tensordict/nn/functional_modules.py:_create_batched_inputs", "439f6ee4e0729e5f"),
  ("tensordict/nn/functional_modules.py:_unwrap_batched", "594212d7481443a3")
]

end TdVerif.C19
