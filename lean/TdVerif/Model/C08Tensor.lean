/-
  C08 — functional ("coordinate map") tensors: the SPEC side of the lazy-stack property.

  A tensor is a shape and a total function from coordinates to values; only in-bounds
  coordinates (`InB`) are meaningful.  Every torch operation the lazy stack relies on is a
  coordinate map (DESIGN §2 F2).  These definitions are *our rendering of torch*; the harness
  validates them against torch itself on every run (stream `spec_vs_torch`).

  No Mathlib, no `partial`, total functions only.
-/
namespace TdVerif.C08

abbrev Shape := List Nat

structure T (α : Type) where
  shape : Shape
  get : List Nat → α

instance [Inhabited α] : Inhabited (T α) := ⟨⟨[], fun _ => default⟩⟩

/-- coordinate `c` is inside `sh`: same length, componentwise smaller -/
def InB : List Nat → Shape → Prop
  | [], [] => True
  | c :: cs, d :: ds => c < d ∧ InB cs ds
  | _, _ => False

instance : (c : List Nat) → (s : Shape) → Decidable (InB c s)
  | [], [] => isTrue trivial
  | c :: cs, d :: ds =>
    have := instDecidableInB cs ds
    if h : c < d ∧ InB cs ds then isTrue h else isFalse h
  | [], _ :: _ => isFalse (by simp [InB])
  | _ :: _, [] => isFalse (by simp [InB])

/-- extensional equality on the meaningful part -/
def T.Eqv (a b : T α) : Prop := a.shape = b.shape ∧ ∀ c, InB c a.shape → a.get c = b.get c

infix:50 " ≈ₜ " => T.Eqv

/-- i-th coordinate with the harmless default 0 -/
abbrev at0 (c : List Nat) (i : Nat) : Nat := c[i]?.getD 0

/-! ### torch.stack / select / unbind -/

/-- `torch.stack(ms, sd)`: shape of the first member with `len ms` inserted at `sd`;
element at `c` is element `c` minus position `sd` of member `c[sd]`. -/
def T.stack [Inhabited α] (ms : List (T α)) (sd : Nat) : T α where
  shape := ((ms.head?.map T.shape).getD []).insertIdx sd ms.length
  get c := (ms[at0 c sd]?.getD default).get (c.eraseIdx sd)

/-- `t.select(d, i)` (= `t[:, …, i]` with `d` leading full slices) -/
def T.select (t : T α) (d i : Nat) : T α where
  shape := t.shape.eraseIdx d
  get c := t.get (c.insertIdx d i)

/-- `t.unbind(d)` -/
def T.unbind (t : T α) (d : Nat) : List (T α) :=
  (List.range (t.shape[d]?.getD 0)).map (fun i => t.select d i)

/-! ### shape operations (coordinate maps) -/

/-- `t.unsqueeze(d)` -/
def T.unsqueeze (t : T α) (d : Nat) : T α where
  shape := t.shape.insertIdx d 1
  get c := t.get (c.eraseIdx d)

/-- `t.squeeze(d)` when `shape[d] = 1` (callers check) -/
def T.squeezeAt (t : T α) (d : Nat) : T α where
  shape := t.shape.eraseIdx d
  get c := t.get (c.insertIdx d 0)

/-- `t.permute(p)`: output dim `i` is input dim `p[i]`.  The input coordinate is rebuilt by
placing `c[i]` at position `p[i]`; `scatter` does that for a whole list. -/
def scatterCoord (p : List Nat) (c : List Nat) (rank : Nat) : List Nat :=
  (List.range rank).map (fun j => at0 c (p.idxOf j))

def T.permute (t : T α) (p : List Nat) : T α where
  shape := p.map (fun j => t.shape[j]?.getD 0)
  get c := t.get (scatterCoord p c t.shape.length)

/-- swap positions `a` and `b` of a list (total) -/
def swapAt {β} [Inhabited β] (l : List β) (a b : Nat) : List β :=
  (l.set a (l[b]?.getD default)).set b (l[a]?.getD default)

/-- `t.transpose(a, b)` -/
def T.transpose (t : T α) (a b : Nat) : T α where
  shape := swapAt t.shape a b
  get c := t.get (swapAt c a b)

/-- `torch.cat([a, b], d)`: positions below `a.shape[d]` read `a`, the others read `b` shifted -/
def T.cat2 (a b : T α) (d : Nat) : T α where
  shape := a.shape.set d (at0 a.shape d + at0 b.shape d)
  get c := if at0 c d < at0 a.shape d then a.get c else b.get (c.set d (at0 c d - at0 a.shape d))

/-- `torch.cat(ts, d)` for a non-empty list -/
def T.catList [Inhabited α] : List (T α) → Nat → T α
  | [], _ => default
  | [a], _ => a
  | a :: b :: r, d => T.cat2 a (T.catList (b :: r) d) d

/-! ### row-major enumeration (what the driver prints) -/

def allCoords : Shape → List (List Nat)
  | [] => [[]]
  | d :: ds => (List.range d).flatMap (fun i => (allCoords ds).map (i :: ·))

def T.toList (t : T α) : List α := (allCoords t.shape).map t.get

def numel (s : Shape) : Nat := s.foldl (· * ·) 1

/-- row-major flat offset of `c` in `sh` -/
def ravel : Shape → List Nat → Nat
  | [], _ => 0
  | _ :: _, [] => 0
  | _ :: ds, c :: cs => c * numel ds + ravel ds cs

/-- the provenance tensor used by the correspondence: `base + arange(numel).reshape(shape)` -/
def T.arange (base : Int) (sh : Shape) : T Int where
  shape := sh
  get c := base + (ravel sh c : Nat)

/-- inverse of `ravel`: coordinate of flat offset `k` -/
def unravel : Shape → Nat → List Nat
  | [], _ => []
  | _ :: ds, k => (k / numel ds) :: unravel ds (k % numel ds)

/-- tensor from a flat row-major list of values -/
def T.ofList [Inhabited α] (sh : Shape) (vals : List α) : T α where
  shape := sh
  get c := vals[ravel sh c]?.getD default

end TdVerif.C08
