/-
  C04 — a tensordict as a nested, insertion-ordered, string-keyed mapping.

  `Entry`            the state: a leaf (tensor / non-tensor, identified by a number) or a node holding an
                     insertion-ordered association list (= the per-node storage dict `_tensordict`).
  section Dict       the three Python-dict primitives the library uses on `_tensordict`.
  section Spec       the reference nested-dict semantics (`lookup`, `insert`, `remove`, …): what a plain
                     nested `dict` does. The property theorems relate the transcribed code to these.
  section Code       transcriptions of the library's algorithms (each cites file:function). They thread
                     the state explicitly, so the partial effects of a call that raises are visible.

  Domain of the model (stated in the harness and the report): entries are tensors, NonTensorData and
  TensorDict nodes; keys handed to an operation never run *through* a NonTensorData (the library then
  reaches inside the NonTensorData object; recorded as a known finding, not modelled).
-/
namespace TdVerif.C04

inductive Entry where
  | leaf (nt : Bool) (v : Nat)
  | node (kids : List (String × Entry))
  deriving Repr, Inhabited

abbrev Kids := List (String × Entry)
abbrev Path := List String

/-- error classes (what the harness maps exceptions to) -/
inductive Err where
  | key | value | attr | type | index | runtime
  deriving Repr, DecidableEq, Inhabited

/-! ## Dict: the primitives of the storage dict -/

/-- `d.get(k)` -/
def dget (k : String) : Kids → Option Entry
  | [] => none
  | (k', v) :: r => if k' = k then some v else dget k r

/-- `d[k] = v`: replaces in place when the key exists, appends otherwise -/
def dset (k : String) (v : Entry) : Kids → Kids
  | [] => [(k, v)]
  | (k', v') :: r => if k' = k then (k, v) :: r else (k', v') :: dset k v r

/-- `del d[k]` / `d.pop(k, None)` (first binding; bindings are unique in a real dict) -/
def ddel (k : String) : Kids → Kids
  | [] => []
  | (k', v') :: r => if k' = k then r else (k', v') :: ddel k r

def Entry.isNode : Entry → Bool
  | .node _ => true
  | .leaf .. => false

/-- `_is_leaf_nontensor` (base.py) when `ntLeaf`, `_default_is_leaf` otherwise, on the class of an entry -/
def Entry.isLeafFor (ntLeaf : Bool) : Entry → Bool
  | .leaf false _ => true
  | .leaf true _ => ntLeaf
  | .node _ => false

/-! ## Spec: the plain nested dict -/

/-- `d[p0][p1]…` — `none` when the path is absent or runs through a leaf; `lookup [] t = some t` -/
def lookup : Path → Entry → Option Entry
  | [], t => some t
  | k :: rest, .node kids =>
    match dget k kids with
    | some c => lookup rest c
    | none => none
  | _ :: _, .leaf .. => none

/-- membership of a (non-empty) path -/
def has (p : Path) (t : Entry) : Bool := p ≠ [] && (lookup p t).isSome

/-- `d[p0]…[pn] = v`, creating the missing intermediate dicts; `none` when the path runs through a leaf -/
def insert : Path → Entry → Entry → Option Entry
  | [], _, _ => none
  | [k], v, .node kids => some (.node (dset k v kids))
  | k :: k2 :: rest, v, .node kids =>
    match dget k kids with
    | none => (insert (k2 :: rest) v (.node [])).map fun c => .node (dset k c kids)
    | some (.node sub) => (insert (k2 :: rest) v (.node sub)).map fun c => .node (dset k c kids)
    | some (.leaf ..) => none
  | _ :: _, _, .leaf .. => none

/-- `del d[p0]…[pn]`; `none` when the entry does not exist -/
def remove : Path → Entry → Option Entry
  | [], _ => none
  | [k], .node kids => if (dget k kids).isSome then some (.node (ddel k kids)) else none
  | k :: k2 :: rest, .node kids =>
    match dget k kids with
    | some c => (remove (k2 :: rest) c).map fun c' => .node (dset k c' kids)
    | none => none
  | _ :: _, .leaf .. => none

/-- a proper prefix of the path is bound to a leaf (the path "runs through a leaf") -/
def throughLeaf : Path → Entry → Bool
  | [], _ => false
  | _ :: _, .leaf .. => true
  | [_], .node _ => false
  | k :: k2 :: rest, .node kids =>
    match dget k kids with
    | some c => throughLeaf (k2 :: rest) c
    | none => false

/-- a proper prefix of the path is bound to a NonTensorData leaf (such keys are outside the model) -/
def throughNt : Path → Entry → Bool
  | [], _ => false
  | _ :: _, .leaf nt _ => nt
  | [_], .node _ => false
  | k :: k2 :: rest, .node kids =>
    match dget k kids with
    | some c => throughNt (k2 :: rest) c
    | none => false

/-- well-formed state: keys are unique in every node (what a Python dict guarantees) -/
inductive WF : Entry → Prop where
  | leaf (nt : Bool) (v : Nat) : WF (.leaf nt v)
  | node (kids : List (String × Entry)) : (kids.map (·.1)).Nodup → (∀ k v, (k, v) ∈ kids → WF v) → WF (.node kids)

/-- `p` is a prefix of `q` -/
def isPrefix : Path → Path → Bool
  | [], _ => true
  | _ :: _, [] => false
  | a :: p, b :: q => a == b && isPrefix p q

/-! ## Code: transcriptions -/

/-- mirrors tensordict/_td.py:TensorDict._get_tuple (+ base.py:get for the empty key).
`.ok none` = the default was returned. A key running through a *tensor* raises ValueError
(`AttributeError: 'Tensor' object has no attribute '_get_tuple'` is converted). -/
def getTuple : Path → Entry → Except Err (Option Entry)
  | [], _ => .error .key
  | [k], .node kids => .ok (dget k kids)
  | k :: k2 :: rest, .node kids =>
    match dget k kids with
    | none => .ok none
    | some (.node sub) => getTuple (k2 :: rest) (.node sub)
    | some (.leaf false _) => .error .value
    | some (.leaf true _) => .ok none          -- (outside the modelled domain: looks inside the NonTensorData)
  | _ :: _, .leaf .. => .error .attr

/-- mirrors tensordict/_td.py:TensorDict._set_tuple/_set_str(inplace=False, validated value)
and base.py:_create_nested_str for the auto-created intermediate nodes -/
def setTuple : Path → Entry → Entry → Except Err Entry
  | [], _, _ => .error .index
  | [k], v, .node kids => .ok (.node (dset k v kids))
  | k :: k2 :: rest, v, .node kids =>
    match dget k kids with
    | none => (setTuple (k2 :: rest) v (.node [])).map fun c => .node (dset k c kids)
    | some (.node sub) => (setTuple (k2 :: rest) v (.node sub)).map fun c => .node (dset k c kids)
    | some (.leaf ..) => .error .key             -- "The entry k is already present"
  | _ :: _, _, .leaf .. => .error .attr

/-- mirrors tensordict/_td.py:TensorDict.del_ + utils.py:_get_leaf_tensordict -/
def delTuple : Path → Entry → Except Err Entry
  | [], _ => .error .index
  | [k], .node kids => if (dget k kids).isSome then .ok (.node (ddel k kids)) else .error .key
  | k :: k2 :: rest, .node kids =>
    match dget k kids with
    | none => .error .key
    | some c => (delTuple (k2 :: rest) c).map fun c' => .node (dset k c' kids)
  | _ :: _, .leaf false _ => .error .attr         -- 'Tensor' object has no attribute 'get' / 'del_'
  | _ :: _, .leaf true _ => .error .key

/-- mirrors tensordict/_td.py:_TensorDictKeysView.__contains__ with include_nested=True (as used by
`key in td`, `key in td.keys(True)`, rename_key_(safe=True), setdefault). -/
def containsNested : Path → Entry → Except Err Bool
  | [], _ => .error .type
  | [k], .node kids => .ok (dget k kids).isSome
  | k :: k2 :: rest, .node kids =>
    match dget k kids with
    | some (.node sub) =>
      match rest with
      | [] => .ok (dget k2 sub).isSome
      | _ :: _ =>
        -- leaf_td = item_root._get_tuple(key[1:-1], None); ValueError (through a tensor) ⇒ False
        match getTuple ((k2 :: rest).dropLast) (.node sub) with
        | .ok (some (.node s2)) => .ok (dget ((k2 :: rest).getLast (by simp)) s2).isSome
        | _ => .ok false
    | _ => .ok false
  | _ :: _, .leaf .. => .error .attr

/-- `key in td.keys()` for a key given as a plain `str` (`_StringKeys.__contains__`), and the
TypeError of `_TensorDictKeysView.__contains__` for longer keys when include_nested=False -/
def containsFlat : Path → Entry → Except Err Bool
  | [k], .node kids => .ok (dget k kids).isSome
  | [], _ => .error .type
  | _, _ => .error .type

/-- outcome of one call -/
inductive Out where
  | ok                                  -- returned self / None
  | val (v : Option Entry)              -- returned an entry (`none` = the Python `None` default)
  | res (r : List Entry)                -- returned new tensordict(s) (out-of-place operations)
  | err (e : Err)
  deriving Repr, Inhabited

/-- mirrors tensordict/base.py:pop : `out = self.get(key, default); self.del_(key)` inside `try … except KeyError` -/
def popT (p : Path) (hasDefault : Bool) (t : Entry) : Entry × Out :=
  match p with
  | [] => (t, .err .key)
  | _ =>
    -- get(key, default): without default a missing key raises KeyError
    match getTuple p t with
    | .error e => (t, .err e)
    | .ok none =>
      if hasDefault then
        match delTuple p t with
        | .ok t' => (t', .val none)
        | .error .key => (t, .val none)
        | .error e => (t, .err e)
      else (t, .err .key)
    | .ok (some v) =>
      match delTuple p t with
      | .ok t' => (t', .val (some v))
      | .error .key => if hasDefault then (t, .val (some v)) else (t, .err .key)
      | .error e => (t, .err e)

/-- mirrors tensordict/_td.py:TensorDict.rename_key_ (after the `fix:` commit: a new key that extends
the old one detaches the value first). `old`/`new` are the unravelled keys. -/
def renameEmptyErr (old new : Path) (safe : Bool) (t : Entry) : Err :=
  -- which exception a malformed (empty) key produces: `() in keys` is a TypeError, `get(())` a KeyError,
  -- `_set_tuple(())` an IndexError (after `get(old)` has been evaluated)
  if old = [] ∧ new = [] then .type
  else if old = [] then .key
  else if safe then .type
  else match getTuple old t with
    | .error e => e
    | .ok none => .key
    | .ok (some _) => .index

def renameKey (old new : Path) (safe : Bool) (t : Entry) : Entry × Out :=
  if old = [] ∨ new = [] then (t, .err (renameEmptyErr old new safe t)) else
  if old = new then
    -- `old_key not in self.keys(include_nested=isinstance(old_key, tuple))`
    match (if old.length = 1 then containsFlat old t else containsNested old t) with
    | .error e => (t, .err e)
    | .ok true => (t, .ok)
    | .ok false => (t, .err .key)
  else
    let safeHit : Except Err Bool := if safe then containsNested new t else .ok false
    match safeHit with
    | .error e => (t, .err e)
    | .ok true => (t, .err .key)
    | .ok false =>
      if isPrefix old new then
        -- value = self.get(old_key, default=NO_DEFAULT); self.del_(old_key); self._set_tuple(new_key, value)
        match getTuple old t with
        | .error e => (t, .err e)
        | .ok none => (t, .err .key)
        | .ok (some v) =>
          match delTuple old t with
          | .error e => (t, .err e)
          | .ok t1 =>
            match setTuple new v t1 with
            | .error e => (t1, .err e)
            | .ok t2 => (t2, .ok)
      else
        match getTuple old t with
        | .error e => (t, .err e)
        | .ok none => (t, .err .key)
        | .ok (some v) =>
          match setTuple new v t with
          | .error e => (t, .err e)
          | .ok t1 =>
            if isPrefix new old then (t1, .ok)
            else
              match delTuple old t1 with
              | .error e => (t1, .err e)
              | .ok t2 => (t2, .ok)

/-- mirrors tensordict/base.py:setdefault : `if key not in self.keys(include_nested=isinstance(key, tuple)):
self.set(key, default)`; `return self.get(key)`. `isTuple` = the raw key was spelled as a tuple. -/
def setDefault (p : Path) (isTuple : Bool) (dflt : Entry) (t : Entry) : Entry × Out :=
  match (if isTuple then containsNested p t else containsFlat p t) with
  | .error e => (t, .err e)
  | .ok present =>
    let r : Except Err Entry := if present then .ok t else setTuple p dflt t
    match r with
    | .error e => (t, .err e)
    | .ok t1 =>
      match getTuple p t1 with
      | .error e => (t1, .err e)
      | .ok v => (t1, .val v)

/-- mirrors tensordict/base.py:clear : `for key in list(self.keys()): del self[key]` -/
def clearLoop : List String → Entry → Entry × Out
  | [], t => (t, .ok)
  | k :: ks, t =>
    match delTuple [k] t with
    | .error e => (t, .err e)
    | .ok t1 => clearLoop ks t1

def rootKeys : Entry → List String
  | .node kids => kids.map (·.1)
  | .leaf .. => []

def clearT (t : Entry) : Entry × Out := clearLoop (rootKeys t) t

/-! ### select / exclude (tensordict/_td.py:TensorDict._select/_exclude, after the `fix:` commits) -/

/-- `keys_to_select[key].append(subkey)` on an insertion-ordered defaultdict(list) -/
def groupAdd (k : String) (sub : Path) : List (String × List Path) → List (String × List Path)
  | [] => [(k, [sub])]
  | (k', l) :: r => if k' = k then (k', l ++ [sub]) :: r else (k', l) :: groupAdd k sub r

/-- first loop of `_select`: builds `source`, the groups of nested sub-keys and the set of keys
selected as a whole. `none` = KeyError (strict and missing). -/
def selectScan (strict : Bool) (kids : Kids) :
    List Path → Kids → List (String × List Path) → List String → Except Err (Kids × List (String × List Path) × List String)
  | [], src, grp, whole => .ok (src, grp, whole)
  | [] :: _, _, _, _ => .error .index
  | (k :: sub) :: rest, src, grp, whole =>
    match dget k kids with
    | none => if strict then .error .key else selectScan strict kids rest src grp whole
    | some v =>
      let src := dset k v src
      if sub = [] then selectScan strict kids rest src grp (k :: whole)
      else selectScan strict kids rest src (groupAdd k sub grp) whole

/-- second loop of `_select`: every group is handed to `f` (the recursive `_select` of the nested tensordict).
A key that was also selected as a whole is only checked (strict) — `fix:` commit; with `inplace` the nested
tensordict is pruned in place, which the receiver sees at once (`cur`), also when a later group raises. -/
def selectGroups (f : List Path → Bool → Bool → Entry → Entry × Except Err Entry) (strict inplace : Bool)
    (whole : List String) : List (String × List Path) → Kids → Kids → Kids × Except Err Kids
  | [], cur, src => (cur, .ok src)
  | (k, subs) :: r, cur, src =>
    match dget k src with
    | none => selectGroups f strict inplace whole r cur src
    | some child =>
      if whole.contains k then
        if strict then
          match (f subs true false child).2 with
          | .error e => (cur, .error e)
          | .ok _ => selectGroups f strict inplace whole r cur src
        else selectGroups f strict inplace whole r cur src
      else
        match f subs strict inplace child with
        | (child', .error e) => (if inplace then dset k child' cur else cur, .error e)
        | (child', .ok c) => selectGroups f strict inplace whole r (if inplace then dset k child' cur else cur) (dset k c src)

/-- `_select(*keys, strict, inplace)` on a node. Returns (the receiver afterwards, result).
With `inplace` the nested nodes are pruned in place group by group, so a call that raises in a later
group has already pruned the earlier ones; the receiver's own storage is swapped only at the end.
`fuel` bounds the key length (each level consumes one component). -/
def selectF : Nat → List Path → Bool → Bool → Entry → Entry × Except Err Entry
  | _, _, _, _, .leaf nt v => (.leaf nt v, .error .attr)          -- 'Tensor' object has no attribute '_select'
  | 0, _, _, _, t => (t, .error .runtime)
  | fuel + 1, keys, strict, inplace, .node kids =>
    match selectScan strict kids keys [] [] [] with
    | .error e => (.node kids, .error e)
    | .ok (src, grp, whole) =>
      match selectGroups (selectF fuel) strict inplace whole grp kids src with
      | (cur, .error e) => (.node cur, .error e)
      | (cur, .ok src) => if inplace then (.node src, .ok (.node src)) else (.node cur, .ok (.node src))

def maxLen (keys : List Path) : Nat := keys.foldl (fun m p => max m p.length) 0

/-- `td.select(*keys, strict, inplace)`. After the `fix:` commit an in-place call first computes the selection out of place
(`self._select(*keys, inplace=False, …)`), which raises in exactly the same cases without touching anything; only then
are the nested tensordicts pruned in place. (The nested in-place calls repeat that dry run on their own subtree; it cannot
fail once the outer one has succeeded — Props/C04.lean `select_inplace_agrees` — so it is modelled at the outermost call only.) -/
def selectT (keys : List Path) (strict inplace : Bool) (t : Entry) : Entry × Out :=
  if inplace then
    match (selectF (maxLen keys + 1) keys strict false t).2 with
    | .error e => (t, .err e)
    | .ok _ =>
      match selectF (maxLen keys + 1) keys strict true t with
      | (t', .error e) => (t', .err e)
      | (t', .ok _) => (t', .ok)
  else
    match selectF (maxLen keys + 1) keys strict false t with
    | (t', .error e) => (t', .err e)
    | (t', .ok r) => (t', .res [r])

/-- first loop of `_exclude`: string keys are popped at once, nested keys are grouped by their first
component when that component is bound in the receiver -/
def excludeScan (orig : Kids) : List Path → Kids → List (String × List Path) → Except Err (Kids × List (String × List Path))
  | [], cur, grp => .ok (cur, grp)
  | [] :: _, _, _ => .error .index
  | [k] :: rest, cur, grp => excludeScan orig rest (ddel k cur) grp
  | (k :: sub) :: rest, cur, grp =>
    if (dget k orig).isSome then excludeScan orig rest cur (groupAdd k sub grp)
    else excludeScan orig rest cur grp

/-- second loop of `_exclude`: every group whose entry is (still) a nested tensordict is pruned by `f` (the
recursive `_exclude` call); with the `fix:` commit a group whose entry is not a nested tensordict is skipped -/
def excludeGroups (f : List Path → Kids → Except Err Kids) : List (String × List Path) → Kids → Except Err Kids
  | [], cur => .ok cur
  | (k, subs) :: r, cur =>
    match dget k cur with
    | some (.node sub) =>
      match f subs sub with
      | .error e => .error e
      | .ok sub' => excludeGroups f r (dset k (.node sub') cur)
    | _ => excludeGroups f r cur

/-- `_exclude(*keys)` on the storage of a node (in place and out of place compute the same content) -/
def excludeF : Nat → List Path → Kids → Except Err Kids
  | 0, _, kids => .ok kids
  | fuel + 1, keys, kids =>
    if keys = [] then .ok kids else
    match excludeScan kids keys kids [] with
    | .error e => .error e
    | .ok (cur, grp) => excludeGroups (excludeF fuel) grp cur

/-- in place, `key[0] in self._tensordict` sees the keys already popped by the same call -/
def excludeScanInplace : List Path → Kids → List (String × List Path) → Except Err (Kids × List (String × List Path))
  | [], cur, grp => .ok (cur, grp)
  | [] :: _, _, _ => .error .index
  | [k] :: rest, cur, grp => excludeScanInplace rest (ddel k cur) grp
  | (k :: sub) :: rest, cur, grp =>
    if (dget k cur).isSome then excludeScanInplace rest cur (groupAdd k sub grp)
    else excludeScanInplace rest cur grp

def excludeT (keys : List Path) (inplace : Bool) (t : Entry) : Entry × Out :=
  match t with
  | .leaf .. => (t, .err .attr)
  | .node kids =>
    match excludeF (maxLen keys + 1) keys kids with
    | .error e => (t, .err e)
    | .ok k' => if inplace then (.node k', .ok) else (t, .res [.node k'])

/-! ### update (tensordict/base.py:update, default is_leaf = _is_leaf_nontensor, payload = dict) -/

/-- `update(payload)`: items are processed in order; a nested tensordict met by a dict value is updated
recursively (merge), everything else goes through `_set_tuple`. A raising item leaves the earlier
items written (the documented non-atomicity of `update`). -/
def updateF : Nat → List (Path × Entry) → Entry → Entry × Except Err Unit
  | _, [], t => (t, .ok ())
  | 0, _, t => (t, .error .runtime)
  | _, _ :: _, .leaf nt v => (.leaf nt v, .error .attr)
  | _ + 1, ([], _) :: _, t => (t, .error .index)
  | fuel + 1, (k :: sub, v) :: rest, .node kids =>
    let direct : Entry × Except Err Unit :=
      match setTuple (k :: sub) v (.node kids) with
      | .error e => (.node kids, .error e)
      | .ok t' => updateF fuel rest t'
    match dget k kids, v with
    | some (.node tsub), .node pv =>
      -- target.update({subkey: value}) / target.update(value)
      let inner := if sub = [] then pv.map (fun kv => ([kv.1], kv.2)) else [(sub, v)]
      match updateF fuel inner (.node tsub) with
      | (c, .error e) => (.node (dset k c kids), .error e)
      | (c, .ok ()) => updateF fuel rest (.node (dset k c kids))
    | _, _ => direct

def entrySize : Entry → Nat
  | .leaf .. => 1
  | .node kids => 1 + kidsSize kids
where
  kidsSize : Kids → Nat
    | [] => 0
    | (_, v) :: r => entrySize v + kidsSize r

/-- a bound on the depth of the recursion of `updateF` (the fuel is an artefact of the model, not of the code) -/
def payloadW : Entry → Nat
  | .leaf .. => 0
  | .node kids => go kids
where
  go : Kids → Nat
    | [] => 0
    | (_, v) :: r => 2 + (match v with
        | .node sub => go sub
        | .leaf .. => 0) + go r

def updMeasure : List (Path × Entry) → Nat
  | [] => 0
  | (p, v) :: r => 1 + p.length + payloadW v + updMeasure r

def updFuel (items : List (Path × Entry)) : Nat := updMeasure items

def updateT (items : List (Path × Entry)) (t : Entry) : Entry × Out :=
  match updateF (updFuel items) items t with
  | (t', .error e) => (t', .err e)
  | (t', .ok ()) => (t', .ok)

/-! ### views (tensordict/_td.py:_TensorDictKeysView, TensorDict.keys/items/values, base.py:items/values) -/

/-- `_TensorDictKeysView._iter_helper` with include_nested=True: sub-keys first, then the key itself -/
def iterHelper (leavesOnly ntLeaf : Bool) : Entry → Path → List Path
  | .leaf .., _ => []
  | .node kids, prefix_ => go kids prefix_
where
  go : Kids → Path → List Path
    | [], _ => []
    | (k, v) :: r, prefix_ =>
      let full := prefix_ ++ [k]
      (match v with
        | .node sub => go sub full
        | .leaf .. => []) ++
      (if !leavesOnly || v.isLeafFor ntLeaf then [full] else []) ++ go r prefix_

/-- base.py:items(include_nested=True) and the `fast_iter` path of TensorDict.items: the entry first,
then its sub-items -/
def iterItems (leavesOnly ntLeaf : Bool) : Entry → Path → List (Path × Entry)
  | .leaf .., _ => []
  | .node kids, prefix_ => go kids prefix_
where
  go : Kids → Path → List (Path × Entry)
    | [], _ => []
    | (k, v) :: r, prefix_ =>
      let full := prefix_ ++ [k]
      (if !leavesOnly || v.isLeafFor ntLeaf then [(full, v)] else []) ++
      (match v with
        | .node sub => go sub full
        | .leaf .. => []) ++ go r prefix_

/-- the sort key `".".join(key)` -/
def joinKey (p : Path) : String := ".".intercalate p

/-- stable insertion sort by a string key (what `sorted(..., key=keyfunc)` computes) -/
def sortBy {α} (f : α → String) (l : List α) : List α := l.foldr (fun x acc => insertBefore f x acc) []
where
  /-- insert `x` before the first element with a strictly greater key (stable for `foldr`) -/
  insertBefore {α} (f : α → String) (x : α) : List α → List α
    | [] => [x]
    | y :: r => if f y < f x then y :: insertBefore f x r else x :: y :: r

structure ViewCfg where
  nested : Bool
  leavesOnly : Bool
  sort : Bool
  ntLeaf : Bool      -- is_leaf=_is_leaf_nontensor (else the default `_default_is_leaf`)
  deriving Repr

/-- `td.keys(include_nested, leaves_only, is_leaf, sort=…)` iterated -/
def keysView (c : ViewCfg) (t : Entry) : List Path :=
  let raw : List Path :=
    match t with
    | .leaf .. => []
    | .node kids =>
      if c.nested then iterHelper c.leavesOnly c.ntLeaf t []
      else if c.leavesOnly then (kids.filter (fun kv => kv.2.isLeafFor c.ntLeaf)).map (fun kv => [kv.1])
      else kids.map (fun kv => [kv.1])
  if c.sort then sortBy joinKey raw else raw

/-- `td.items(include_nested, leaves_only, is_leaf, sort=…)` iterated -/
def itemsView (c : ViewCfg) (t : Entry) : List (Path × Entry) :=
  let raw : List (Path × Entry) :=
    match t with
    | .leaf .. => []
    | .node kids =>
      if c.nested then iterItems c.leavesOnly c.ntLeaf t []
      else if c.leavesOnly then (kids.filter (fun kv => kv.2.isLeafFor c.ntLeaf)).map (fun kv => ([kv.1], kv.2))
      else kids.map (fun kv => ([kv.1], kv.2))
  if c.sort then sortBy (fun kv => joinKey kv.1) raw else raw

/-- tensordict/_td.py:TensorDict.is_empty — no leaf anywhere below (a non-tensor counts as a leaf) -/
def isEmpty : Entry → Bool
  | .leaf .. => false
  | .node kids => go kids
where
  go : Kids → Bool
    | [] => true
    | (_, v) :: r => (match v with
        | .node sub => go sub
        | .leaf .. => false) && go r

/-- leaves in items() order (what flatten_keys iterates: include_nested, leaves_only, is_leaf_nontensor) -/
def leavesOf (t : Entry) : List (Path × Entry) := iterItems true true t []

/-! ### flatten_keys / unflatten_keys (tensordict/base.py) -/

def joinWith (sep : String) (p : Path) : String := sep.intercalate p

/-- `set(l)` as a list (`len(set(l))` is its length) -/
def dedup {α} [BEq α] : List α → List α
  | [] => []
  | x :: r => if (dedup r).contains x then dedup r else x :: dedup r

/-- left-to-right `d[k] = v` -/
def dictBuild (l : List (String × Entry)) : Kids := l.foldl (fun d kv => dset kv.1 kv.2 d) []

/-- mirrors base.py:_flatten_keys_outplace -/
def flattenOut (sep : String) (t : Entry) : Except Err Entry :=
  let lv := leavesOf t
  let flat := lv.map (fun kv => joinWith sep kv.1)
  if (dedup flat).length < flat.length then .error .key
  else .ok (.node (dictBuild (flat.zip (lv.map (·.2)))))

/-- `all_vals = [self.pop(leaf) for leaf in all_leaves]` -/
def popAll : List Path → Entry → List Entry → Entry × Except Err (List Entry)
  | [], t, acc => (t, .ok acc.reverse)
  | p :: r, t, acc =>
    match popT p false t with
    | (t', .val (some v)) => popAll r t' (v :: acc)
    | (t', .err e) => (t', .error e)
    | (t', _) => (t', .error .runtime)

/-- mirrors base.py:_flatten_keys_inplace (after the `fix:` commit): pop every leaf, exclude what is
left, write the flat names -/
def flattenIn (sep : String) (t : Entry) : Entry × Out :=
  let leaves := keysView ⟨true, true, false, true⟩ t
  let flat := leaves.map (joinWith sep)
  if (dedup flat).length < (dedup leaves).length then (t, .err .key) else
  match popAll leaves t [] with
  | (t1, .error e) => (t1, .err e)
  | (t1, .ok vals) =>
    match excludeT ((rootKeys t1).map ([·])) true t1 with
    | (t2, .err e) => (t2, .err e)
    | (t2, _) =>
      match t2 with
      | .leaf .. => (t2, .err .attr)
      | .node kids => (.node ((flat.zip vals).foldl (fun d kv => dset kv.1 kv.2 d) kids), .ok)

/-- `key.split(sep)` for a one-character separator -/
def splitOnChar (sep : Char) : List Char → List (List Char)
  | [] => [[]]
  | c :: r =>
    if c == sep then [] :: splitOnChar sep r
    else match splitOnChar sep r with
      | [] => [[c]]
      | h :: t => (c :: h) :: t

def splitKey (sep : Char) (k : String) : Path := (splitOnChar sep k.toList).map String.ofList

/-- `sep in key` for strings: does `s` occur in the list? (the empty string occurs everywhere) -/
def hasInfix (s : List Char) : List Char → Bool
  | [] => s.isEmpty
  | c :: r => s.isPrefixOf (c :: r) || hasInfix s r

def sepIn (sep k : String) : Bool := hasInfix sep.toList k.toList

/-- `key.split(sep)` for a non-empty separator of any length: leftmost, non-overlapping occurrences.
`cur` is the piece being read (reversed); the fuel bounds the number of steps by the length of the key. -/
def splitOnStr (sep : List Char) : Nat → List Char → List Char → List (List Char)
  | 0, _, cur => [cur.reverse]
  | _ + 1, [], cur => [cur.reverse]
  | n + 1, c :: r, cur =>
    if sep.isPrefixOf (c :: r) then cur.reverse :: splitOnStr sep n ((c :: r).drop sep.length) []
    else splitOnStr sep n r (c :: cur)

def splitKeyS (sep k : String) : Path := (splitOnStr sep.toList (k.length + 1) k.toList []).map String.ofList

/-- mirrors base.py:unflatten_keys(inplace=True): every root key containing the separator is renamed
(safe=True) to its split form; any KeyError is re-raised as KeyError, earlier renames persist -/
def unflattenLoop (sep : String) : List String → Entry → Entry × Out
  | [], t => (t, .ok)
  | k :: ks, t =>
    if sepIn sep k then
      match renameKey [k] (splitKeyS sep k) true t with
      | (t', .err e) => (t', .err e)
      | (t', _) => unflattenLoop sep ks t'
    else unflattenLoop sep ks t

/-- `unflatten_keys(sep, inplace)`; the empty separator occurs in every key and `key.split("")` raises ValueError
(nothing happens to a tensordict without entries) -/
def unflattenT (sep : String) (inplace : Bool) (t : Entry) : Entry × Out :=
  if sep = "" ∧ rootKeys t ≠ [] then (t, .err .value) else
  match unflattenLoop sep (rootKeys t) t with
  | (t', .err e) => if inplace then (t', .err e) else (t, .err e)
  | (t', _) => if inplace then (t', .ok) else (t, .res [t'])

/-! ### split_keys (tensordict/base.py:split_keys, key sets given as lists, default=NO_DEFAULT unless not strict) -/

/-- `filter_empty_`: drop every nested node without leaves (deepest first) -/
def filterEmpty : Entry → Entry
  | .leaf nt v => .leaf nt v
  | .node kids => .node (go kids)
where
  go : Kids → Kids
    | [] => []
    | (k, .leaf nt v) :: r => (k, .leaf nt v) :: go r
    | (k, .node sub) :: r =>
      let sub' := go sub
      if isEmpty.go sub' then go r else (k, .node sub') :: go r

/-- one key set: pop each key from `last`, set it in the fresh output -/
def splitSet (strict : Bool) : List Path → Entry → Entry → Entry × Entry × Except Err Unit
  | [], last, out => (last, out, .ok ())
  | p :: r, last, out =>
    match popT p (!strict) last with
    | (last', .val (some v)) =>
      match setTuple p v out with
      | .error e => (last', out, .error e)
      | .ok out' => splitSet strict r last' out'
    | (last', .val none) => splitSet strict r last' out
    | (last', .err e) => (last', out, .error e)
    | (last', _) => (last', out, .error .runtime)

def splitSets (strict : Bool) : List (List Path) → Entry → List Entry → Entry × List Entry × Except Err Unit
  | [], last, outs => (last, outs.reverse, .ok ())
  | ks :: r, last, outs =>
    match splitSet strict ks last (.node []) with
    | (last', out, .ok ()) => splitSets strict r last' (out :: outs)
    | (last', _, .error e) => (last', outs.reverse, .error e)

/-- `split_keys(*key_sets, inplace, strict)` for key sets whose keys are pairwise unrelated (no key is a
prefix of another): then popping them from `self` in any order gives the same content as `last_out` -/
def splitT (sets : List (List Path)) (inplace strict : Bool) (t : Entry) : Entry × Out :=
  match splitSets strict sets t [] with
  | (_, _, .error e) => (t, .err e)
  | (last, outs, .ok ()) =>
    let last' := filterEmpty last
    (if inplace then last' else t, .res (outs ++ [last']))

/-- `td.to_dict()` skeleton = the tree itself (identity on the model); `empty()` -/
def emptyT (t : Entry) : Entry × Out := (t, .res [.node []])

/-! ### operations and the step function -/

inductive Op where
  | set (p : Path) (v : Entry)
  | del (p : Path)
  | pop (p : Path) (hasDefault : Bool)
  | rename (old new : Path) (safe : Bool)
  | setdefault (p : Path) (isTuple : Bool) (v : Entry)
  | update (items : List (Path × Entry))
  | select (keys : List Path) (strict inplace : Bool)
  | exclude (keys : List Path) (inplace : Bool)
  | flatten (sep : String) (inplace : Bool)
  | unflatten (sep : String) (inplace : Bool)
  | split (sets : List (List Path)) (inplace strict : Bool)
  | clear
  | empty
  deriving Repr, Inhabited

def step (t : Entry) : Op → Entry × Out
  | .set p v => match setTuple p v t with
    | .ok t' => (t', .ok)
    | .error e => (t, .err e)
  | .del p => match delTuple p t with
    | .ok t' => (t', .ok)
    | .error e => (t, .err e)
  | .pop p d => popT p d t
  | .rename o n s => renameKey o n s t
  | .setdefault p tup v => setDefault p tup v t
  | .update items => updateT items t
  | .select keys strict inplace => selectT keys strict inplace t
  | .exclude keys inplace => excludeT keys inplace t
  | .flatten sep inplace =>
    if inplace then flattenIn sep t
    else match flattenOut sep t with
      | .ok r => (t, .res [r])
      | .error e => (t, .err e)
  | .unflatten sep inplace => unflattenT sep inplace t
  | .split sets inplace strict => splitT sets inplace strict t
  | .clear => clearT t
  | .empty => emptyT t

/-! ### LazyStackedTensorDict with homogeneous keys (tensordict/_lazy.py)

The mapping operations of a lazy stack are loops over `self.tensordicts`: `_set_str` / `_set_tuple` (the value is unbound
along the stack dim, one piece per member), `del_`, `rename_key_`, `_select`, `_exclude`, `_flatten_keys_outplace`; `pop`,
`setdefault`, `clear`, `split_keys`, `flatten_keys(inplace=True)` and `unflatten_keys` are the generic implementations of
tensordict/base.py running on those. Each member is a TensorDict, so each member moves by `step` — except that the generic
`unflatten_keys` walks `list(self.keys())`, and the root keys of a lazy stack come SORTED (`_key_list`: `sorted(set
intersection)`), so the renames happen in sorted order. -/

/-- `unflatten_keys` on a member of a lazy stack: the loop runs over the sorted root keys -/
def unflattenTL (sep : String) (inplace : Bool) (t : Entry) : Entry × Out :=
  if sep = "" ∧ rootKeys t ≠ [] then (t, .err .value) else
  match unflattenLoop sep (sortBy id (rootKeys t)) t with
  | (t', .err e) => if inplace then (t', .err e) else (t, .err e)
  | (t', _) => if inplace then (t', .ok) else (t, .res [t'])

/-- tensordict/_lazy.py:LazyStackedTensorDict.pop — unlike the generic `pop` (get, then del_, inside try/except) it first asks
`key in self.keys()` / `key in self.keys(True)` (tensordict/_lazy.py:_LazyStackedTensorDictKeysView.__contains__: the first
component among the keys of the stack, then `key[1:] in member.get(key[0]).keys(True)` for every member — an AttributeError
when that entry is a tensor) and only then reads and deletes; an absent key gives the default or KeyError, also when it runs
through a tensor further down. Seen on one member. -/
def popLazy (p : Path) (hasDefault : Bool) (t : Entry) : Entry × Out :=
  let absent : Entry × Out := if hasDefault then (t, .val none) else (t, .err .key)
  match p, t with
  | [], _ => (t, .err .index)
  | _ :: _, .leaf .. => (t, .err .attr)
  | [k], .node kids => if (dget k kids).isSome then popT [k] hasDefault t else absent
  | k :: k2 :: r, .node kids =>
    match dget k kids with
    | none => absent
    | some (.leaf ..) => (t, .err .attr)
    | some (.node sub) =>
      match containsNested (k2 :: r) (.node sub) with
      | .ok true => popT (k :: k2 :: r) hasDefault t
      | .ok false => absent
      | .error e => (t, .err e)

/-- one member of a lazy stack under one operation of the stack -/
def stepMember (t : Entry) : Op → Entry × Out
  | .unflatten sep inplace => unflattenTL sep inplace t
  | .pop p d => popLazy p d t
  | op => step t op

/-- the stack: every member moves; the answer is the one of the first member (the members of a homogeneous stack answer
alike); out-of-place results are stacks of the members' results -/
def lazyStep (ms : List Entry) (op : Op) : List Entry × Out :=
  (ms.map fun m => (stepMember m op).1,
   match ms with
   | [] => .err .runtime
   | m :: _ => (stepMember m op).2)

def run (t : Entry) : List Op → Entry
  | [] => t
  | op :: ops => run (step t op).1 ops

end TdVerif.C04
