import TdVerif.Sexp

namespace TdVerif.Drive
open TdVerif Sexp

/-- line-protocol handler for C15: commands are named `c15.<something>` -/
def handleC15 (cmd : String) (args : List Sexp) : Option Sexp :=
  match cmd, args with
  | _, _ => none

end TdVerif.Drive
