import TdVerif.Sexp
import TdVerif.Model.C15Tensorclass

namespace TdVerif.Drive
open TdVerif Sexp TdVerif.C15 TdVerif.Gen.Tc

namespace C15D

/-- interned id of a method name; names the tables do not know get an id outside every table -/
def idOf (s : String) : Nat := nameTable.idxOf s

def ids? (l : List Sexp) : Option (List Nat) := (l.mapM asAtom?).map (·.map idOf)

def bool? : Sexp → Option Bool
  | .atom "true" => some true
  | .atom "false" => some false
  | _ => none

def kindToSexp : Kind → Sexp
  | .explicit impl => tagged "explicit" [.atom (if impl.all (fun c => c.isAlphanum || c == '_' || c == ':' || c == '.') && impl != "" then impl else "x")]
  | .fromTD => .atom "fromTD"
  | .wrap => .atom "wrap"
  | .nowrap => .atom "nowrap"
  | .copy => .atom "copy"
  | .classmethod => .atom "classmethod"
  | .user => .atom "user"
  | .inherited => .atom "inherited"
  | .fallback => .atom "fallback"
  | .missing => .atom "missing"

def errToSexp : Err → Sexp
  | .key => .atom "key" | .value => .atom "value" | .attr => .atom "attr" | .lock => .atom "lock"
  | .type => .atom "type" | .runtime => .atom "runtime" | .notImplemented => .atom "notimplemented"

/-- tensordicts travel as `(td <tag> (key …))`; the model only needs the keys, the tag identifies the object -/
structure TDd where
  tag : String
  keys : List String
  deriving Inhabited

def optV? : Sexp → Option (Option String)
  | .atom "none" => some none
  | .atom s => some (some s)
  | _ => none

def nt? (l : List Sexp) : Option (NT String) :=
  l.mapM (fun e => match e with
    | .list [.atom k, v] => (optV? v).map (fun v => (k, v))
    | _ => none)

def td? : Sexp → Option TDd
  | .list [.atom "td", .atom tag, .list ks] => (ks.mapM asAtom?).map (fun ks => ⟨tag, ks⟩)
  | _ => none

def item? : Sexp → Option (Item TDd String)
  | .atom "none" => some .none
  | .atom "selftd" => some .selfTd
  | .list [.atom "out", t] => (td? t).map (fun t => .td t true)
  | .list [.atom "other", .atom x] => some (.other x)
  | t@(.list (.atom "td" :: _)) => (td? t).map (fun t => .td t false)
  | _ => none

def res? : Sexp → Option (Res TDd String)
  | .list (.atom "tuple" :: l) => (l.mapM item?).map .tuple
  | s => (item? s).map .single

def ntToSexp (nt : NT String) : Sexp :=
  -- sorted by key: `_non_tensordict` placeholder order comes out of a python set
  let sorted := nt.mergeSort (fun a b => a.1 ≤ b.1)
  .list (sorted.map (fun kv => .list [.atom kv.1, match kv.2 with | none => .atom "none" | some v => .atom v]))

def outItemToSexp : OutItem TDd String String → Sexp
  | .none => .atom "none"
  | .selfTc => .atom "self"
  | .tc t => tagged "tc" [.atom t.cls, .atom t.td.tag, ntToSexp t.nt]
  | .rawTd t => tagged "rawtd" [.atom t.tag]
  | .rawSelfTd => .atom "rawselftd"
  | .other x => tagged "other" [.atom x]

def outToSexp : Except Err (Out TDd String String) → Sexp
  | .error e => tagged "err" [errToSexp e]
  | .ok (.single o) => tagged "ok" [outItemToSexp o]
  | .ok (.tuple l) => tagged "ok" [tagged "tuple" (l.map outItemToSexp)]

def entry? : Sexp → Option (Entry String String)
  | .list [.atom "leaf", .atom t] => some (.leaf t)
  | .list [.atom "nt", v] => (optV? v).map .ntData
  | .list (.atom "stack" :: l) => (l.mapM optV?).map .ntStack
  | _ => none

def entries? (l : List Sexp) : Option (List (String × Entry String String)) :=
  l.mapM (fun e => match e with
    | .list [.atom k, v] => (entry? v).map (fun v => (k, v))
    | _ => none)

def optVToSexp : Option String → Sexp
  | none => .atom "none"
  | some v => .atom v

def attrValToSexp : Except Err (AttrVal String String) → Sexp
  | .error e => tagged "err" [errToSexp e]
  | .ok (.tensor t) => tagged "tensor" [.atom t]
  | .ok (.obj v) => tagged "obj" [optVToSexp v]
  | .ok (.list l) => tagged "list" (l.map optVToSexp)

def entryToSexp : Entry String String → Sexp
  | .leaf t => tagged "leaf" [.atom t]
  | .ntData v => tagged "nt" [optVToSexp v]
  | .ntStack l => tagged "stack" (l.map optVToSexp)

def tcToSexp (tc : TC (TDm String String) String) : Sexp :=
  .list [tagged "td" ((tc.td.entries.mergeSort (fun a b => a.1 ≤ b.1)).map (fun kv => .list [.atom kv.1, entryToSexp kv.2])),
         tagged "nt" [ntToSexp tc.nt]]

def hint? : Sexp → Option Hint
  | .atom "any" => some .any | .atom "accepted" => some .accepted
  | .atom "collection" => some .collection | .atom "othertype" => some .otherType
  | _ => none

def valKind? : Sexp → Option ValKind
  | .atom "tensor" => some .tensor | .atom "castable" => some .castable | .atom "none" => some .none
  | .atom "dict" => some .dict | .atom "other" => some .other
  | _ => none

end C15D
open C15D

/-- line-protocol handler for C15: commands are named `c15.<something>` -/
def handleC15 (cmd : String) (args : List Sexp) : Option Sexp :=
  match cmd, args with
  | "c15.id", [.atom s] => some (if nameTable.contains s then ofNat (idOf s) else .atom "unknown")
  | "c15.table_sizes", [] =>
      some (.list [ofNat nameTable.length, ofNat methodFromTd.length, ofNat fallbackWrap.length, ofNat fallbackNowrap.length,
                   ofNat fallbackForce.length, ofNat fallbackCopy.length, ofNat passThrough.length, ofNat installProgram.length,
                   ofNat publicApi.length, ofNat operatorApi.length, ofNat handledFunctions.length])
  -- (c15.dispatch_all (fields…) (own…) (inherited…) isNonTensor (names…)) → (kind…)
  | "c15.dispatch_all", [.list fs, .list own, .list inh, nt, .list icm, .list names] => do
      -- names outside the interned table get fresh ids (local to the request)
      let all ← (fs ++ own ++ inh ++ icm ++ names).mapM asAtom?
      let extra := (all.filter (fun s => !nameTable.contains s)).eraseDups
      let idl (s : String) : Nat :=
        let i := nameTable.idxOf s
        if i < nameTable.length then i else nameTable.length + extra.idxOf s
      let idsl (l : List Sexp) : Option (List Nat) := (l.mapM asAtom?).map (·.map idl)
      let cfg : ClassCfg := ⟨← idsl fs, ← idsl own, ← idsl inh, ← bool? nt, ← idsl icm⟩
      let ns ← names.mapM asAtom?
      pure (.list (ns.map (fun n => .list [kindToSexp (dispatch cfg (idl n)), .atom (if servedAsProperty (idl n) then "prop" else "method")])))
  | "c15.from_td", [.list fs, .list tdKeys, .list nt] => do
      let fs ← fs.mapM asAtom?; let ks ← tdKeys.mapM asAtom?; let nt ← nt? nt
      pure (match fromTensordict fs ks nt with
        | .ok nt' => tagged "ok" [ntToSexp nt']
        | .error e => tagged "err" [errToSexp e])
  -- (c15.wrapcall nowrap cls (fields…) selftd (nt…) res)
  | "c15.wrapcall", [nw, .atom cls, .list fs, selftd, .list nt, r] => do
      let self : TC TDd String := ⟨cls, ← td? selftd, ← nt? nt⟩
      pure (outToSexp (wrapCall (← fs.mapM asAtom?) TDd.keys (← bool? nw) self (← res? r)))
  | "c15.fallback", [eu, cm, .atom cls, .list fs, selftd, .list nt, r] => do
      let self : TC TDd String := ⟨cls, ← td? selftd, ← nt? nt⟩
      pure (outToSexp (wrapMethodFallback (← fs.mapM asAtom?) TDd.keys (← bool? eu) (← bool? cm) self (← res? r)))
  | "c15.torchfn", [.atom f, .atom cls, .list fs, selftd, .list nt, r] => do
      let self : TC TDd String := ⟨cls, ← td? selftd, ← nt? nt⟩
      pure (outToSexp (torchFunction (← fs.mapM asAtom?) TDd.keys (idOf f) self (← res? r)))
  -- (c15.getfield (entries…) (nt…) item)
  | "c15.getfield", [.list es, .list nt, .atom item] => do
      let tc : TC (TDm String String) String := ⟨"C", ⟨← entries? es, false⟩, ← nt? nt⟩
      pure (.list [attrValToSexp (getField tc item), attrValToSexp (tdGetItem (toTensordict tc) item)])
  -- (c15.setfield (fields…) autocast nocast hint locked (entries…) (nt…) key kind castAcceptedOk)
  | "c15.setfield", [.list fs, ac, nc, h, lk, .list es, .list nt, .atom key, k, cok, ook] => do
      let tc : TC (TDm String String) String := ⟨"C", ⟨← entries? es, ← bool? lk⟩, ← nt? nt⟩
      let a : SetArg String String := ⟨← valKind? k, "raw", "asTensor", if (← bool? cok) then some "castAccepted" else none, "fromDict", if (← bool? ook) then some "castOther" else none⟩
      pure (match setField (← fs.mapM asAtom?) ⟨← bool? ac, ← bool? nc⟩ (← hint? h) tc key a with
        | .error e => tagged "err" [errToSexp e]
        | .ok tc' => tagged "ok" [tcToSexp tc', attrValToSexp (getField tc' key)])
  -- (c15.setitem item cls selftd (nt…) value)   value := (tc cls td (nt…)) | (td td) | scalar | other ; item := key | batch
  | "c15.setitem", [.atom item, .atom cls, selftd, .list nt, v] => do
      let self : TC TDd String := ⟨cls, ← td? selftd, ← nt? nt⟩
      let k : ItemKind := if item = "key" then .key else .batch
      let val : SetItemVal TDd String ← match v with
        | .list [.atom "tc", .atom vc, vt, .list vnt] => do pure (.tc ⟨vc, ← td? vt, ← nt? vnt⟩)
        | .list [.atom "tdv", vt] => do pure (.td (← td? vt))
        | .atom "scalar" => pure .scalar
        | .atom "other" => pure .other
        | _ => none
      -- the tensordict write: existing entries written, entries the destination lacks created
      let tdSetAt : TDd → Option TDd → Except Err TDd := fun t ov =>
        match ov with
        | none => .ok t
        | some w => .ok ⟨t.tag, t.keys ++ w.keys.filter (fun x => !t.keys.contains x)⟩
      pure (match setitemTc TDd.keys tdSetAt k self val with
        | .error e => tagged "err" [errToSexp e]
        | .ok tc' => tagged "ok" [.atom tc'.cls, .list ((tc'.td.keys.mergeSort (· ≤ ·)).map .atom), ntToSexp tc'.nt])
  | "c15.getitem", [.atom item, .atom cls, .list fs, selftd, .list nt] => do
      let self : TC TDd String := ⟨cls, ← td? selftd, ← nt? nt⟩
      let k : ItemKind := if item = "key" then .key else .batch
      pure (match getitemTc (← fs.mapM asAtom?) TDd.keys (fun t => .ok ⟨"t_idx", t.keys⟩) k self with
        | .error e => tagged "err" [errToSexp e]
        | .ok tc' => tagged "ok" [.atom tc'.cls, ntToSexp tc'.nt])
  | "c15.delfield", [lk, .list es, .list nt, .atom key] => do
      let tc : TC (TDm String String) String := ⟨"C", ⟨← entries? es, ← bool? lk⟩, ← nt? nt⟩
      pure (match delField tc key with
        | .error e => tagged "err" [errToSexp e]
        | .ok tc' => tagged "ok" [tcToSexp tc'])
  -- (c15.setfieldi (fields…) autocast nocast hint inplace (ck: 5 bools) locked (entries…) (nt…) key kind castAcceptedOk castOtherOk)
  | "c15.setfieldi", [.list fs, ac, nc, h, inp, .list [c1, c2, c3, c4, c5], lk, .list es, .list nt, .atom key, k, cok, ook] => do
      let tc : TC (TDm String String) String := ⟨"C", ⟨← entries? es, ← bool? lk⟩, ← nt? nt⟩
      let a : SetArg String String := ⟨← valKind? k, "raw", "asTensor", if (← bool? cok) then some "castAccepted" else none, "fromDict", if (← bool? ook) then some "castOther" else none⟩
      let ck : CopyOk := ⟨← bool? c1, ← bool? c2, ← bool? c3, ← bool? c4, ← bool? c5⟩
      pure (match setFieldI (← fs.mapM asAtom?) ⟨← bool? ac, ← bool? nc⟩ (← hint? h) (← bool? inp) ck false tc key a with
        | .error e => tagged "err" [errToSexp e]
        | .ok tc' => tagged "ok" [tcToSexp tc', attrValToSexp (getField tc' key)])
  -- (c15.settuple (fields…) autocast nocast hint inplace (ck) locked (entries…) (nt…) (key…) kind nestedOk)
  | "c15.settuple", [.list fs, ac, nc, h, inp, .list [c1, c2, c3, c4, c5], lk, .list es, .list nt, .list key, k, cok, .atom nerr] => do
      let tc : TC (TDm String String) String := ⟨"C", ⟨← entries? es, ← bool? lk⟩, ← nt? nt⟩
      let a : SetArg String String := ⟨← valKind? k, "raw", "asTensor", if (← bool? cok) then some "castAccepted" else none, "fromDict", some "castOther"⟩
      let ck : CopyOk := ⟨← bool? c1, ← bool? c2, ← bool? c3, ← bool? c4, ← bool? c5⟩
      let nested : String → Except Err String := fun t =>
        match nerr with
        | "ok" => .ok (t ++ "'")
        | "lock" => .error .lock | "value" => .error .value | "type" => .error .type | "key" => .error .key
        | "attr" => .error .attr | _ => .error .runtime
      let ks ← key.mapM asAtom?
      pure (match setTuple (← fs.mapM asAtom?) ⟨← bool? ac, ← bool? nc⟩ (← hint? h) (← bool? inp) ck true nested tc ks a with
        | .error e => tagged "err" [errToSexp e]
        | .ok tc' => tagged "ok" [tcToSexp tc', attrValToSexp (getField tc' (ks.headD ""))])
  -- (c15.options decorator autocast frozen nocast shadow (field names…)) | (c15.options meta kwA kwN kwF kwShadow base)
  --   kw: true | false | none ; base: none | (autocast frozen nocast shadow)
  | "c15.options", (.atom "decorator" :: a :: f :: n :: sh :: [.list fs]) => do
      let names ← fs.mapM asAtom?
      let o : ClsOpts := ⟨← bool? a, ← bool? f, ← bool? n, ← bool? sh⟩
      pure (match createDecorated tdAttrs [idOf "_is_non_tensor", idOf "data"] o (names.map idOf) with
        | .error e => tagged "err" [errToSexp e]
        | .ok r => tagged "ok" [.atom (toString r.autocast), .atom (toString r.frozen), .atom (toString r.nocast), .atom (toString r.shadow)])
  | "c15.options", [.atom "meta", ka, kn, kf, ks, b] => do
      let ob? : Sexp → Option (Option Bool) := fun s => match s with
        | .atom "none" => some none
        | s => (bool? s).map some
      let base : Option ClsOpts ← match b with
        | .atom "none" => pure none
        | .list [a, f, n, sh] => do pure (some ⟨← bool? a, ← bool? f, ← bool? n, ← bool? sh⟩)
        | _ => none
      pure (match metaOpts (← ob? ka) (← ob? kn) (← ob? kf) (← bool? ks) base with
        | .error e => tagged "err" [errToSexp e]
        | .ok r => tagged "ok" [.atom (toString r.autocast), .atom (toString r.frozen), .atom (toString r.nocast), .atom (toString r.shadow)])
  -- (c15.pytree (fields…) (entries…) (nt…) nvalues): tree_unflatten(values', context of tree_flatten(tc)) with `nvalues` new leaves
  | "c15.pytree", [.list fs, .list es, .list nt, nv] => do
      let tc : TC (TDm String String) String := ⟨"C", ⟨← entries? es, false⟩, ← nt? nt⟩
      let n ← asNat? nv
      let (vals, ctx) := pytreeFlatten tc
      let vals' : List (Entry String String) := (List.range n).map (fun i => match vals[i]? with | some e => e | none => .leaf "extra")
      pure (match pytreeUnflatten (← fs.mapM asAtom?) tc.cls vals' ctx with
        | .error e => tagged "err" [errToSexp e]
        | .ok tc' => tagged "ok" [.list [.atom (toString vals.length), .list (ctx.keys.map .atom)], tcToSexp tc'])
  -- (c15.dropstale (entries…) (nt…)): `_non_tensordict` after the wrapper's pruning
  | "c15.dropstale", [.list es, .list nt] => do
      let tc : TC (TDm String String) String := ⟨"C", ⟨← entries? es, false⟩, ← nt? nt⟩
      pure (ntToSexp (dropStale tc).nt)
  -- (c15.update filterNone (dst entries…) (dst nt…) (src entries…) (src nt…))
  | "c15.update", [b, .list des, .list dnt, .list ses, .list snt] => do
      let dst : TC (TDm String String) String := ⟨"C", ⟨← entries? des, false⟩, ← nt? dnt⟩
      let src : TC (TDm String String) String := ⟨"C", ⟨← entries? ses, false⟩, ← nt? snt⟩
      pure (tcToSexp (updateTc (← bool? b) dst src))
  | _, _ => none

end TdVerif.Drive
