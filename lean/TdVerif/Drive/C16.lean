import TdVerif.Sexp

namespace TdVerif.Drive
open TdVerif Sexp

/-- line-protocol handler for C16: commands are named `c16.<something>` -/
def handleC16 (cmd : String) (args : List Sexp) : Option Sexp :=
  match cmd, args with
  | _, _ => none

end TdVerif.Drive
