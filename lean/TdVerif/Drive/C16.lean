import TdVerif.Sexp
import TdVerif.Model.C16NonTensor

namespace TdVerif.Drive
open TdVerif Sexp TdVerif.C16 TdVerif.C16.NT

namespace C16D

/-- `(sh <obj> (shape…))` | `(st <dim> member…)` -/
partial def nt? : Sexp → Option (NT String)
  | .list [.atom "sh", .atom o, .list s] => (nats? s).map (fun s => .shared o s)
  | .list (.atom "st" :: d :: ms) => do
      let d ← asNat? d
      let ms ← ms.mapM nt?
      pure (.stack ms d)
  | _ => none

partial def ntToSexp : NT String → Sexp
  | .shared o s => .list [.atom "sh", .atom o, ofNats s]
  | .stack ms d => .list (.atom "st" :: ofNat d :: ms.map ntToSexp)

partial def nestToSexp : Nest String → Sexp
  | .leaf o => .atom o
  | .list l => .list (.atom "l" :: l.map nestToSexp)

/-- nested list: `(l item…)` is a list, an atom a payload -/
partial def nest? : Sexp → Option (Nest String)
  | .atom a => some (.leaf a)
  | .list (.atom "l" :: items) => (items.mapM nest?).map .list
  | _ => none

/-- entries whose payloads are nested lists (results of `_from_list` / `_cat_non_tensor`): `(sh <nest> (shape…))` -/
partial def ntNestToSexp : NT (Nest String) → Sexp
  | .shared o s => .list [.atom "sh", nestToSexp o, ofNats s]
  | .stack ms d => .list (.atom "st" :: ofNat d :: ms.map ntNestToSexp)

def optInt? : Sexp → Option (Option Int) := asOptInt?

def maskBit? : Sexp → Option Bool
  | .atom "true" => some true
  | .atom "false" => some false
  | _ => none

def ix? : Sexp → Option Ix
  | .atom "none" => some .none
  | .atom "ell" => some .ell
  | .list [.atom "int", i] => (asInt? i).map .int
  | .list [.atom "slice", a, b, c] => do pure (.slice (← optInt? a) (← optInt? b) (← optInt? c))
  | .list (.atom "list" :: l) => (ints? l).map .list
  | .list (.atom "mask" :: l) => (l.mapM maskBit?).map .mask
  | _ => none

def ierrToSexp : IErr → Sexp
  | .index => .atom "index" | .empty => .atom "empty" | .shape => .atom "shape"

def resToSexp : Except IErr (NT String) → Sexp
  | .ok r => tagged "ok" [ntToSexp r]
  | .error e => tagged "err" [ierrToSexp e]

def flatten (r : NT String) : Sexp :=
  .list ((coords (shape r)).map (fun c => match getAt r c with | some o => .atom o | none => .atom "OUT"))

end C16D
open C16D

/-- line-protocol handler for C16: commands are named `c16.<something>` -/
def handleC16 (cmd : String) (args : List Sexp) : Option Sexp :=
  match cmd, args with
  | "c16.info", [r] => do
      let r ← nt? r
      pure (.list [ofNats (shape r), .atom (if wf r then "wf" else "illformed"), flatten r, nestToSexp (tolist r)])
  | "c16.getitem", [r, .list ix] => do
      let r ← nt? r
      let ix ← ix.mapM ix?
      pure (match getitem r ix with
        | .ok r' => tagged "ok" [ntToSexp r', ofNats (shape r'), flatten r']
        | .error e => tagged "err" [ierrToSexp e])
  | "c16.setitem", [r, .list ix, v] => do
      let r ← nt? r
      let ix ← ix.mapM ix?
      let v ← nt? v
      pure (match setitem r ix v with
        | .ok r' => tagged "ok" [ntToSexp r', flatten r']
        | .error e => tagged "err" [ierrToSexp e])
  -- (c16.storageset entry ix k value), k = number of dims the written index addresses explicitly;: `td[ix] = value` on a shared / memory-mapped holder; the index arrives resolved
  | "c16.storageset", [r, .list ix, k, v] => do
      let k ← asNat? k
      let r ← nt? r
      let ix ← ix.mapM ix?
      let v ← nt? v
      pure (match resolve (shape r) ix with
        | .error e => tagged "err" [ierrToSexp e]
        | .ok rix =>
          match storageSet r rix k v with
          | .ok r' => tagged "ok" [ntToSexp r', flatten r']
          | .error e => tagged "err" [ierrToSexp e])
  | "c16.unbind", [r, d] => do
      let r ← nt? r
      pure (.list ((unbind r (← asNat? d)).map ntToSexp))
  | "c16.stack", [cap, .list l, d] => do
      let l ← l.mapM nt?
      let cap := match cap with | .atom "true" => true | _ => false
      pure (ntToSexp (stackNT cap l (← asNat? d)))
  | "c16.tostack", [r] => do pure (ntToSexp (maybeToStack (← nt? r)))
  | "c16.unsqueeze", [r, d] => do pure (ntToSexp (unsqueeze (← nt? r) (← asNat? d)))
  | "c16.squeeze", [r, d] => do pure (ntToSexp (squeeze (← nt? r) (← asNat? d)))
  | "c16.permute", [r, .list p] => do pure (ntToSexp (permute (← nt? r) (← nats? p)))
  | "c16.reshape", [r, .list sh] => do pure (resToSexp (reshapeNT (← nt? r) (← nats? sh)))
  | "c16.view", [r, .list sh] => do pure (resToSexp (viewNT (← nt? r) (← nats? sh)))
  | "c16.split", [r, n, d] => do pure (.list ((splitNT (← nt? r) (← asNat? n) (← asNat? d)).map ntToSexp))
  | "c16.chunk", [r, n, d] => do pure (.list ((chunk (← nt? r) (← asNat? n) (← asNat? d)).map ntToSexp))
  -- (c16.fromlist fuel item…): `_from_list(datalist, ndim)`; fuel = ndim - 1, or large for `ndim=None`
  | "c16.fromlist", (f :: items) => do
      -- (the NonTensorStack constructor refuses members of different batch sizes: an ill-formed result is that error)
      let u := fromListN (← asNat? f) (← items.mapM nest?)
      pure (if wf u then tagged "ok" [ntNestToSexp u] else tagged "err" [.atom "shape"])
  -- (c16.cat dim item…): `_cat_non_tensor(items, dim)`
  | "c16.cat", (d :: items) => do
      pure (ntNestToSexp (catNT (← items.mapM nt?) (← asNat? d)))
  | "c16.todict", [r] => do pure (nestToSexp (toDictNT (← nt? r)))
  | "c16.update", [d, v] => do pure (resToSexp (updateNT (← nt? d) (← nt? v)))
  | "c16.ravel", [.list c, .list sh] => do pure (ofNat (ravel (← nats? c) (← nats? sh)))
  | _, _ => none

end TdVerif.Drive
