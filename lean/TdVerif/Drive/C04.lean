import TdVerif.Sexp
import TdVerif.Model.Key
import TdVerif.Model.C04Tree
import TdVerif.Model.C04Spec

namespace TdVerif.Drive
open TdVerif Sexp
open TdVerif.C04

namespace C04D

def hexVal (c : Char) : Option Nat :=
  if '0' ≤ c ∧ c ≤ '9' then some (c.toNat - '0'.toNat)
  else if 'a' ≤ c ∧ c ≤ 'f' then some (c.toNat - 'a'.toNat + 10)
  else none

/-- atoms carrying arbitrary strings travel as `h<hex of the utf-8 bytes>` -/
def unhex (s : String) : Option String :=
  match s.toList with
  | 'h' :: cs =>
    let rec go : List Char → List UInt8 → Option (List UInt8)
      | [], acc => some acc.reverse
      | [_], _ => none
      | a :: b :: r, acc => do
        let x ← hexVal a; let y ← hexVal b
        go r ((UInt8.ofNat (x * 16 + y)) :: acc)
    match go cs [] with
    | some bytes => String.fromUTF8? ⟨bytes.toArray⟩
    | none => none
  | _ => none

def hexDigit (n : Nat) : Char := if n < 10 then Char.ofNat (48 + n) else Char.ofNat (87 + n)

def tohex (s : String) : String :=
  "h" ++ String.ofList (s.toUTF8.toList.flatMap fun b => [hexDigit (b.toNat / 16), hexDigit (b.toNat % 16)])

partial def keyOf : Sexp → Option Key
  | .atom "bad" => some .bad
  | .list [.atom "s", .atom s] => (unhex s).map Key.str
  | .list (.atom "t" :: ks) => (ks.mapM keyOf).map Key.tup
  | _ => none

partial def entryOf : Sexp → Option Entry
  | .list [.atom "t", n] => (asNat? n).map (Entry.leaf false)
  | .list [.atom "n", n] => (asNat? n).map (Entry.leaf true)
  | .list (.atom "d" :: kvs) =>
    (kvs.mapM fun (kv : Sexp) => match kv with
      | Sexp.list [Sexp.atom k, v] => do pure ((← unhex k), (← entryOf v))
      | _ => none).map Entry.node
  | _ => none

partial def entryTo : Entry → Sexp
  | .leaf false v => .list [.atom "t", ofNat v]
  | .leaf true v => .list [.atom "n", ofNat v]
  | .node kids => .list (.atom "d" :: kids.map fun kv => .list [.atom (tohex kv.1), entryTo kv.2])

def pathTo (p : Path) : Sexp := .list (p.map fun s => .atom (tohex s))

/-- `_unravel_key_to_tuple` (C++ transcription in Model/Key.lean) -/
def pathOfKey (k : Key) : Path := Key.unravelTupCpp k

/-- `unravel_key` (C++ transcription): used by rename_key_, select, exclude — invalid members of a tuple are dropped -/
def pathOfKeyK (k : Key) : Path :=
  match Key.unravelKeyCpp k with
  | .s x => [x]
  | .t l => l
  | .err => []

def isTupleKey : Key → Bool
  | .tup _ => true
  | _ => false

def errTo : Err → String
  | .key => "key" | .value => "value" | .attr => "attr" | .type => "type" | .index => "index" | .runtime => "runtime"

def outTo : Out → Sexp
  | .ok => .list [.atom "ok"]
  | .val none => .list [.atom "ok", .atom "none"]
  | .val (some v) => .list [.atom "ok", entryTo v]
  | .res r => .list (.atom "res" :: r.map entryTo)
  | .err e => .list [.atom "err", .atom (errTo e)]

def boolOf : Sexp → Option Bool
  | .atom "true" => some true
  | .atom "false" => some false
  | _ => none

def charOf (s : String) : Option Char :=
  match s.toList with
  | [c] => some c
  | _ => none

def opOf : Sexp → Option Op
  | .list [.atom "set", k, v] => do pure (.set (pathOfKey (← keyOf k)) (← entryOf v))
  | .list [.atom "del", k] => do pure (.del (pathOfKey (← keyOf k)))
  | .list [.atom "pop", k, d] => do pure (.pop (pathOfKey (← keyOf k)) (← boolOf d))
  | .list [.atom "rename", o, n, s] => do pure (.rename (pathOfKeyK (← keyOf o)) (pathOfKeyK (← keyOf n)) (← boolOf s))
  | .list [.atom "setdefault", k, v] => do
      let kk ← keyOf k
      pure (.setdefault (pathOfKey kk) (isTupleKey kk) (← entryOf v))
  | .list (.atom "update" :: items) => do
      let its ← items.mapM fun (it : Sexp) => match it with
        | Sexp.list [k, v] => do pure (pathOfKey (← keyOf k), (← entryOf v))
        | _ => none
      pure (.update its)
  | .list [.atom "select", .list ks, s, i] => do
      pure (.select ((← ks.mapM keyOf).map pathOfKeyK) (← boolOf s) (← boolOf i))
  | .list [.atom "exclude", .list ks, i] => do
      pure (.exclude ((← ks.mapM keyOf).map pathOfKeyK) (← boolOf i))
  | .list [.atom "flatten", .atom sep, i] => do pure (.flatten (← unhex sep) (← boolOf i))
  | .list [.atom "unflatten", .atom sep, i] => do pure (.unflatten (← unhex sep) (← boolOf i))
  | .list [.atom "split", .list sets, i, s] => do
      let ss ← sets.mapM fun (ks : Sexp) => match ks with
        | Sexp.list l => do pure ((← l.mapM keyOf).map pathOfKey)
        | _ => none
      pure (.split ss (← boolOf i) (← boolOf s))
  | .list [.atom "clear"] => some .clear
  | .list [.atom "empty"] => some .empty
  | _ => none

def exceptBool : Except Err Bool → Sexp
  | .ok b => .atom (if b then "true" else "false")
  | .error e => .atom ("err:" ++ errTo e)

/-- base.py:TensorDictBase.__contains__ : a `str` goes to `keys()`, a tuple is unravelled and goes to `keys(True)` -/
def baseContains (k : Key) (t : Entry) : Except Err Bool :=
  match k with
  | .str s => containsFlat [s] t
  | .tup _ =>
    match Key.unravelKeyCpp k with
    | .s x => containsNested [x] t
    | .t [] => .error .runtime
    | .t l => containsNested l t
    | .err => .error .runtime
  | .bad => .error .runtime

def allCfgs : List ViewCfg :=
  [false, true].flatMap fun a => [false, true].flatMap fun b => [false, true].flatMap fun c =>
    [false, true].map fun d => ⟨a, b, c, d⟩

def b01 (b : Bool) : String := if b then "1" else "0"

def obsTo (t : Entry) (probes : List Key) : Sexp :=
  let views := allCfgs.map fun c =>
    .list [.atom (b01 c.nested ++ b01 c.leavesOnly ++ b01 c.sort ++ b01 c.ntLeaf),
           .list ((keysView c t).map pathTo),
           .list ((itemsView c t).map fun kv => .list [pathTo kv.1, entryTo kv.2])]
  let pr := probes.map fun k =>
    let p := pathOfKey k
    .list [exceptBool (baseContains k t), exceptBool (containsNested p t),
           match getTuple p t with
           | .ok none => .atom "none"
           | .ok (some v) => entryTo v
           | .error e => .atom ("err:" ++ errTo e)]
  .list [.list views, .list pr, .atom (if isEmpty t then "true" else "false")]

end C04D

open C04D in
/-- line-protocol handler for C04: commands are named `c04.<something>` -/
def handleC04 (cmd : String) (args : List Sexp) : Option Sexp :=
  match cmd, args with
  | "c04.step", [t, op, .list probes] => do
      let t ← entryOf t
      let op ← opOf op
      let ks ← probes.mapM keyOf
      let (t', out) := step t op
      pure (.list [entryTo t', outTo out, obsTo t' ks])
  | "c04.member", [t, op] => do
      let t ← entryOf t
      let op ← opOf op
      let (t', out) := C04.stepMember t op
      pure (.list [entryTo t', outTo out])
  | "c04.dstep", [t, op] => do
      let t ← entryOf t
      let op ← opOf op
      let (t', out) := C04.dstep t op
      pure (.list [entryTo t', outTo out])
  | "c04.unravel", [k] => do
      let k ← keyOf k
      pure (.list [pathTo (Key.unravelTupCpp k),
        match Key.unravelKeyCpp k with
        | .s x => .list [.atom "s", .atom (tohex x)]
        | .t l => .list (.atom "t" :: l.map fun s => .atom (tohex s))
        | .err => .atom "err"])
  | _, _ => none

end TdVerif.Drive
