import TdVerif.Sexp

namespace TdVerif.Drive
open TdVerif Sexp

/-- line-protocol handler for C04: commands are named `c04.<something>` -/
def handleC04 (cmd : String) (args : List Sexp) : Option Sexp :=
  match cmd, args with
  | _, _ => none

end TdVerif.Drive
