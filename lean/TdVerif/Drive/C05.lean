import TdVerif.Sexp

namespace TdVerif.Drive
open TdVerif Sexp

/-- line-protocol handler for C05: commands are named `c05.<something>` -/
def handleC05 (cmd : String) (args : List Sexp) : Option Sexp :=
  match cmd, args with
  | _, _ => none

end TdVerif.Drive
