import TdVerif.Sexp
import TdVerif.Model.C05Lock
import TdVerif.Gen.LockTable

namespace TdVerif.Drive
open TdVerif Sexp TdVerif.C05

namespace C05D

def strs? (l : List Sexp) : Option (List String) := l.mapM asAtom?

def eff? : Sexp → Option Eff
  | .list [.atom "addleaf", .atom k, o] => do pure (.addLeaf k (← asNat? o))
  | .list [.atom "addkid", .atom k, j] => do pure (.addKid k (← asNat? j))
  | .list [.atom "del", .atom k] => some (.del k)
  | .list [.atom "rename", .atom k, .atom k'] => some (.rename k k')
  | .list (.atom "keep" :: ks) => do pure (.keep (← strs? ks))
  | .list (.atom "drop" :: ks) => do pure (.drop (← strs? ks))
  | .list [.atom "clear"] => some .clear
  | .list [.atom "write", .atom k] => some (.write k)
  | _ => none

def bool? : Sexp → Option Bool
  | .atom "true" => some true
  | .atom "false" => some false
  | _ => none

/-- guard of a public mutator, looked up in the table regenerated from the source -/
def guardOf (cls meth : String) : Option Guard :=
  (Gen.LockTable.api.find? (fun a => a.cls == cls && a.meth == meth)).map (·.guard)

def kid? : Sexp → Option (String × Nat)
  | .list [.atom k, j] => do pure (k, ← asNat? j)
  | _ => none

def leaf? : Sexp → Option (String × Nat × Nat)
  | .list [.atom k, o, v] => do pure (k, ← asNat? o, ← asNat? v)
  | _ => none

def ev? : Sexp → Option Ev
  | .list [.atom "lock", i] => do pure (.lock (← asNat? i))
  | .list [.atom "unlock", i] => do pure (.unlock (← asNat? i))
  | .list [.atom "ctor", .list ks, .list ls, b] => do pure (.viaCtor (← ks.mapM kid?) (← ls.mapM leaf?) (← bool? b))
  | .list [.atom "lazy", .list ms, b] => do pure (.lazyOver (← nats? ms) (← bool? b))
  | .list [.atom "share", i] => do pure (.viaShare (← asNat? i))
  | .list [.atom "memmap", i] => do pure (.viaMemmap (← asNat? i))
  | .list [.atom "gc", i] => do pure (.gcDrop (← asNat? i))
  | .list [.atom "mut", i, .atom cls, .atom meth, bp, e] => do
      pure (.mut (← asNat? i) ⟨← guardOf cls meth, ← bool? bp, ← eff? e⟩)
  | .list [.atom "mutp", i, .list path, .atom cls, .atom meth, bp, e] => do
      pure (.mutPath (← asNat? i) (← strs? path) ⟨← guardOf cls meth, ← bool? bp, ← eff? e⟩)
  | .list [.atom "withlock", i] => do pure (.withLock (← asNat? i))
  | .list [.atom "withunlock", i] => do pure (.withUnlock (← asNat? i))
  | .list [.atom "exit"] => some .exitCtx
  | .list [.atom "unlockshallow", i] => do pure (.unlockShallow (← asNat? i))
  | _ => none

def outAtom : Out → String
  | .ok => "ok"
  | .okNoop => "ok"
  | .errLock => "lock"
  | .errKey => "key"
  | .errOther => "other"

def insertSorted (x : Nat) : List Nat → List Nat
  | [] => [x]
  | y :: ys => if x ≤ y then x :: y :: ys else y :: insertSorted x ys
def sortNat (l : List Nat) : List Nat := l.foldr insertSorted []
def dedupSorted : List Nat → List Nat
  | [] => []
  | [x] => [x]
  | x :: y :: r => if x = y then dedupSorted (y :: r) else x :: dedupSorted (y :: r)

def insertSortedS (x : String × Sexp) : List (String × Sexp) → List (String × Sexp)
  | [] => [x]
  | y :: ys => if x.1 ≤ y.1 then x :: y :: ys else y :: insertSortedS x ys

/-- canonical view of the whole heap: per live node its `is_locked`, raw flag, the *live* lock parents (sorted set)
and the storage dict (sorted by key) -/
def view (h : Heap) : Sexp :=
  .list ((List.range h.size).map (fun i =>
    let n := h.node i
    if !n.alive then Sexp.atom "dead" else
    let flag := match n.flag with | some true => "t" | some false => "f" | none => "n"
    let ps := dedupSorted (sortNat ((parentsOf h i).filter (fun p => live h p)))
    let entries : List (String × Sexp) :=
      n.kids.map (fun e => (e.1, Sexp.list [.atom e.1, .atom "n", ofNat e.2])) ++
      n.leaves.map (fun e => (e.1, Sexp.list [.atom e.1, .atom "l", ofNat e.2.1, ofNat e.2.2]))
    Sexp.list [ofNat i, .atom (if isLocked h i then "L" else "U"), .atom flag, ofNats ps,
      .list ((entries.foldr insertSortedS []).map (·.2))]))

/-- calls made through a view of node `i` (`_SubTensorDict`: sublock / subunlock; legacy lazy view: customlock / customunlock) -/
def viewEv? (s : State) : Sexp → Option (State × Out)
  | .list [.atom "sublock", i] => do let r := subLockEv s.heap (← asNat? i); pure ({ s with heap := r.1 }, r.2)
  | .list [.atom "subunlock", i] => do let r := subUnlockEv s.heap (← asNat? i); pure ({ s with heap := r.1 }, r.2)
  | .list [.atom "customlock", i] => do let r := customLockEv s.heap (← asNat? i); pure ({ s with heap := r.1 }, r.2)
  | .list [.atom "customunlock", i] => do let r := customUnlockEv s.heap (← asNat? i); pure ({ s with heap := r.1 }, r.2)
  | _ => none

partial def runEvents (s : State) : List Sexp → List Sexp → Option (List Sexp)
  | [], acc => some acc.reverse
  | e :: rest, acc => do
      match viewEv? s e with
      | some r => runEvents r.1 rest (Sexp.list [.atom (outAtom r.2), view r.1.heap] :: acc)
      | none =>
        let ev ← ev? e
        let r := step s ev
        runEvents r.1 rest (Sexp.list [.atom (outAtom r.2), view r.1.heap] :: acc)

def klassAtom : Gen.LockTable.Klass → String
  | .structural => "structural"
  | .writer => "writer"
  | .exempt => "exempt"
  | .lockapi => "lockapi"
  | .frame => "frame"
  | .unknown => "unknown"

end C05D

open C05D in
/-- line-protocol handler for C05 -/
def handleC05 (cmd : String) (args : List Sexp) : Option Sexp :=
  match cmd, args with
  | "c05.run", evs => do pure (.list (← runEvents { heap := Heap.empty } evs []))
  | "c05.predict", [.atom cls, .atom meth] =>
      match Gen.LockTable.api.find? (fun a => a.cls == cls && a.meth == meth) with
      | some a => some (.list [.atom (klassAtom a.klass), .atom (toString (a.guard.blocks false)),
                               .atom (toString (a.guard.blocks true)), .atom (toString a.kw)])
      | none => some (.atom "absent")
  | _, _ => none

end TdVerif.Drive
