import TdVerif.Sexp

namespace TdVerif.Drive
open TdVerif Sexp

/-- line-protocol handler for C12: commands are named `c12.<something>` -/
def handleC12 (cmd : String) (args : List Sexp) : Option Sexp :=
  match cmd, args with
  | _, _ => none

end TdVerif.Drive
