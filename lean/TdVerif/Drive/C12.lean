import TdVerif.Sexp
import TdVerif.Model.C12Chunk
import TdVerif.Model.C12Iter
import TdVerif.Model.C12Pool
import TdVerif.Model.C12Tensor

namespace TdVerif.Drive
open TdVerif Sexp TdVerif.C12

namespace C12D

def asOptNat? : Sexp → Option (Option Nat)
  | .atom "none" => some none
  | .atom s => s.toNat?.map some
  | _ => none

def asBool? : Sexp → Option Bool
  | .atom "true" => some true
  | .atom "false" => some false
  | _ => none

def asOptBool? : Sexp → Option (Option Bool)
  | .atom "none" => some none
  | .atom "true" => some (some true)
  | .atom "false" => some (some false)
  | _ => none

def splitErrAtom : SplitErr → String
  | .both => "both"
  | .chunks => "chunks"
  | .zerodiv => "zerodiv"

def pieceToSexp (n : Nat) : Piece → Sexp
  | .rng s e => .list [.atom "r", ofNat s, ofNat e, ofNats (Piece.rows n (.rng s e))]
  | .idx i => .list [.atom "i", ofNat i, ofNats (Piece.rows n (.idx i))]

def eagerToSexp : EagerCall → Sexp
  | .chunk k => tagged "chunk" [ofNat k]
  | .split ss => tagged "split" [ofNat ss]
  | .unbind => tagged "unbind" []

/-- a result row: `none` = row of the out buffer never written, `some (src, lo, len)` = row `src`
    of the input, produced by the call on the chunk starting at `lo` of length `len` (0 = unbound) -/
abbrev Row := Option (Nat × Nat × Nat)

def rowToSexp : Row → Sexp
  | none => .atom "u"
  | some (a, b, c) => .list [ofNat a, ofNat b, ofNat c]

/-- the instrumented worker function used by the harness: identity on rows, tags every row with
    the first row and the length of the chunk it was called on; returns `None` for the chunks whose
    first row is flagged in `noneAt`. -/
def tagFn (noneAt : List Nat) (p : Piece) (x : List Nat) : Option (List Row) :=
  let lo := x.headD 0
  if noneAt.getD lo 0 = 1 then none
  else
    let len := match p with
      | .rng _ _ => x.length
      | .idx _ => 0
    some (x.map fun r => some (r, lo, len))

def outKind? : Sexp → Option OutKind
  | .atom "absent" => some .absent
  | .atom "regular" => some .regular
  | .atom "shared" => some .shared
  | _ => none

def mapErrAtom : MapErr → String
  | .split e => splitErrAtom e
  | .update => "update"
  | .zip => "zip"

partial def treeOfSexp : Sexp → Option (Tree Nat)
  | .list [.atom "l", v] => (asNat? v).map .leaf
  | .list (.atom "n" :: kids) =>
    (kids.mapM fun (k : Sexp) => match k with
      | Sexp.list [Sexp.atom key, t] => (treeOfSexp t).map fun t' => (key, t')
      | _ => none).map Tree.node
  | _ => none

partial def treeToSexp : Tree Nat → Sexp
  | .leaf v => .list [.atom "l", ofNat v]
  | .node kids => .list (.atom "n" :: kids.map fun (k, t) => .list [.atom k, treeToSexp t])

def kidsOf : Tree Nat → List (String × Tree Nat)
  | .node kids => kids
  | .leaf _ => []

/-- all coordinates of a shape in row-major order -/
def coords : List Nat → List (List Nat)
  | [] => [[]]
  | n :: rest => (List.range n).flatMap fun i => (coords rest).map fun c => i :: c

/-- row-major flat index of a coordinate -/
def ravel (shape c : List Nat) : Nat :=
  (shape.zip c).foldl (fun acc p => acc * p.1 + p.2) 0

end C12D
open C12D

/-- line-protocol handler for C12: commands are named `c12.<something>` -/
def handleC12 (cmd : String) (args : List Sexp) : Option Sexp :=
  match cmd, args with
  -- (c12.split n cs nc workers gen) -> (ok piece…) | (err kind)
  | "c12.split", [n, cs, nc, w, gen] => do
      let n ← asNat? n; let cs ← asOptNat? cs; let nc ← asOptNat? nc; let w ← asNat? w; let gen ← asBool? gen
      match splitTensordict n cs nc w gen with
      | .ok ps => pure (tagged "ok" (ps.map (pieceToSexp n)))
      | .error e => pure (tagged "err" [.atom (splitErrAtom e)])
  -- (c12.eager n cs nc workers) -> (ok (chunk k)|(split s)|(unbind)) | (err kind)
  | "c12.eager", [n, cs, nc, w] => do
      let n ← asNat? n; let cs ← asOptNat? cs; let nc ← asOptNat? nc; let w ← asNat? w
      match eagerCall n cs nc w with
      | .ok c => pure (tagged "ok" [eagerToSexp c])
      | .error e => pure (tagged "err" [.atom (splitErrAtom e)])
  -- (c12.tdsplit n ss) / (c12.tdchunk n k): TensorDict.split / chunk on a dim of size n
  | "c12.tdsplit", [n, ss] => do
      let n ← asNat? n; let ss ← asNat? ss
      pure (tagged "ok" ((splitSlices n ss).map fun p => pieceToSexp n (.rng p.1 p.2)))
  | "c12.tdchunk", [n, k] => do
      let n ← asNat? n; let k ← asNat? k
      match chunkSlices n k with
      | some l => pure (tagged "ok" (l.map fun p => pieceToSexp n (.rng p.1 p.2)))
      | none => pure (tagged "err" [.atom "chunks"])
  -- (c12.map n cs nc workers gen outkind outlen (noneAt…)) -> (ok ret (out…)) | (err kind)
  | "c12.map", [n, cs, nc, w, gen, kind, outlen, .list noneAt] => do
      let n ← asNat? n; let cs ← asOptNat? cs; let nc ← asOptNat? nc; let w ← asNat? w; let gen ← asBool? gen
      let kind ← outKind? kind; let outlen ← asNat? outlen; let noneAt ← nats? noneAt
      let out : List Row := List.replicate outlen none
      match mapModel (List.range n) cs nc w gen (tagFn noneAt) kind out with
      | .ok (ret, out') =>
        let r := match ret with
          | none => Sexp.atom "none"
          | some rows => .list (rows.map rowToSexp)
        pure (tagged "ok" [r, .list (out'.map rowToSexp)])
      | .error e => pure (tagged "err" [.atom (mapErrAtom e)])
  -- (c12.mapiter n cs nc w gen (noneAt…)) -> (ok item…) each item `none` or the tagged rows of one chunk | (err kind)
  | "c12.mapiter", [n, cs, nc, w, gen, .list noneAt] => do
      let n ← asNat? n; let cs ← asOptNat? cs; let nc ← asOptNat? nc; let w ← asNat? w; let gen ← asBool? gen
      let noneAt ← nats? noneAt
      match mapIterModel (List.range n) cs nc w gen (tagFn noneAt) with
      | .ok ys => pure (tagged "ok" (ys.map fun y => match y with
          | none => Sexp.atom "none"
          | some rows => .list (rows.map rowToSexp)))
      | .error (.split e) => pure (tagged "err" [.atom (splitErrAtom e)])
      | .error .shuffleEager => pure (tagged "err" [.atom "shuffle-eager"])
  -- (c12.mapitershuffle n cs nc w gen (rp…) (order…)) -> (ok (rows of chunk…)…) | (err kind)
  | "c12.mapitershuffle", [n, cs, nc, w, gen, .list rp, .list order] => do
      let n ← asNat? n; let cs ← asOptNat? cs; let nc ← asOptNat? nc; let w ← asNat? w; let gen ← asBool? gen
      let rp ← nats? rp; let order ← nats? order
      match mapIterShuffleModel (List.range n) cs nc w gen rp order (fun x => some x) with
      | .ok ys => pure (tagged "ok" (ys.map fun y => match y with
          | none => Sexp.atom "none"
          | some rows => ofNats rows))
      | .error (.split e) => pure (tagged "err" [.atom (splitErrAtom e)])
      | .error .shuffleEager => pure (tagged "err" [.atom "shuffle-eager"])
  -- (c12.mappinned n cs (noneAt…)): the reassembly loop of the pinned tree (regression anchor)
  | "c12.mappinned", [n, cs, .list noneAt] => do
      let n ← asNat? n; let cs ← asNat? cs; let noneAt ← nats? noneAt
      match splitTensordict n (some cs) none 1 false with
      | .ok ps =>
        match mapRegularPinned (List.range n) ps (tagFn noneAt) (List.replicate n (none : Row)) with
        | some out' => pure (tagged "ok" [.list (out'.map rowToSexp)])
        | none => pure (tagged "err" [.atom "update"])
      | .error e => pure (tagged "err" [.atom (splitErrAtom e)])
  -- (c12.pool fe tree (order…) (noneVals…)) -> (ok (submitted…) rebuilt sequential) | (err)
  | "c12.pool", [fe, tree, .list order, .list noneVals] => do
      let fe ← asOptBool? fe; let tree ← treeOfSexp tree; let order ← nats? order; let noneVals ← nats? noneVals
      let kids := kidsOf tree
      let fn : Nat → Option Nat := fun v => if noneVals.contains v then none else some v
      let sub := (submitKids kids 0).2
      let tr : Option (Tree Nat) → Sexp := fun t => match t with
        | none => .atom "none"
        | some t => treeToSexp t
      let seq := applyTree fe fn (.node kids)
      match multithreadApply fe fn kids order with
      | some r => pure (tagged "ok" [ofNats sub, tr r, tr seq])
      | none => pure (tagged "err" [ofNats sub])
  -- (c12.tcat (shape…) d ss): split a provenance tensor along d in pieces of ss and concatenate back:
  -- (shape of the result, its values in row-major order)
  | "c12.tcat", [.list shape, d, ss] => do
      let shape ← nats? shape; let d ← asNat? d; let ss ← asNat? ss
      let t : T Nat := ⟨shape, ravel shape⟩
      let n := (shape[d]?).getD 0
      let sl := fun (p : Nat × Nat) => narrow d p.1 (p.2 - p.1) t
      let r := catList d (sl (0, min n ss)) ((splitLoop n ss (min n ss)).map sl)
      pure (.list [ofNats r.shape, ofNats ((coords r.shape).map r.get)])
  | _, _ => none

end TdVerif.Drive
