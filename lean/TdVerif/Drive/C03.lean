import TdVerif.Sexp

namespace TdVerif.Drive
open TdVerif Sexp

/-- line-protocol handler for C03: commands are named `c03.<something>` -/
def handleC03 (cmd : String) (args : List Sexp) : Option Sexp :=
  match cmd, args with
  | _, _ => none

end TdVerif.Drive
