import TdVerif.Sexp
import TdVerif.Model.C03Index

namespace TdVerif.Drive
open TdVerif Sexp
open TdVerif.C03

namespace C03D

def bools? (l : List Sexp) : Option (List Bool) :=
  l.mapM (fun (s : Sexp) => match s with
    | Sexp.atom "1" => some true
    | Sexp.atom "0" => some false
    | _ => none)

def shape? : Sexp → Option Shape
  | .list (.atom _ :: l) => nats? l
  | _ => none

def ix? : Sexp → Option Ix
  | .atom "none" => some .none
  | .atom "ell" => some .ell
  | .list [.atom "int", i] => (asInt? i).map .int
  | .list [.atom "slice", a, b, c] => do pure (.slice (← asOptInt? a) (← asOptInt? b) (← asOptInt? c))
  | .list (.atom "list" :: l) => (ints? l).map .list
  | .list [.atom "range", a, b, c] => do pure (.range (← asInt? a) (← asInt? b) (← asInt? c))
  | .list [.atom "tensor", s, .list d] => do pure (.tensor (← shape? s) (← ints? d))
  | .list [.atom "mask", s, .list d] => do pure (.mask (← shape? s) (← bools? d))
  | _ => none

def pyIndex? : Sexp → Option PyIndex
  | .list [.atom "single", x] => (ix? x).map .single
  | .list (.atom "tuple" :: l) => (l.mapM ix?).map .tuple
  | _ => none

def ixToSexp : Ix → Sexp
  | .int i => tagged "int" [ofInt i]
  | .slice a b c => tagged "slice" [ofOptInt a, ofOptInt b, ofOptInt c]
  | .none => .atom "none"
  | .ell => .atom "ell"
  | .list l => tagged "list" (l.map ofInt)
  | .range a b c => tagged "range" [ofInt a, ofInt b, ofInt c]
  | .tensor s d => tagged "tensor" [tagged "shape" (s.map ofNat), ofInts d]
  | .mask s d => tagged "mask" [tagged "shape" (s.map ofNat), .list (d.map (fun b => .atom (if b then "1" else "0")))]

def pyIndexToSexp : PyIndex → Sexp
  | .single x => tagged "single" [ixToSexp x]
  | .tuple l => tagged "tuple" (l.map ixToSexp)

def errToSexp : Err → Sexp
  | .index => tagged "err" [.atom "index"]
  | .runtime => tagged "err" [.atom "runtime"]
  | .value => tagged "err" [.atom "value"]
  | .type => tagged "err" [.atom "type"]

def names? : Sexp → Option (Option Td.Names)
  | .atom "none" => some none
  | .list (.atom "names" :: l) =>
    (l.mapM (fun (s : Sexp) => match s with
      | Sexp.atom "none" => some (none : Option String)
      | Sexp.atom a => some (some a)
      | _ => (none : Option (Option String)))).map some
  | _ => none

def namesToSexp : Option Td.Names → Sexp
  | none => .atom "none"
  | some l => tagged "names" (l.map (fun n => match n with | none => Sexp.atom "none" | some a => Sexp.atom a))

/-- a result leaf materialised: shape, flat source offset of every element (row-major), view bit -/
def leafToSexp (srcShape : Shape) (r : TorchSpec.IndexResult) : Sexp :=
  tagged "leaf" [tagged "shape" (r.shape.map ofNat),
    tagged "src" ((coords r.shape).map (fun c => ofNat (ravel srcShape (r.src c)))),
    .atom (if r.view then "view" else "copy")]

def nested? : Sexp → Option Td.Nested
  | .list [e, .list ls] => do pure { extra := (← shape? e), leaves := (← ls.mapM shape?) }
  | _ => none

def getResToSexp (td : Td.TD) : Except Err Td.GetRes → Sexp
  | .error e => errToSexp e
  | .ok .self => tagged "self" []
  | .ok (.new bs names leaves nested) =>
    tagged "ok" [tagged "bs" (bs.map ofNat), namesToSexp names,
      tagged "leaves" ((td.leaves.zip leaves).map (fun (feat, r) => leafToSexp (td.bs ++ feat) r)),
      tagged "nested" ((td.nested.zip nested).map (fun (nd, (nbs, ls)) =>
        .list [tagged "bs" (nbs.map ofNat),
          .list ((nd.leaves.zip ls).map (fun (feat, r) => leafToSexp (td.bs ++ nd.extra ++ feat) r))]))]

end C03D

open C03D in
/-- line-protocol handler for C03: commands are named `c03.<something>` -/
def handleC03 (cmd : String) (args : List Sexp) : Option Sexp :=
  match cmd, args with
  -- TorchSpec on a bare tensor of shape `dims`
  | "c03.torch", [dims, idx] => do
      let dims ← shape? dims; let idx ← pyIndex? idx
      pure (match TorchSpec.index dims idx.items with
        | .error e => errToSexp e
        | .ok r => tagged "ok" [leafToSexp dims r])
  -- transcribed helpers
  | "c03.ell", [n, idx] => do
      let n ← asNat? n; let idx ← pyIndex? idx
      pure (match Td.convertEllipsis idx n with
        | .error e => errToSexp e
        | .ok r => tagged "ok" [pyIndexToSexp r])
  | "c03.bs", [bs, idx] => do
      let bs ← shape? bs; let idx ← pyIndex? idx
      pure (match Td.getitemBatchSize bs idx with
        | .error e => errToSexp e
        | .ok r => tagged "ok" (r.map ofNat))
  | "c03.names", [nm, n, idx] => do
      let nm ← names? nm; let n ← asNat? n; let idx ← pyIndex? idx
      pure (match Td.namesIdx nm n idx with
        | .error e => errToSexp e
        | .ok r => tagged "ok" [namesToSexp r])
  -- td[idx]
  | "c03.get", [bs, nm, .list (.atom "leaves" :: ls), .list (.atom "nested" :: ns), idx] => do
      let td : Td.TD := { bs := (← shape? bs), names := (← names? nm), leaves := (← ls.mapM shape?), nested := (← ns.mapM nested?) }
      let idx ← pyIndex? idx
      pure (getResToSexp td (Td.getitem td idx))
  -- td[idx] = value (scalar / tensor of shape v): per leaf, for every position the flat offset in `value` written there, -1 = untouched
  | "c03.set", [bs, .list (.atom "leaves" :: ls), .list (.atom "nested" :: ns), idx, v] => do
      let td : Td.TD := { bs := (← shape? bs), names := none, leaves := (← ls.mapM shape?), nested := (← ns.mapM nested?) }
      let idx ← pyIndex? idx; let v ← shape? v
      let shapes := td.leaves.map (td.bs ++ ·) ++ (td.nested.map (fun nd => nd.leaves.map (td.bs ++ nd.extra ++ ·))).flatten
      pure (match Td.setitem td idx v with
        | .error e => errToSexp e
        | .ok ws => tagged "ok" ((shapes.zip ws).map (fun (sh, w) =>
            Sexp.list ((coords sh).map (fun c => match w c with
              | none => ofInt (-1)
              | some vc => ofNat (ravel v vc))))))
  -- td[idx] = dict / TensorDict: (c03.setcoll bs leaves idx dict|td (vb ..) ((target|new (shape ..)) ...))
  | "c03.setcoll", [bs, .list (.atom "leaves" :: ls), idx, .atom kind, vb, .list es] => do
      let td : Td.TD := { bs := (← shape? bs), names := none, leaves := (← ls.mapM shape?), nested := [] }
      let idx ← pyIndex? idx; let vb ← shape? vb
      let entries ← es.mapM (fun (e : Sexp) => match e with
        | Sexp.list [Sexp.atom "new", sh] => (shape? sh).map (fun s => ({ target := none, shape := s } : Td.VEntry))
        | Sexp.list [t, sh] => do pure ({ target := some (← asNat? t), shape := (← shape? sh) } : Td.VEntry)
        | _ => none)
      pure (match Td.setitemColl td idx (kind == "dict") vb entries with
        | .error e => errToSexp e
        | .ok ws => tagged "ok" ((entries.zip ws).map (fun (e, w) =>
            Sexp.list [match w.target with | some j => ofNat j | none => Sexp.atom "new",
              tagged "shape" (w.leafShape.map ofNat),
              Sexp.list ((coords w.leafShape).map (fun c => match w.written c with
                | none => ofInt (-1)
                | some vc => ofNat (ravel e.shape vc)))])))
  -- td._get_sub_tensordict(idx): batch size, names, every leaf as seen through the sub-tensordict
  | "c03.sub", [bs, nm, .list (.atom "leaves" :: ls), idx] => do
      let td : Td.TD := { bs := (← shape? bs), names := (← names? nm), leaves := (← ls.mapM shape?), nested := [] }
      let idx ← pyIndex? idx
      pure (match Td.subInit td idx with
        | .error e => errToSexp e
        | .ok sub =>
          match Td.subNames td sub, (List.range td.leaves.length).mapM (Td.subGet td sub) with
          | .ok nms, .ok rs =>
            tagged "ok" [tagged "bs" (sub.bs.map ofNat), namesToSexp nms,
              tagged "leaves" ((td.leaves.zip rs).map (fun (feat, r) => leafToSexp (td.bs ++ feat) r))]
          | .error e, _ => tagged "ok" [tagged "bs" (sub.bs.map ofNat), errToSexp e]
          | _, .error e => tagged "ok" [tagged "bs" (sub.bs.map ofNat), errToSexp e])
  -- sub.set_(key, value) / sub.set(new key, value): (c03.subset bs leaves idx target|new (shape ..))
  | "c03.subset", [bs, .list (.atom "leaves" :: ls), idx, t, sh] => do
      let td : Td.TD := { bs := (← shape? bs), names := none, leaves := (← ls.mapM shape?), nested := [] }
      let idx ← pyIndex? idx; let sh ← shape? sh
      let target ← (match t with | Sexp.atom "new" => some (none : Option Nat) | t => (asNat? t).map some)
      pure (match Td.subInit td idx with
        | .error e => errToSexp e
        | .ok sub =>
          match Td.subSet td sub target sh with
          | .error e => errToSexp e
          | .ok w => tagged "ok" [tagged "shape" (w.leafShape.map ofNat),
              Sexp.list ((coords w.leafShape).map (fun c => match w.written c with
                | none => ofInt (-1)
                | some vc => ofNat (ravel sh vc)))])
  -- td[idx] = TensorDict({nested_j: TensorDict(entries, vb ++ cbx)}, vb): (c03.setcolln bs (e ..) leaves-of-nested idx (vb ..) (cbx ..) entries)
  | "c03.setcolln", [bs, ex, .list (.atom "leaves" :: ls), idx, vb, cbx, .list es] => do
      let nd : Td.Nested := { extra := (← shape? ex), leaves := (← ls.mapM shape?) }
      let td : Td.TD := { bs := (← shape? bs), names := none, leaves := [], nested := [nd] }
      let idx ← pyIndex? idx; let vb ← shape? vb; let cbx ← shape? cbx
      let entries ← es.mapM (fun (e : Sexp) => match e with
        | Sexp.list [Sexp.atom "new", sh] => (shape? sh).map (fun s => ({ target := none, shape := s } : Td.VEntry))
        | Sexp.list [t, sh] => do pure ({ target := some (← asNat? t), shape := (← shape? sh) } : Td.VEntry)
        | _ => none)
      pure (match Td.setitemCollNested td idx vb 0 cbx entries with
        | .error e => errToSexp e
        | .ok ws => tagged "ok" ((entries.zip ws).map (fun (e, w) =>
            Sexp.list [match w.target with | some j => ofNat j | none => Sexp.atom "new",
              tagged "shape" (w.leafShape.map ofNat),
              Sexp.list ((coords w.leafShape).map (fun c => match w.written c with
                | none => ofInt (-1)
                | some vc => ofNat (ravel e.shape vc)))])))
  -- inner = td._get_sub_tensordict(i1)._get_sub_tensordict(i2); inner[i3] = value: per root leaf the value offset written at every position
  | "c03.subsub", [bs, .list (.atom "leaves" :: ls), i1, i2, i3, v] => do
      let td : Td.TD := { bs := (← shape? bs), names := none, leaves := (← ls.mapM shape?), nested := [] }
      let i1 ← pyIndex? i1; let i2 ← pyIndex? i2; let i3 ← pyIndex? i3; let v ← shape? v
      pure (match Td.subsubSet td i1 i2 i3 v with
        | .error e => errToSexp e
        | .ok ws => tagged "ok" ((td.leaves.zip ws).map (fun (feat, w) =>
            Sexp.list ((coords (td.bs ++ feat)).map (fun c => match w c with
              | none => ofInt (-1)
              | some vc => ofNat (ravel v vc))))))
  -- inner.get(key) for every leaf
  | "c03.subsubget", [bs, .list (.atom "leaves" :: ls), i1, i2] => do
      let td : Td.TD := { bs := (← shape? bs), names := none, leaves := (← ls.mapM shape?), nested := [] }
      let i1 ← pyIndex? i1; let i2 ← pyIndex? i2
      pure (match (do
          let o ← Td.subInit td i1
          let i ← Td.subInit { td with bs := o.bs } i2
          let rs ← (List.range td.leaves.length).mapM (Td.subsubGet td o i)
          pure (i.bs, rs) : Except Err (Shape × List TorchSpec.IndexResult)) with
        | .error e => errToSexp e
        | .ok (ibs, rs) => tagged "ok" [tagged "bs" (ibs.map ofNat),
            tagged "leaves" ((td.leaves.zip rs).map (fun (feat, r) => leafToSexp (td.bs ++ feat) r))])
  | "c03.torchset", [dims, idx, v] => do
      let dims ← shape? dims; let idx ← pyIndex? idx; let v ← shape? v
      pure (match TorchSpec.setIndex dims idx.items v with
        | .error e => errToSexp e
        | .ok w => tagged "ok" ((coords dims).map (fun c => match w c with
              | none => ofInt (-1)
              | some vc => ofNat (ravel v vc))))
  | "c03.setatmulti", [dims, i1, i2, v] => do
      let dims ← shape? dims; let i1 ← pyIndex? i1; let i2 ← pyIndex? i2; let v ← shape? v
      pure (match Td.setAtMulti dims i1.items i2.items v with
        | .error e => errToSexp e
        | .ok w => tagged "ok" ((coords dims).map (fun c => match w c with
              | none => ofInt (-1)
              | some vc => ofNat (ravel v vc))))
  | _, _ => none

end TdVerif.Drive
