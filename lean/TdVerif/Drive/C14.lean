import TdVerif.Sexp
import TdVerif.Model.C14Seq
import TdVerif.Model.C14Prob

namespace TdVerif.Drive
open TdVerif Sexp TdVerif.C14

namespace C14IO

/-- `(k a)` / `(k n x)` -/
def key? : Sexp → Option Key
  | .list (.atom "k" :: comps) => comps.mapM asAtom?
  | _ => none

def keys? : Sexp → Option (List Key)
  | .list (.atom _ :: ks) => ks.mapM key?
  | _ => none

def optKeys? : Sexp → Option (Option (List Key))
  | .atom "none" => some none
  | s => (keys? s).map some

/-- `(m (ins …) (outs …) f)` -/
def mod? : Sexp → Option Mod
  | .list [.atom "m", i, o, f] => do pure { ins := ← keys? i, outs := ← keys? o, f := ← asNat? f }
  | _ => none

def mods? : Sexp → Option (List Mod)
  | .list (.atom "mods" :: ms) => ms.mapM mod?
  | _ => none

/-- `(env (k a) …)`: the keys present in the input, each bound to `input key` -/
def env? (s : Sexp) : Option Env := do
  let ks ← keys? s
  pure (ks.map (fun k => (k, V.input k)))

def keySexp (k : Key) : Sexp := tagged "k" (k.map .atom)

partial def vSexp : V → Sexp
  | .input k => tagged "input" [keySexp k]
  | .app f args i => tagged "app" [ofNat f, .list (args.map vSexp), ofNat i]

def envSexp (e : Env) : Sexp := .list (e.map (fun kv => .list [keySexp kv.1, vSexp kv.2]))

def runAns : Option Env → Sexp
  | none => .list [.atom "err"]
  | some e => tagged "ok" [envSexp e]

def inplace? : Sexp → Option (Option Inplace)
  | .atom "none" => some none
  | .atom "yes" => some (some .yes)
  | .atom "no" => some (some .no)
  | .atom "empty" => some (some .empty)
  | _ => none

/-- `(mod (m …) inplace sel)` | `(seq (kids node…) inplace sel pt)` -/
partial def node? : Sexp → Option Node
  | .list [.atom "mod", m, ip, sel] => do
      let m ← mod? m; let ip ← inplace? ip; let sel ← optKeys? sel
      pure (.mod { m := m, inplace := ip.getD .yes, sel := sel })
  | .list [.atom "seq", .list (.atom "kids" :: ks), ip, sel, .atom pt] => do
      pure (.seq (← ks.mapM node?) (← inplace? ip) (← optKeys? sel) (pt == "true"))
  | _ => none

/-- `(env (k a) …)` with explicit values: `(envv ((k a) tag) …)` gives `input [tag…]` under key a -/
def envv? : Sexp → Option Env
  | .list (.atom "envv" :: es) => es.mapM (fun e => match e with
      | .list [k, .atom tag] => do pure (← key? k, V.input [tag])
      | _ => none)
  | _ => none

partial def nodeShape : Node → Sexp
  | .mod x => ofNat x.m.f
  | .seq kids _ _ _ => .list (kids.map nodeShape)

def outAns : Except (Env × Bool) Out → Sexp
  | .error (a, al) => if al then tagged "alias" [] else tagged "err" [envSexp a]
  | .ok o =>
    if o.aliased then tagged "alias" [] else
    match o.fresh with
    | none => tagged "ok" [.atom "arg", envSexp o.arg, envSexp o.arg]
    | some e => tagged "ok" [.atom "new", envSexp e, envSexp o.arg]

def itype? : String → Option Prob.IType
  | "mode" => some .mode | "median" => some .median | "mean" => some .mean
  | "random" => some .random | "deterministic" => some .deterministic | _ => none

def pickSexp : Prob.Pick → Sexp
  | .detSample => .atom "det_sample" | .mode => .atom "mode" | .median => .atom "median" | .mean => .atom "mean"
  | .empMeanRsample => .atom "emp_mean_rsample" | .empMeanSample => .atom "emp_mean_sample"
  | .rsample => .atom "rsample" | .sample => .atom "sample" | .notImpl => .atom "not_impl"

end C14IO

open C14IO in
/-- line-protocol handler for C14: commands are named `c14.<something>` -/
def handleC14 (cmd : String) (args : List Sexp) : Option Sexp :=
  match cmd, args with
  | "c14.keys", [ms] => do
      let ms ← mods? ms
      pure (.list [.list ((inKeys ms).map keySexp), .list ((outKeys ms).map keySexp)])
  | "c14.run", [ms, e] => do
      let ms ← mods? ms; let e ← env? e
      pure (runAns (run ms e))
  | "c14.select", [ms, ik, ok] => do
      let ms ← mods? ms; let ik ← optKeys? ik; let ok ← optKeys? ok
      match selectSub ms ik ok with
      | none => pure (.list [.atom "err"])
      | some kept => pure (tagged "ok" (kept.map (fun m => ofNat m.f)))
  | "c14.run_sel", [ms, sel, e] => do
      -- one module with select_out_keys(*sel): repaired and pinned hook
      let ms ← mods? ms; let sel ← keys? sel; let e ← env? e
      match ms with
      | [m] => pure (.list [runAns (runModSel m sel e), runAns (runModSelOld m sel e)])
      | _ => none
  | "c14.fwd", [n, arg, .atom skip] => do
      -- a call without tensordict_out: (ok which-object returned-content argument-after) | (err argument-after)
      let n ← node? n; let arg ← envv? arg
      pure (outAns (fwdNode (skip == "true") n arg))
  | "c14.fwd_out", [n, arg, out, .atom skip] => do
      -- a call with tensordict_out: (ok out returned-content argument-after)
      let n ← node? n; let arg ← envv? arg; let out ← envv? out
      let sk := skip == "true"
      -- the skip test of the decorator comes first and returns the *input* object
      let skipped := match n with
        | .mod x => skips sk x.m.ins (x.sel.getD x.m.outs) arg
        | .seq kids _ sel _ => skips sk (nodesInOut kids [] []).1 (sel.getD (dedupLast (nodesInOut kids [] []).2)) arg
      if skipped then pure (outAns (fwdNode sk n arg)) else
      let r := match n with
        | .mod x => fwdModOut x arg out
        | .seq kids _ sel pt => fwdSeqOut sk kids sel pt arg out
      match r with
      | .error (a, al) => pure (if al then tagged "alias" [] else tagged "err" [envSexp a])
      | .ok (a, o, al) => pure (if al then tagged "alias" [] else tagged "ok" [.atom "out", envSexp o, envSexp a])
  | "c14.node_keys", [n] => do
      let n ← node? n
      pure (.list [.list (n.ins.map keySexp), .list (n.outs.map keySexp)])
  | "c14.select_node", [n, ik, ok] => do
      let n ← node? n; let ik ← optKeys? ik; let ok ← optKeys? ok
      match n with
      | .seq kids _ sel _ =>
        match selectNode 8 kids sel ik ok with
        | none => pure (.list [.atom "err"])
        | some r => pure (tagged "ok" [nodeShape r, .list (r.ins.map keySexp), .list (r.outs.map keySexp)])
      | _ => none
  | "c14.dist_sample", [.atom it, .atom ds, .atom reg, .atom sup, .atom mo, .atom me, .atom mn, .atom rs] => do
      let it ← itype? it
      let reg : Option Prob.IType ← (if reg == "none" then some none else (itype? reg).map some)
      let sup : Prob.SupportCap ← (match sup with | "real" => some .real | "other" => some .other | "not_impl" => some .notImpl | _ => none)
      let mn : Prob.MeanCap ← (match mn with | "absent" => some .absent | "not_impl" => some .notImpl | "ok" => some .ok | _ => none)
      pure (pickSexp (Prob.distSample it ⟨ds == "true", reg, sup, mo == "true", me == "true", mn, rs == "true"⟩))
  | "c14.lp_shape", [.list sb, .list heads] => do
      -- shapes of the aggregated log-prob (distribution / module) and of the per-head entries
      let sb ← nats? sb
      let heads ← heads.mapM (fun h => match h with | .list l => nats? l | _ => none)
      let sh (o : Option Prob.Shape) : Sexp := match o with | some s => ofNats s | none => .atom "none"
      pure (.list [sh (Prob.compositeLogProbShape sb heads), sh (Prob.moduleLogProbShape sb heads),
                   .list ((Prob.perHeadShapes sb heads).map ofNats)])
  | "c14.prob_keys", [.atom agg, .list heads, .atom lp] => do
      -- (written keys) (advertised keys) of a composite probabilistic module with return_log_prob=True
      let heads ← heads.mapM asAtom?
      pure (.list [.list ((Prob.writtenKeys (agg == "true") heads lp).map .atom),
                   .list ((Prob.advertisedKeys (agg == "true") heads lp).map .atom)])
  | _, _ => none

end TdVerif.Drive
