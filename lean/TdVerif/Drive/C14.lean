import TdVerif.Sexp

namespace TdVerif.Drive
open TdVerif Sexp

/-- line-protocol handler for C14: commands are named `c14.<something>` -/
def handleC14 (cmd : String) (args : List Sexp) : Option Sexp :=
  match cmd, args with
  | _, _ => none

end TdVerif.Drive
