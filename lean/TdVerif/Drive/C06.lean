import TdVerif.Sexp
import TdVerif.Model.C06Cache
import TdVerif.Drive.C05

namespace TdVerif.Drive
open TdVerif Sexp TdVerif.C05 TdVerif.C06

namespace C06D

/-- the memoised methods the harness drives through the model (indices are the protocol's method ids):
  0 `_items_list(include_nested, leaves_only)`   1 `_values_list(include_nested, leaves_only)`
  2 `sorted_keys`   3 `_depth()`   4 `flatten_keys(".")` (allocates)   5 lazy `_key_list()`
  7 lazy `_get_str(key, None)` for a key bound to tensordicts in the members (lazy-stack entry access)
  6 `_nested_keys(include_nested, leaves_only, is_leaf)` with an `is_leaf` callable keyed by address
    (objects with an odd identity treat every tensor collection as a leaf)
  identities ≥ 500000 are non-tensor entries: tensor collections without tensor leaves, invisible to `leaves_only` reads -/
def isTensorLeaf : Ent → Bool
  | .leaf o => o < 500000
  | _ => false

/-- the reads the harness canonicalises are functions of the bindings; the attributes are observed by the monitor -/
def noAttr (c : Content) : Content := c.filter (fun p => match p.2 with | .attr _ _ => false | _ => true)

def keep (incNested leavesOnly : Nat) (p : List String × Ent) : Bool :=
  (incNested != 0 || p.1.length == 1) && (leavesOnly == 0 || isTensorLeaf p.2)

def dropIds (c : Content) : Content := c.map (fun p => (p.1, Ent.leaf 0))

def maxLen (c : Content) : Nat := c.foldl (fun acc p => max acc (p.1.length - 1)) 0

/-- keys shared by every member of a lazy stack (paths are `[member, key, …]`) -/
def keyList (c : Content) : Content :=
  let members := (c.filterMap (fun p => match p.1 with | [m] => some m | _ => none)).eraseDups
  let keysOf (m : String) := c.filterMap (fun p => match p.1 with | [m', k] => if m' == m then some k else none | _ => none)
  match members with
  | [] => []
  | m0 :: rest => ((keysOf m0).filter (fun k => rest.all (fun m => (keysOf m).contains k))).eraseDups.map (fun k => ([k], Ent.leaf 0))

/-- lazy `_get_str(key)`: the entries of the members under `key` (paths `[member, key]`), or nothing (the `default`) when a
member lacks the key -/
def lazyGet (key : String) (c : Content) : Content :=
  let members := (c.filterMap (fun p => match p.1 with | [m] => some m | _ => none)).eraseDups
  let hits := c.filter (fun p => match p.1 with | [_, k] => k == key | _ => false)
  if members.all (fun m => hits.any (fun p => p.1.head? == some m)) then hits else []

def kidKey (n : Nat) : String := match n with | 0 => "k0" | 1 => "k1" | _ => "k2"

/-- prune below the nodes when `is_leaf` says a tensor collection is a leaf -/
def stopAtNodes (c : Content) : Content :=
  c.filter (fun p => p.1.length == 1)

def sem : Sem where
  obs := fun q c0 => let c := noAttr c0; match q with
    | (0, [.val a, .val b]) => c.filter (keep a b)
    | (1, [.val a, .val b]) => c.filter (keep a b)
    | (2, _) => dropIds (c.filter (keep 0 0))
    | (3, _) => [([], Ent.leaf (maxLen (c.filter (fun p => match p.2 with | .leaf _ => true | _ => false))))]   -- `is_leaf=_is_leaf_nontensor`
    | (5, _) => keyList c
    | (7, [.val k]) => lazyGet (kidKey k) c
    | (6, [.val a, .val b, .obj o]) =>
        if o % 2 == 1 then dropIds (c.filter (fun p => a != 0 || p.1.length == 1))   -- `is_leaf ≡ True`: every entry counts
        else dropIds (c.filter (keep a b))
    | _ => []
  -- 4 `flatten_keys(".")`, 8 `_add_batch_dim(in_dim, vmap_level)` (the memo of `torch.vmap`), 9 `detach()`: a new tensordict over
  -- the same storages (8, 9: rendered flat, each entry by the leaf it wraps / shares its storage with)
  build := fun _ c => c.filterMap (fun p => match p.2 with
    | .leaf o => some (".".intercalate p.1, o, 0)
    | _ => none)

def arg? : Sexp → Option Arg
  | .list [.atom "obj", o, a] => do pure (.obj (← asNat? o) (← asNat? a))
  | s => do pure (.val (← asNat? s))

def cev? : Sexp → Option CEv
  | .list (.atom "read" :: i :: m :: args) => do
      let m ← asNat? m
      pure (.read (← asNat? i) { meth := m, args := ← args.mapM arg?, allocates := m == 4 || m == 8 || m == 9, tensorValued := false })
  | .list [.atom "rebind", i, .atom k, o] => do pure (.rebind (← asNat? i) k (← asNat? o))
  | .list [.atom "attr", i, f, v, d] => do pure (.setAttr (← asNat? i) (← asNat? f) (← asNat? v) (← asNat? d))
  | .list [.atom "mmap", i, .list news] => do
      let ns ← news.mapM (fun e => match e with
        | .list [j, .atom k, o] => do pure ((← asNat? j, k), ← asNat? o)
        | _ => none)
      pure (.memmap (← asNat? i) ns)
  | s => do pure (.base (← C05D.ev? s))

def entSexp : Ent → Sexp
  | .leaf o => .list [.atom "l", ofNat o]
  | .node j => .list [.atom "n", ofNat j]
  | .attr f v => .list [.atom "a", ofNat f, ofNat v]

def contentSexp (c : Content) : Sexp :=
  .list (c.map (fun p => .list [.list (p.1.map .atom), entSexp p.2]))

def hitAtom : Hit → String
  | .bypass => "bypass"
  | .miss => "miss"
  | .hit => "hit"

partial def runC (s : CState) : List Sexp → List Sexp → Option (List Sexp)
  | [], acc => some acc.reverse
  | e :: rest, acc => do
      let ev ← cev? e
      match ev with
      | .read i q =>
        if live s.heap i && i < s.heap.size then
          let r := readEv sem s i q
          let res := match r.2.1 with
            | .value c => Sexp.list [.atom "value", contentSexp c]
            | .object o => Sexp.list [.atom "object", ofNat o,
                .list (((r.1.heap.node o).leaves).map (fun l => .list [.atom l.1, ofNat l.2.1]))]
          let sizes := (List.range r.1.heap.size).map (fun j => ofNat (r.1.cache j).length)
          runC r.1 rest (Sexp.list [.atom (hitAtom r.2.2), res, .list sizes] :: acc)
        else runC s rest (Sexp.atom "other" :: acc)
      | _ =>
        let r := cstep sem s ev
        let sizes := (List.range r.1.heap.size).map (fun j => ofNat (r.1.cache j).length)
        runC r.1 rest (Sexp.list [.atom (C05D.outAtom r.2), C05D.view r.1.heap, .list sizes] :: acc)

end C06D

/-- line-protocol handler for C06 -/
def handleC06 (cmd : String) (args : List Sexp) : Option Sexp :=
  match cmd, args with
  | "c06.run", evs => do pure (.list (← C06D.runC { base := { heap := Heap.empty } } evs []))
  | _, _ => none

end TdVerif.Drive
