import TdVerif.Sexp

namespace TdVerif.Drive
open TdVerif Sexp

/-- line-protocol handler for C06: commands are named `c06.<something>` -/
def handleC06 (cmd : String) (args : List Sexp) : Option Sexp :=
  match cmd, args with
  | _, _ => none

end TdVerif.Drive
