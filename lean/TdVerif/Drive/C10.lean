import TdVerif.Sexp

namespace TdVerif.Drive
open TdVerif Sexp

/-- line-protocol handler for C10: commands are named `c10.<something>` -/
def handleC10 (cmd : String) (args : List Sexp) : Option Sexp :=
  match cmd, args with
  | _, _ => none

end TdVerif.Drive
