import TdVerif.Sexp
import TdVerif.Model.C10Memmap
import TdVerif.Model.C10Tensor
import TdVerif.Model.C10MetaTask
import TdVerif.Model.C10Nested

namespace TdVerif.Drive
open TdVerif Sexp TdVerif.C10
open TdVerif.C12 (Slots runWrites)

namespace C10D

partial def tree? : Sexp → Option Tree
  | .list [.atom "l", .atom d, .list sh, .list b] => do pure (.leaf d (← nats? sh) (← nats? b))
  | .list [.atom "nt", .atom d, .list b] => do pure (.nontensor d (← nats? b))
  | .list (.atom "n" :: .list b :: .atom dev :: kids) => do
    let b ← nats? b
    let kids ← kids.mapM fun k => match k with
      | Sexp.list [Sexp.atom key, t] => (tree? t).map fun t' => (key, t')
      | _ => none
    pure (.node b dev kids)
  | .list (.atom "lz" :: sd :: kids) => do
    let kids ← kids.mapM fun k => match k with
      | Sexp.list [Sexp.atom key, t] => (tree? t).map fun t' => (key, t')
      | _ => none
    pure (.lazy (← asNat? sd) kids)
  | .list [.atom "nts", .atom d, sd] => do pure (.ntstack d (← asNat? sd))
  | .list (.atom "tc" :: .atom cls :: .atom fields :: kids) => do
    let kids ← kids.mapM fun k => match k with
      | Sexp.list [Sexp.atom key, t] => (tree? t).map fun t' => (key, t')
      | _ => none
    pure (.tclass cls fields kids)
  | _ => none

partial def treeSx : Tree → Sexp
  | .leaf d s b => .list [.atom "l", .atom d, ofNats s, ofNats b]
  | .nontensor d b => .list [.atom "nt", .atom d, ofNats b]
  | .node b dev kids => .list (.atom "n" :: ofNats b :: .atom dev :: kids.map fun (k, t) => .list [.atom k, treeSx t])
  | .lazy sd kids => .list (.atom "lz" :: ofNat sd :: kids.map fun (k, t) => .list [.atom k, treeSx t])
  | .ntstack d sd => .list [.atom "nts", .atom d, ofNat sd]
  | .tclass cls fields kids => .list (.atom "tc" :: .atom cls :: .atom fields :: kids.map fun (k, t) => .list [.atom k, treeSx t])

def entrySx : String × MetaEntry → Sexp
  | (k, .leaf d s) => .list [.atom k, .atom "leaf", .atom d, ofNats s]
  | (k, .coll t) => .list [.atom k, .atom "coll", .atom t]

def fileSx : File → Sexp
  | .bytes b => .list [.atom "bytes", ofNat b.length]
  | .json m =>
    if m.kind = "NonTensorData" then .list [.atom "meta", .atom m.kind, .atom (m.payload.getD "none")]
    else if m.kind ≠ "TensorDict" ∧ m.kind ≠ "LazyStackedTensorDict" then .list [.atom "meta", .atom m.kind, .atom (m.payload.getD "none")]
    else .list [.atom "meta", .atom m.kind, ofNats m.batch, .atom m.device, .list (m.entries.map entrySx)]

def pathSx (p : Path) : Sexp := .list (p.map .atom)

/-- the cells of `fs` at the given candidate paths (deduplicated, in order of first appearance) -/
def listing (fs : FS) (paths : List Path) : Sexp :=
  .list ((paths.eraseDups).filterMap fun p => (fs p).map fun f => .list [pathSx p, fileSx f])

def optTreeSx : Option Tree → Sexp
  | some t => treeSx t
  | none => .atom "none"

end C10D
open C10D

/-- line-protocol handler for C10: commands are named `c10.<something>` -/
def handleC10 (cmd : String) (args : List Sexp) : Option Sexp :=
  match cmd, args with
  -- (c10.save tree (order…)) -> (tasks-in-submission-order listing loaded)
  | "c10.save", [t, .list order] => do
      let t ← tree? t; let order ← nats? order
      let ts := tasksTree [] t
      let perm := if order.isEmpty then ts else order.filterMap fun i => ts[i]?
      let fs := runTasks (fun _ => none) perm
      pure (.list [.list (ts.map fun x => pathSx x.1), listing fs (ts.map (·.1)), optTreeSx (load (depth t) fs [])])
  -- (c10.like tree) -> (listing loaded)
  | "c10.like", [t] => do
      let t ← tree? t
      let ts := tasksTree [] (likeTree t)
      let fs := runTasks (fun _ => none) ts
      pure (.list [listing fs (ts.map (·.1)), optTreeSx (load (depth t) fs [])])
  -- (c10.make tree (dir…) key dtype (shape) nbytes) -> (listing loaded) after make_memmap on the saved directory
  | "c10.make", [t, .list dir, .atom key, .atom dt, .list sh, nb] => do
      let t ← tree? t; let dir ← dir.mapM asAtom?; let sh ← nats? sh; let nb ← asNat? nb
      let ts := tasksTree [] t
      let fs := runTasks (fun _ => none) ts
      match makeMemmap fs dir key dt sh nb with
      | none => pure (.atom "none")
      | some fs' =>
        let paths := ts.map (·.1) ++ [dir ++ [key ++ ".memmap"]]
        pure (.list [listing fs' paths, optTreeSx (load (depth t + 1) fs' [])])
  -- (c10.write tree (dir…) key (bytes…)) -> loaded after an in-place write through a mapping
  | "c10.write", [t, .list dir, .atom key, .list b] => do
      let t ← tree? t; let dir ← dir.mapM asAtom?; let b ← nats? b
      let fs := runTasks (fun _ => none) (tasksTree [] t)
      pure (optTreeSx (load (depth t) (writeLeaf fs dir key b) []))
  -- (c10.resave tree1 tree2): save tree1, then tree2 into the same directory: (paths present, loaded)
  | "c10.resave", [t1, t2] => do
      let t1 ← tree? t1; let t2 ← tree? t2
      let ts1 := tasksTree [] t1
      let ts2 := tasksTree [] t2
      let fs := runTasks (runTasks (fun _ => none) ts1) ts2
      let paths := ((ts1 ++ ts2).map (·.1)).eraseDups.filter fun p => (fs p).isSome
      pure (.list [.list (paths.map pathSx), optTreeSx (load (depth t2) fs [])])
  -- (c10.refresh tree (dir…) key dtype (shape) (bytes…)): the tree is saved and mapped by a reader; through another mapping
  -- make_memmap creates `key` in `dir` and fills it; -> (fresh load, reader after load_memmap_, reader under the skipping loader)
  | "c10.refresh", [t, .list dir, .atom key, .atom dt, .list sh, .list b] => do
      let t ← tree? t; let dir ← dir.mapM asAtom?; let sh ← nats? sh; let b ← nats? b
      let fs := runTasks (fun _ => none) (tasksTree [] t)
      match makeMemmap fs dir key dt sh b.length with
      | none => pure (.atom "none")
      | some fs' =>
        let fs1 := if numel sh = 0 then fs' else writeLeaf fs' dir key b
        let fuel := depth t + 1
        pure (.list [optTreeSx (load fuel fs1 []), optTreeSx (loadInto fuel fs1 [] t), optTreeSx (loadIntoSkip fuel fs1 [] t)])
  -- (c10.populate input dstold same ce like existsok): `_populate_memmap` / `from_tensor` of one leaf.
  --   input = (mem (bytes…)) | (file (bytes of the source file…) (positions…)); dstold = none | (bytes…); same: the destination is the source file
  --   -> (err kind) | (ok (destination file) (tensor handed back) (from_filename of the destination))
  | "c10.populate", [input, dstold, same, ce, like, existsok] => do
      let b? : Sexp → Option Bool := fun x => match x with
        | Sexp.atom "true" => some true
        | Sexp.atom "false" => some false
        | _ => none
      let same ← b? same; let ce ← b? ce; let like ← b? like; let existsok ← b? existsok
      let srcP : Path := ["src", "x.memmap"]
      let dstP : Path := if same then srcP else ["dst", "x.memmap"]
      let fs0 : FS := fun _ => none
      let (fs1, value) ← match input with
        | Sexp.list [Sexp.atom "mem", Sexp.list b] => do pure (fs0, Src.mem (← nats? b))
        | Sexp.list [Sexp.atom "file", Sexp.list b, Sexp.list idx] => do
            pure (Slots.write fs0 srcP (File.bytes (← nats? b)), Src.file srcP (← nats? idx))
        | _ => none
      let fs2 ← match dstold with
        | Sexp.atom "none" => some fs1
        | Sexp.list b => do
            let bs ← nats? b
            pure (if same then fs1 else Slots.write fs1 dstP (File.bytes bs))
        | _ => none
      let dir := dstP.dropLast
      match populate fs2 dir "x" value ce like existsok with
      | .error e => pure (tagged "err" [.atom (match e with | .existing => "existing" | .exists_ => "exists" | .partialView => "partial-view")])
      | .ok (fs', t) =>
        pure (tagged "ok" [ofNats (fileBytes fs' dstP), ofNats (t.value fs'), ofNats ((fromFilename dstP (value.value fs2).length).value fs')])
  -- (c10.metatask ((key class)…) (expected keys…) p1 p2 inplace): the `save_metadata` task of a non-tensor entry under the schedule (p1, p2)
  --   class = null | json | pickle   ->  (err) | (ok ((key class)…))
  | "c10.metatask", [Sexp.list d, Sexp.list exp, p1, p2, inplace] => do
      let cls? : String → Option MetaTask.V := fun s => match s with
        | "null" => some .null | "json" => some .json | "pickle" => some .pickle | _ => none
      let d0 ← d.mapM (fun e => match e with
        | Sexp.list [Sexp.atom k, Sexp.atom c] => do pure (k, ← cls? c)
        | _ => none)
      let exp ← exp.mapM asAtom?
      let p1 ← asNat? p1; let p2 ← asNat? p2
      let inpl := match inplace with | Sexp.atom "true" => true | _ => false
      let out := if inpl then MetaTask.runTaskInplace d0 else MetaTask.runTask (MetaTask.liveAt d0 exp p1 p2)
      let clsS : MetaTask.V → String := fun v => match v with | .null => "null" | .json => "json" | .pickle => "pickle"
      match out with
      | .err => pure (tagged "err" [])
      | .ok items => pure (tagged "ok" [.list (items.map fun (e : String × MetaTask.V) => Sexp.list [.atom e.1, .atom (clsS e.2)])])
  -- (c10.nested ((shape cells)…) r like): `_populate_memmap` of a nested-tensor leaf `j` in a new directory, then the loader's is_nested branch
  --   -> (err) | (ok (cells of j.shape.memmap) (cells of j.memmap) ((shape cells)… as loaded))
  | "c10.nested", [Sexp.list comps, r, like] => do
      let cs ← comps.mapM (fun c => match c with
        | Sexp.list [Sexp.list sh, Sexp.list b] => do pure ((← nats? sh), (← nats? b))
        | _ => none)
      let r ← asNat? r
      let like := match like with | Sexp.atom "true" => true | _ => false
      match populateNested (fun _ => none) [] "j" cs true like true with
      | .error _ => pure (tagged "err" [])
      | .ok fs' =>
        pure (tagged "ok" [ofNats (fileBytes fs' (shapePath [] "j")), ofNats (fileBytes fs' (dataPath [] "j")),
          .list ((loadNested fs' [] "j" cs.length r).map fun (c : Comp) => Sexp.list [ofNats c.1, ofNats c.2])])
  -- (c10.names (op…)) with op = (chdir dir…) | (save rel…): the file names recorded by the saves
  | "c10.names", [Sexp.list ops] => do
      let ops ← ops.mapM (fun o => match o with
        | Sexp.list (Sexp.atom "chdir" :: d) => do pure (NameOp.chdir (← d.mapM asAtom?))
        | Sexp.list (Sexp.atom "save" :: d) => do pure (NameOp.save (← d.mapM asAtom?))
        | _ => none)
      pure (.list ((recordedNames [] ops).map fun (p : Path) => Sexp.list (p.map Sexp.atom)))
  | _, _ => none

end TdVerif.Drive
