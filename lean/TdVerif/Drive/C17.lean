import TdVerif.Sexp

namespace TdVerif.Drive
open TdVerif Sexp

/-- line-protocol handler for C17: commands are named `c17.<something>` -/
def handleC17 (cmd : String) (args : List Sexp) : Option Sexp :=
  match cmd, args with
  | _, _ => none

end TdVerif.Drive
