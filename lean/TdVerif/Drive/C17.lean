import TdVerif.Sexp
import TdVerif.Model.C17Ctx
import TdVerif.Model.C17World
import TdVerif.Drive.C02

namespace TdVerif.Drive
open TdVerif Sexp TdVerif.C02 TdVerif.C17

namespace C17D

def chars? (l : List Sexp) : Option (List Char) := (nats? l).map (·.map Char.ofNat)
def charsSexp (l : List Char) : Sexp := ofNats (l.map Char.toNat)

def key? : Sexp → Option Key
  | .list comps => comps.mapM fun (x : Sexp) => match x with
    | Sexp.list cs => chars? cs
    | _ => none
  | _ => none

def keySexp (k : Key) : Sexp := .list (k.map charsSexp)

def val? : Sexp → Option Val
  | .list [.atom "int", i] => (asInt? i).map Val.int
  | .list (.atom "ints" :: l) => (ints? l).map Val.ints
  | .list (.atom "str" :: l) => (chars? l).map Val.str
  | .list [.atom "bool", .atom b] => some (.bool (b == "true"))
  | .atom "none" => some .none
  | _ => none

def valSexp : Val → Sexp
  | .int i => tagged "int" [ofInt i]
  | .ints l => tagged "ints" (l.map ofInt)
  | .str s => tagged "str" (s.map fun ch => ofNat ch.toNat)
  | .bool b => tagged "bool" [.atom (if b then "true" else "false")]
  | .none => .atom "none"

def call? : Sexp → Option Call
  | .list [.atom "call", .list (.atom "args" :: as), .list (.atom "kwargs" :: kws)] => do
    let as ← as.mapM val?
    let kws ← kws.mapM fun (x : Sexp) => match x with
      | Sexp.list [Sexp.atom k, v] => (val? v).map (fun v => (k, v))
      | _ => none
    pure ⟨as, kws⟩
  | _ => none

def st? : Sexp → Option St
  | .list [.atom "st", .list bs, nm, .list (.atom "keys" :: ks), .atom locked] => do
    let bs ← nats? bs
    let nm ← C02D.names? nm
    let ks ← ks.mapM key?
    pure ⟨bs, nm, ks, locked == "true"⟩
  | _ => none

def stSexp (s : St) : Sexp :=
  tagged "st" [ofNats s.bs, C02D.namesSexp s.names s.bs.length, tagged "keys" (s.keys.map keySexp),
    .atom (if s.locked then "true" else "false")]

def edit? : Sexp → Option Edit
  | .list [.atom "value"] => some .value
  | .list [.atom "add", k] => (key? k).map Edit.addKey
  | _ => none

def bool (b : Bool) : Sexp := .atom (if b then "true" else "false")

/-- `(binds (key id) …)` -/
def binds? : Sexp → Option Binds
  | .list (.atom "binds" :: ps) => ps.mapM fun (x : Sexp) => match x with
    | Sexp.list [k, .atom n] => do pure ((← key? k), (← n.toNat?))
    | _ => none
  | _ => none

def bindsSexp (b : Binds) : Sexp := .list (.atom "binds" :: b.map fun p => .list [keySexp p.1, .atom (toString p.2)])

/-- `(call v name <call>)`, `(enter v)`, `(edits v e…)`, `(exit v)` -/
def step? : Sexp → Option Step
  | .list [.atom "call", .atom v, .atom name, c] => do pure (.call (← v.toNat?) name (← call? c))
  | .list [.atom "enter", .atom v] => do pure (.enter (← v.toNat?))
  | .list (.atom "edits" :: .atom v :: es) => do pure (.edits (← v.toNat?) (← es.mapM edit?))
  | .list [.atom "exit", .atom v] => do pure (.exit (← v.toNat?))
  | .list [.atom "exit-raised", .atom v] => do pure (.exitRaised (← v.toNat?))
  | _ => none

end C17D

/-- line-protocol handler for C17 -/
def handleC17 (cmd : String) (args : List Sexp) : Option Sexp :=
  match cmd, args with
  | "c17.fwd", [.atom name, c, s] => do
      let c ← C17D.call? c; let s ← C17D.st? s
      match fwd name c s with
      | .error e => pure (C02D.errSexp e)
      | .ok y => pure (tagged "ok" [C17D.stSexp y.st, C17D.bool y.isSelf, C17D.bool y.recorded])
  | "c17.reverse", [.atom name, c, y, out] => do
      let c ← C17D.call? c; let y ← C17D.st? y; let out ← C17D.st? out
      match reverse name c y out with
      | .error e => pure (C02D.errSexp e)
      | .ok (n, ic) => pure (tagged "ok" [.atom n, .list (ic.args.map C17D.valSexp)])
  | "c17.with", [.atom name, c, .list (.atom "edits" :: es), s] => do
      let c ← C17D.call? c; let s ← C17D.st? s; let es ← es.mapM C17D.edit?
      match withBlock name c es s with
      | .error e => pure (C02D.errSexp e)
      | .ok r => pure (tagged "ok" [C17D.stSexp r])
  | "c17.nested", [.atom kind, .atom n1, c1, .atom n2, c2, .list (.atom "edits" :: e2), .list (.atom "edits" :: e1), s] => do
      let c1 ← C17D.call? c1; let c2 ← C17D.call? c2; let s ← C17D.st? s
      let e2 ← e2.mapM C17D.edit?; let e1 ← e1.mapM C17D.edit?
      let r := if kind == "yielded" then withNested n1 c1 n2 c2 e2 e1 s else withSibling n1 c1 n2 c2 e2 e1 s
      match r with
      | .error e => pure (C02D.errSexp e)
      | .ok r => pure (tagged "ok" [C17D.stSexp r])
  -- a program on a heap of objects (one `_last_op_queue` per object): answers the originals' metadata afterwards
  | "c17.world", [.list (.atom "origs" :: os), .list (.atom "steps" :: ss)] => do
      let os ← os.mapM C17D.st?; let ss ← ss.mapM C17D.step?
      match runSteps (World.init os) ss with
      | .error e => pure (C02D.errSexp e)
      | .ok w => pure (tagged "ok" (((List.range os.length).map fun v => C17D.stSexp (w.stOf v)) ++
          [tagged "queues" ((List.range os.length).map fun v => .atom (toString (w.objs (w.var v)).queue.length))]))
  | "c17.temp", [.atom name, c, .list (.atom "edits" :: es), s] => do
      let c ← C17D.call? c; let s ← C17D.st? s; let es ← es.mapM C17D.edit?
      match withTempBlock name c es s with
      | .error e => pure (C02D.errSexp e)
      | .ok r => pure (tagged "ok" [C17D.stSexp r])
  | "c17.bind", [.atom name, c, .atom locked, out, y] => do
      let c ← C17D.call? c; let out ← C17D.binds? out; let y ← C17D.binds? y
      match exitBinds name c (locked == "true") out y with
      | .error e => pure (C02D.errSexp e)
      | .ok r => pure (tagged "ok" [C17D.bindsSexp r])
  | _, _ => none

end TdVerif.Drive
