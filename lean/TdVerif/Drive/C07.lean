import TdVerif.Sexp
import TdVerif.Model.C07Storage
import TdVerif.Model.C07Table
import TdVerif.Model.C07SetStr

namespace TdVerif.Drive
open TdVerif Sexp TdVerif.C07

namespace C07D

def leafOf? : Sexp → Option (String × Leaf)
  | .list [.atom k, sid, .list offs] => do
      let sid ← asNat? sid
      let offs ← nats? offs
      pure (k, ⟨sid, offs⟩)
  | _ => none

def objOf? : Sexp → Option Binds
  | .list (.atom "obj" :: ls) => ls.mapM leafOf?
  | _ => none

def storeOf (ss : List (List Int)) : Store := fun sid o => (ss.getD sid []).getD o 0

def initOf? : Sexp → Option State
  | .list [.atom "init", .list (.atom "store" :: ss), .list (.atom "objs" :: os)] => do
      let ss ← ss.mapM (fun s => do ints? (← asList? s))
      let os ← os.mapM objOf?
      pure { store := storeOf ss, next := ss.length, objs := os }
  | _ => none

def writeOf? : Sexp → Option (String × List Val)
  | .list [.atom k, .list vs] => do pure (k, ← ints? vs)
  | _ => none

def rleafOf? : Sexp → Option RLeaf
  | .list [.atom k, .atom src, .list sel, .list vals, .atom al] => do
      let sel ← nats? sel
      let vals ← ints? vals
      pure { key := k, src := if src = "none" then none else some src, sel := sel, vals := vals, aliased := al = "true" }
  | _ => none

def sopOf? : Sexp → Option SOp
  | .list [.atom "bind", .atom k, o, .atom k2] => do pure (.bind k (← asNat? o) k2)
  | .list [.atom "unbind", .atom k] => some (.unbind k)
  | .list [.atom "alloc", .atom k, .list vs] => do pure (.alloc k (← ints? vs))
  | _ => none

/-- a step of a driven history: a public operation (class looked up in the table) or a sentinel write -/
inductive DStep where
  | op (name : String) (td : Nat) (p : Payload)
  | poke (obj : Nat) (key : String) (vals : List Val)

def dstepOf? : Sexp → Option DStep
  | .list [.atom "op", .atom name, td, .list (.atom "w" :: ws), .list (.atom "r" :: rs), .list (.atom "s" :: ss)] => do
      let td ← asNat? td
      let ws ← ws.mapM writeOf?
      let rs ← rs.mapM rleafOf?
      let ss ← ss.mapM sopOf?
      pure (.op name td { writes := ws, results := rs, struct := ss })
  | .list [.atom "poke", o, .atom k, .list vs] => do pure (.poke (← asNat? o) k (← ints? vs))
  | _ => none

def leafToSexp (n0 : Nat) (st : Store) (kl : String × Leaf) : Sexp :=
  let (k, l) := kl
  if l.sid < n0 then .list [.atom k, ofNat l.sid, ofNats l.offs, ofInts (readLeaf st l)]
  else .list [.atom k, .atom "new", .list [], ofInts (readLeaf st l)]

def stateToSexp (n0 : Nat) (s : State) : Sexp :=
  tagged "st" (s.objs.map (fun b => tagged "obj" (b.map (leafToSexp n0 s.store))))

/-- run the driven history; report every object (window + what is read through it) after each step -/
def runD (n0 : Nat) : State → List DStep → List Sexp → Except String (List Sexp)
  | _, [], acc => .ok acc.reverse
  | s, .op name td p :: rest, acc =>
      match rowClass name with
      | none => .error name
      | some c =>
        let s' := run s (stepsOf c td p)
        runD n0 s' rest (stateToSexp n0 s' :: acc)
  | s, .poke o k vals :: rest, acc =>
      let s' := step s (.inplace o [(k, vals)])
      runD n0 s' rest (stateToSexp n0 s' :: acc)

end C07D

/-- line-protocol handler for C07: commands are named `c07.<something>` -/
def handleC07 (cmd : String) (args : List Sexp) : Option Sexp :=
  match cmd, args with
  | "c07.class", [.atom name] =>
      some (match classOf name with
        | some c => .atom c.name
        | none => .atom "unknown")
  | "c07.table", [] =>
      some (.list (classTable.map (fun p => .list [.atom p.1, .atom p.2.name])))
  | "c07.deviations", [] =>
      some (.list (knownDeviations.map (fun p => .list [.atom p.1, .atom p.2.name])))
  | "c07.contig", [.list offs] => do
      let offs ← nats? offs
      pure (.atom (if isContig ⟨0, offs⟩ then "true" else "false"))
  | "c07.index_class", [.list items] => do
      let items ← items.mapM (fun it => match it with
        | .atom "int" => some IxItem.int | .atom "slice" => some .slice | .atom "newaxis" => some .none | .atom "ellipsis" => some .ellipsis
        | .atom "int0d" => some .int0d | .atom "list" => some .list | .atom "tensor" => some .tensor | .atom "mask" => some .mask
        | .atom "range" => some .range | .atom "array" => some .array | _ => none)
      pure (.atom (indexClass items).name)
  | "c07.update_", [init, .list srcs] => do
      -- `objs[0].update_(src)`; src = ((key (vals…)) …)
      let s ← C07D.initOf? init
      let src ← srcs.mapM C07D.writeOf?
      pure (match updateInplace (s.objs.getD 0 []) s.store src with
        | .ok st => tagged "ok" [C07D.stateToSexp s.next { s with store := st }]
        | .error _ => .list [.atom "err", .atom "key"])
  | "c07.setstr", [init, .atom locked, .atom mode, .atom k, vobj, .atom vkey, .list vals] => do
      -- `_set_str` of objs[0] with the value tensor objs[vobj][vkey]
      let s ← C07D.initOf? init
      let vobj ← asNat? vobj
      let vals ← ints? vals
      let value ← (s.objs.getD vobj []).lookup vkey
      let mode ← (match mode with | "no" => some InplaceMode.no | "yes" => some .yes | "best" => some .best | _ => none)
      pure (match setStr (s.objs.getD 0 []) s.store (locked = "true") mode k value vals with
        | .ok (b, st) => tagged "ok" [C07D.stateToSexp s.next { s with store := st, objs := b :: s.objs.drop 1 }]
        | .error .key => .list [.atom "err", .atom "key"]
        | .error .lock => .list [.atom "err", .atom "lock"]
        | .error .shape => .list [.atom "err", .atom "value"])
  | "c07.run", [init, .list (.atom "steps" :: steps)] => do
      let s ← C07D.initOf? init
      let steps ← steps.mapM C07D.dstepOf?
      pure (match C07D.runD s.next s steps [] with
        | .ok sts => tagged "ok" sts
        | .error name => .list [.atom "err", .atom "unknown", .atom name])
  | _, _ => none

end TdVerif.Drive
