import TdVerif.Sexp

namespace TdVerif.Drive
open TdVerif Sexp

/-- line-protocol handler for C07: commands are named `c07.<something>` -/
def handleC07 (cmd : String) (args : List Sexp) : Option Sexp :=
  match cmd, args with
  | _, _ => none

end TdVerif.Drive
