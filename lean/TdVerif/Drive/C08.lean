import TdVerif.Sexp
import TdVerif.Model.C08Lazy
import TdVerif.Model.C08Lazy2
import TdVerif.Model.C08Lazy2T
import TdVerif.Model.C08Apply
import TdVerif.Model.C08Reduce
import TdVerif.Model.C08Resize
import TdVerif.Model.C08Out
import TdVerif.Model.C08View
import TdVerif.Model.C08UpdateAt
import TdVerif.Model.C08SetMask2
import TdVerif.Model.C08SetTensor

namespace TdVerif.Drive
open TdVerif Sexp TdVerif.C08

namespace C08D

def shapeOf? : Sexp → Option Shape
  | .list (.atom _ :: l) => nats? l
  | _ => none

/-- `(int 3)` `(slice a b c)` `none` `ell` `(tens (shape ..) (vals ..))` `(mask (shape ..) (vals 0 1 ..))` -/
def ixOf? : Sexp → Option Ix
  | .atom "none" => some .none
  | .atom "ell" => some .ell
  | .list [.atom "int", i] => (asInt? i).map .int
  | .list [.atom "slice", a, b, c] => do
      pure (.slice (← asOptInt? a) (← asOptInt? b) (← asOptInt? c))
  | .list [.atom "tens", sh, .list (.atom "vals" :: vs)] => do
      let sh ← shapeOf? sh
      let vs ← ints? vs
      pure (.tens (T.ofList sh vs))
  | .list [.atom "mask", sh, .list (.atom "vals" :: vs)] => do
      let sh ← shapeOf? sh
      let vs ← ints? vs
      pure (.mask (T.ofList sh (vs.map (· != 0))))
  | _ => none

def ixsOf? : Sexp → Option (List Ix)
  | .list (.atom "ix" :: l) => l.mapM ixOf?
  | _ => none

/-- `(feats (a) (b 2) (n.c 1 2))` : key and feature shape -/
def featsOf? : Sexp → Option (List (String × Shape))
  | .list (.atom "feats" :: l) => l.mapM fun
      | .list (.atom k :: f) => (nats? f).map fun f => (k, f)
      | _ => none
  | _ => none

def memberBase (nkeys i j : Nat) : Int := (((i * nkeys + j) * 10000 : Nat) : Int)

/-- member `i` of the test stack: provenance leaves `base + arange(numel)` of shape `bs ++ feat` -/
def mkMember (bs : Shape) (feats : List (String × Shape)) (i : Nat) : TD Int :=
  { batch := bs, keys := feats.map (·.1),
    leaf := fun k =>
      match feats.findIdx? (·.1 == k) with
      | some j => T.arange (memberBase feats.length i j) (bs ++ ((feats[j]?.map (·.2)).getD []))
      | none => default }

def mkLazy (bs : Shape) (n sd : Nat) (feats : List (String × Shape)) : Lazy Int :=
  ⟨(List.range n).map (mkMember bs feats), sd⟩

/-- operand `j` of a cat: same provenance scheme shifted by `j * 1000000` -/
def mkOperand (bs : Shape) (n sd : Nat) (feats : List (String × Shape)) (j : Nat) : Lazy Int :=
  ⟨(List.range n).map fun i =>
      let m := mkMember bs feats i
      { m with leaf := fun k => let t := m.leaf k; { t with get := fun c => t.get c + (j * 1000000 : Nat) } }, sd⟩

def tdToSexp (m : TD Int) : List Sexp :=
  [tagged "bs" (m.batch.map ofNat),
   tagged "leaves" (m.keys.map fun k =>
     .list [.atom k, tagged "shape" ((m.leaf k).shape.map ofNat), tagged "vals" ((m.leaf k).toList.map ofInt)])]

def resToSexp : Option (LRes Int) → Sexp
  | none => tagged "err" []
  | some (.member m) => tagged "ok" (tagged "kind" [.atom "member"] :: tdToSexp m)
  | some (.lazy L) =>
      tagged "ok" (tagged "kind" [.atom "lazy", ofNat L.sd, ofNat L.members.length] :: tdToSexp (absL L))
  | some (.empty b) => tagged "ok" [tagged "kind" [.atom "empty"], tagged "bs" (b.map ofNat)]
  | some (.lazy2 sd rows) =>
      tagged "ok" (tagged "kind" [.atom "lazy2", ofNat sd, ofNat rows.length] :: tdToSexp (absR (.lazy2 sd rows)))

/-- the value written by the write stream: provenance leaves `500000 + 10000*j + arange` of shape `ibs ++ feat` -/
def mkValue (ibs : Shape) (feats : List (String × Shape)) : TD Int :=
  { batch := ibs, keys := feats.map (·.1),
    leaf := fun k =>
      match feats.findIdx? (·.1 == k) with
      | some j => T.arange (500000 + 10000 * (j : Int)) (ibs ++ ((feats[j]?.map (·.2)).getD []))
      | none => default }

def membersToSexp : Option (Lazy Int) → Sexp
  | none => tagged "err" []
  | some L => tagged "ok" (tagged "sd" [ofNat L.sd] :: L.members.map fun m => tagged "member" (tdToSexp m))

def res2ToSexp : Option (LRes2 Int) → Sexp
  | none => tagged "err" []
  | some (.inner r) => tagged "ok" (tagged "kind" [.atom "inner"] :: tdToSexp (absR r))
  | some (.lazy sd rs) => tagged "ok" (tagged "kind" [.atom "lazy", ofNat sd, ofNat rs.length] :: tdToSexp (absR2 (.lazy sd rs)))
  | some (.empty b) => tagged "ok" [tagged "kind" [.atom "empty"], tagged "bs" (b.map ofNat)]

def boolS (b : Bool) : Sexp := .atom (if b then "true" else "false")

def splitToSexp : Option SplitSt → Sexp
  | none => tagged "err" []
  | some st => tagged "ok" [tagged "num_single" [ofInt st.numSingle], tagged "num_none" [ofNat st.numNone],
      tagged "num_squash" [ofNat st.numSquash], tagged "isinteger" [boolS st.isInteger],
      tagged "has_bool" [boolS st.hasBool], tagged "is_nd_tensor" [boolS st.isNd],
      tagged "split_dim" [if st.hasBool then ofInt st.splitDim else .atom "na"],
      tagged "mask_loc" [if st.hasBool then ofNat st.maskLoc else .atom "na"],
      tagged "mask_dim" [if st.hasBool then ofNat st.maskDim else .atom "na"]]

end C08D

open C08D in
/-- line-protocol handler for C08 -/
def handleC08 (cmd : String) (args : List Sexp) : Option Sexp :=
  match cmd, args with
  -- (c08.spec (shape 2 3) (ix ...)) : torch-spec indexing of arange(shape)
  | "c08.spec", [sh, ix] => do
      let sh ← shapeOf? sh
      let ix ← ixsOf? ix
      match idxShape ix sh with
      | none => pure (tagged "err" [])
      | some s =>
        let r := idxT ix (T.arange 0 sh)
        pure (tagged "ok" [tagged "shape" (s.map ofNat), tagged "vals" (r.toList.map ofInt)])
  -- (c08.get (bs ..) n sd (feats ..) (ix ..))
  | "c08.get", [bs, n, sd, feats, ix] => do
      let bs ← shapeOf? bs
      let n ← asNat? n
      let sd ← asNat? sd
      let feats ← featsOf? feats
      let ix ← ixsOf? ix
      pure (resToSexp (lazyGetM (mkLazy bs n sd feats) ix))
  -- dense spec on the stacked members: (c08.dense (bs ..) n sd (feats ..) (ix ..))
  | "c08.dense", [bs, n, sd, feats, ix] => do
      let bs ← shapeOf? bs
      let n ← asNat? n
      let sd ← asNat? sd
      let feats ← featsOf? feats
      let ix ← ixsOf? ix
      match (absL (mkLazy bs n sd feats)).getitem ix with
      | none => pure (tagged "err" [])
      | some m => pure (tagged "ok" (tdToSexp m))
  -- (c08.set (bs ..) n sd (feats ..) (ix ..)) : members after `lazy[ix] = value`
  | "c08.set", [bs, n, sd, feats, ix] => do
      let bs ← shapeOf? bs
      let n ← asNat? n
      let sd ← asNat? sd
      let feats ← featsOf? feats
      let ix ← ixsOf? ix
      let L := mkLazy bs n sd feats
      match (convertEllipsis ix L.batch.length).bind fun ix' => idxShape ix' L.batch with
      | none => pure (tagged "err" [])
      | some ibs => pure (membersToSexp (lazySetM L ix (mkValue ibs feats)))
  -- (c08.set_tensor (bs ..) n sd (feats ..) (ix ..) (vshape ..)) : the members after `lazy[index] = tensor`,
  -- the tensor being `900000 + arange` of shape vshape
  | "c08.set_tensor", [bs, n, sd, feats, ix, vshape] => do
      let bs ← shapeOf? bs
      let n ← asNat? n
      let sd ← asNat? sd
      let feats ← featsOf? feats
      let ix ← ixsOf? ix
      let vshape ← shapeOf? vshape
      let L := mkLazy bs n sd feats
      let featOf (k : String) : Shape := ((feats.find? (·.1 == k)).map (·.2)).getD []
      pure (membersToSexp (lazySetTensor L (feats.map (·.1)) featOf ix (T.arange 900000 vshape)))
  -- (c08.update_at (bs ..) n sd (feats ..) (ix ..)) : the members after `lazy.update_at_(value, index)`
  | "c08.update_at", [bs, n, sd, feats, ix] => do
      let bs ← shapeOf? bs
      let n ← asNat? n
      let sd ← asNat? sd
      let feats ← featsOf? feats
      let ix ← ixsOf? ix
      let L := mkLazy bs n sd feats
      match (convertEllipsis ix L.batch.length).bind fun ix' => idxShape ix' L.batch with
      | none => pure (tagged "err" [])
      | some ibs => pure (membersToSexp (lazyUpdateAt L ix (mkValue ibs feats)))
  -- (c08.shape (bs ..) n sd (feats ..) (unsqueeze d) | (squeeze d) | (transpose a b) | (permute d ..) | (unbind d))
  | "c08.shape", [bs, n, sd, feats, .list (.atom op :: args)] => do
      let bs ← shapeOf? bs
      let n ← asNat? n
      let sd ← asNat? sd
      let feats ← featsOf? feats
      let args ← ints? args
      let L := mkLazy bs n sd feats
      match op, args with
      | "unsqueeze", [d] => pure (resToSexp ((lazyUnsqueeze L d).map .lazy))
      | "squeeze", [d] => pure (resToSexp (lazySqueeze L d))
      | "transpose", [a, b] => pure (resToSexp ((lazyTranspose L a b).map .lazy))
      | "permute", ds => pure (resToSexp ((lazyPermute L ds).map .lazy))
      | "unbind", [d] =>
          let r : Int := L.batch.length
          let nd : Int := if d < 0 then r + d else d
          if nd < 0 ∨ nd ≥ r then pure (tagged "err" [])
          else pure (tagged "seq" ((lazyUnbind L nd.toNat).map fun x => resToSexp (some x)))
      | _, _ => none
  -- (c08.cat sd dim (feats ..) (op (bs ..) n) (op (bs ..) n) ..) : torch.cat of lazy stacks, no out=
  | "c08.cat", sd :: dim :: feats :: ops => do
      let sd ← asNat? sd
      let dim ← asInt? dim
      let feats ← featsOf? feats
      let ops ← ops.mapM fun
        | .list [.atom "op", bs, n] => do pure ((← shapeOf? bs), (← asNat? n))
        | _ => none
      let Ls := (List.range ops.length).map fun j =>
        match ops[j]? with
        | some (bs, n) => mkOperand bs n sd feats j
        | none => mkOperand [] 0 sd feats j
      pure (resToSexp ((lazyCat Ls dim).map .lazy))
  -- (c08.catout sd dim sd_out (feats ..) (op (bs ..) n) ..) : torch.cat(ops, dim, out=O), O a lazy stack of the result's batch size stacked along sd_out
  | "c08.catout", sd :: dim :: sdo :: feats :: ops => do
      let sd ← asNat? sd
      let dim ← asInt? dim
      let sdo ← asNat? sdo
      let feats ← featsOf? feats
      let ops ← ops.mapM fun
        | .list [.atom "op", bs, n] => do pure ((← shapeOf? bs), (← asNat? n))
        | _ => none
      let Ls := (List.range ops.length).map fun j =>
        match ops[j]? with
        | some (bs, n) => mkOperand bs n sd feats j
        | none => mkOperand [] 0 sd feats j
      match Ls with
      | [] => pure (tagged "err" [])
      | L0 :: _ =>
        let r : Int := L0.batch.length
        let d0 : Int := if dim < 0 then r + dim else dim
        if d0 ≥ r ∨ d0 < 0 ∨ sdo ≥ L0.batch.length then pure (tagged "err" []) else
        let catBatch := L0.batch.set d0.toNat ((Ls.map fun L => at0 L.batch d0.toNat).sum)
        let O := mkOperand (catBatch.eraseIdx sdo) (at0 catBatch sdo) sdo feats 9
        pure (membersToSexp (lazyCatOut Ls dim O))
  -- (c08.stackout sd dim sd_out (feats ..) (bs ..) n k) : torch.stack(k lazy stacks, dim, out=O)
  | "c08.stackout", [sd, dim, sdo, feats, bs, n, k] => do
      let sd ← asNat? sd
      let dim ← asNat? dim
      let sdo ← asNat? sdo
      let feats ← featsOf? feats
      let bs ← shapeOf? bs
      let n ← asNat? n
      let k ← asNat? k
      let Ls := (List.range k).map fun j => mkOperand bs n sd feats j
      match Ls with
      | [] => pure (tagged "err" [])
      | L0 :: _ =>
        if dim > L0.batch.length ∨ sdo > L0.batch.length then pure (tagged "err" []) else
        let stackBatch := L0.batch.insertIdx dim k
        let O := mkOperand (stackBatch.eraseIdx sdo) (at0 stackBatch sdo) sdo feats 9
        pure (membersToSexp (lazyStackOnto O (Ls.map absL) dim))
  -- (c08.stack sd dim (feats ..) (op (bs ..) n) ..) : torch.stack of lazy stacks sharing their stack dim, no out=
  | "c08.stack", sd :: dim :: feats :: ops => do
      let sd ← asNat? sd
      let dim ← asInt? dim
      let feats ← featsOf? feats
      let ops ← ops.mapM fun
        | .list [.atom "op", bs, n] => do pure ((← shapeOf? bs), (← asNat? n))
        | _ => none
      let Ls := (List.range ops.length).map fun j =>
        match ops[j]? with
        | some (bs, n) => mkOperand bs n sd feats j
        | none => mkOperand [] 0 sd feats j
      pure (resToSexp ((lazyStackOp Ls dim).map .lazy))
  -- (c08.insert (bs ..) n sd (feats ..) index) : members after `lazy.insert(index, new)` (new = operand 7 provenance)
  | "c08.insert", [bs, n, sd, feats, index] => do
      let bs ← shapeOf? bs
      let n ← asNat? n
      let sd ← asNat? sd
      let feats ← featsOf? feats
      let index ← asInt? index
      let L := mkLazy bs n sd feats
      let new := ((mkOperand bs 1 sd feats 7).members[0]?).getD default
      pure (resToSexp ((lazyInsert L index new).map .lazy))
  -- (c08.update_ (bs ..) n sd (feats ..) (keys k ..)) : members after `lazy.update_(value)`, value = mkValue of the full batch restricted to the keys
  | "c08.update_", [bs, n, sd, feats, .list (.atom "keys" :: ks)] => do
      let bs ← shapeOf? bs
      let n ← asNat? n
      let sd ← asNat? sd
      let feats ← featsOf? feats
      let ks ← ks.mapM asAtom?
      let L := mkLazy bs n sd feats
      let v := mkValue L.batch feats
      pure (membersToSexp (lazyUpdate_ L { v with keys := ks }))
  -- (c08.apply (bs ..) n sd (feats ..) op) : `lazy.apply(fn)` / `lazy.apply(fn, other)`, other = dense stack of operand 1
  | "c08.apply", [bs, n, sd, feats, .atom op] => do
      let bs ← shapeOf? bs
      let n ← asNat? n
      let sd ← asNat? sd
      let feats ← featsOf? feats
      let L := mkLazy bs n sd feats
      let other := absL (mkOperand bs n sd feats 1)
      match op with
      | "mul3add1" => pure (membersToSexp (some (lazyApply1 L fun x => 3 * x + 1)))
      | "neg" => pure (membersToSexp (some (lazyApply1 L fun x => -x)))
      | "twice_plus" => pure (membersToSexp (lazyApply2 L other fun x y => 2 * x + y))
      | "sub" => pure (membersToSexp (lazyApply2 L other fun x y => x - y))
      | "where_lt" => pure (membersToSexp (lazyApply2 L other fun x y => if x % 3 = 0 then x else y))
      -- comparisons (`_dispatch_comparison`): the Bool result is printed as 0 / 1
      | "lt_other" => pure (membersToSexp ((lazyCompare L other fun x y => decide (x < y)).map fun Lb => lazyApply1 Lb fun b => if b then (1 : Int) else 0))
      | "ge_other_shift" => pure (membersToSexp ((lazyCompare L other fun x y => decide (x + 1000003 ≥ y)).map fun Lb => lazyApply1 Lb fun b => if b then (1 : Int) else 0))
      | "gt_scalar" => pure (membersToSexp (some (lazyApply1 (lazyCompareScalar L 10001 fun x y => decide (x > y)) fun b => if b then (1 : Int) else 0)))
      -- reductions without dim over a comparison: (all, any)
      | "all_any_gt" =>
          let Lb := lazyCompareScalar L 10001 fun x y => decide (x > y)
          pure (tagged "ok" [boolS (lazyAll Lb), boolS (lazyAny Lb)])
      | "all_any_ge0" =>
          let Lb := lazyCompareScalar L 0 fun x y => decide (x ≥ y)
          pure (tagged "ok" [boolS (lazyAll Lb), boolS (lazyAny Lb)])
      | _ => none
  -- (c08.resize (bs ..) n sd (feats ..) (split dim s ..) | (split_int size dim) | (repeat_interleave k dim) | (repeat r ..))
  | "c08.resize", [bs, n, sd, feats, .list (.atom op :: args)] => do
      let bs ← shapeOf? bs
      let n ← asNat? n
      let sd ← asNat? sd
      let feats ← featsOf? feats
      let args ← ints? args
      let L := mkLazy bs n sd feats
      let pieces (r : Option (List (LRes Int))) : Sexp :=
        match r with
        | none => tagged "err" []
        | some ps => tagged "ok" (ps.map fun p => resToSexp (some p))
      match op, args with
      | "split", dim :: sizes => pure (pieces (lazySplit L (sizes.map Int.toNat) dim))
      | "split_int", [size, dim] => pure (pieces (lazySplitInt L size.toNat dim))
      | "repeat_interleave", [k, dim] => pure (membersToSexp (lazyRepeatInterleave L k.toNat dim))
      | "repeat", reps => pure (membersToSexp (lazyRepeat L (reps.map Int.toNat)))
      | "expand", shape => pure (membersToSexp (lazyExpand L (shape.map Int.toNat)))
      | _, _ => none
  -- (c08.view (bs ..) n sd (feats ..) (view s ..) | (flatten start end)) : the flatten branch of `_view`:
  -- stack dim and number of pieces, the kind of every piece (member / lazy sd), the materialised result,
  -- and the SPEC `T.flattenAt` applied to the dense stack (compared with torch's reshape by the harness)
  | "c08.view", [bs, n, sd, feats, .list (.atom op :: args)] => do
      let bs ← shapeOf? bs
      let n ← asNat? n
      let sd ← asNat? sd
      let feats ← featsOf? feats
      let args ← ints? args
      let L := mkLazy bs n sd feats
      let shape? : Option Shape :=
        match op, args with
        | "view", sh => some (sh.map Int.toNat)
        | "flatten", [s, e] =>
            let r : Int := L.batch.length
            let s' : Int := if s < 0 then r + s else s
            let e' : Int := if e < 0 then r + e else e
            if s' < 0 ∨ s' ≥ r ∨ e' < 0 ∨ e' ≥ r ∨ e' < s' then none
            else some (L.batch.take s'.toNat ++ [numel ((L.batch.drop s'.toNat).take (e'.toNat - s'.toNat + 1))] ++ L.batch.drop (e'.toNat + 1))
        | _, _ => none
      let res : Option (LRes2 Int) :=
        match op, args with
        | "view", sh => lazyView L (sh.map Int.toNat)
        | "flatten", [s, e] => lazyFlatten L s e
        | _, _ => none
      match res, shape? with
      | some (.lazy i ps), some shape =>
          let kinds := ps.map fun p => match p with
            | .lazy Li => tagged "lazy" [ofNat Li.sd]
            | _ => Sexp.atom "member"
          let spec : Option (TD Int) := (checkIsFlatten shape L.batch).map fun p =>
            (absL L).mapLeaves shape (fun t => t.flattenAt p.1 (p.2 - p.1 + 1))
          pure (tagged "ok" [tagged "kind" [.atom "lazy", ofNat i, ofNat ps.length, tagged "pieces" kinds],
            tagged "value" (tdToSexp (absR2 (.lazy i ps))),
            tagged "spec" (match spec with | some d => tdToSexp d | none => [])])
      | _, _ => pure (tagged "err" [])
  -- (c08.get2 (bs ..) n_in n_out sd_in sd_out (feats ..) (ix ..)) : read on a stack of stacks
  | "c08.get2", [bs, nin, nout, sdin, sdout, feats, ix] => do
      let bs ← shapeOf? bs
      let nin ← asNat? nin
      let nout ← asNat? nout
      let sdin ← asNat? sdin
      let sdout ← asNat? sdout
      let feats ← featsOf? feats
      let ix ← ixsOf? ix
      let L2 : Lazy2 Int := ⟨(List.range nout).map fun j => mkOperand bs nin sdin feats j, sdout⟩
      pure (res2ToSexp (lazyGet2T L2 ix))
  -- (c08.set2 (bs ..) n_in n_out sd_in sd_out (feats ..) (ix ..)) : the dense stack of stacks after `lazy_of_lazy[ix] = value`
  | "c08.set2", [bs, nin, nout, sdin, sdout, feats, ix] => do
      let bs ← shapeOf? bs
      let nin ← asNat? nin
      let nout ← asNat? nout
      let sdin ← asNat? sdin
      let sdout ← asNat? sdout
      let feats ← featsOf? feats
      let ix ← ixsOf? ix
      let L2 : Lazy2 Int := ⟨(List.range nout).map fun j => mkOperand bs nin sdin feats j, sdout⟩
      match (convertEllipsis ix L2.batch.length).bind fun ix' => idxShape ix' L2.batch with
      | none => pure (tagged "err" [])
      | some ibs =>
        match lazySet2 L2 ix (mkValue ibs feats) with
        | none => pure (tagged "err" [])
        | some R => pure (tagged "ok" (tagged "sds" (ofNat R.sd :: R.members.map fun Li => ofNat Li.sd) :: tdToSexp (abs2 R)))
  -- (c08.shape2 (bs ..) n_in n_out sd_in sd_out (feats ..) (unsqueeze d) | (squeeze d) | (permute d ..) | (transpose a b)) : shape op on a stack of stacks
  | "c08.shape2", [bs, nin, nout, sdin, sdout, feats, .list (.atom op :: args)] => do
      let bs ← shapeOf? bs
      let nin ← asNat? nin
      let nout ← asNat? nout
      let sdin ← asNat? sdin
      let sdout ← asNat? sdout
      let feats ← featsOf? feats
      let args ← ints? args
      let L2 : Lazy2 Int := ⟨(List.range nout).map fun j => mkOperand bs nin sdin feats j, sdout⟩
      let out (r : Option (Lazy2 Int)) : Sexp :=
        match r with
        | none => tagged "err" []
        | some R => tagged "ok" (tagged "kind" [.atom "lazy2", ofNat R.sd, ofNat R.members.length,
            tagged "inner_sd" (R.members.map fun Li => ofNat Li.sd)] :: tdToSexp (abs2 R))
      -- squeeze may return the stack itself / a stack of stacks (`lazy2`), a stack of plain members (`lazy1`:
      -- the inner stacks returned their only member, or the only inner stack was returned) or a member
      let outR (r : Option (LRes2 Int)) : Sexp :=
        match r with
        | none => tagged "err" []
        | some (.inner (.lazy Li)) => tagged "ok" (tagged "kind" [.atom "lazy1", ofNat Li.sd, ofNat Li.members.length] :: tdToSexp (absL Li))
        | some (.inner r') => tagged "ok" (tagged "kind" [.atom "member"] :: tdToSexp (absR r'))
        | some (.empty b) => tagged "ok" [tagged "kind" [.atom "empty"], tagged "bs" (b.map ofNat)]
        | some (.lazy sd rs) =>
            let inner := rs.filterMap fun x => match x with | .lazy Li => some Li.sd | _ => none
            if inner.length = rs.length then
              tagged "ok" (tagged "kind" [.atom "lazy2", ofNat sd, ofNat rs.length, tagged "inner_sd" (inner.map ofNat)]
                :: tdToSexp (absR2 (.lazy sd rs)))
            else tagged "ok" (tagged "kind" [.atom "lazy1", ofNat sd, ofNat rs.length] :: tdToSexp (absR2 (.lazy sd rs)))
      match op, args with
      | "squeeze", [d] => pure (outR (lazySqueeze2 L2 d))
      | "unsqueeze", [d] => pure (out (lazyUnsqueeze2 L2 d))
      | "permute", ds => pure (out (lazyPermute2 L2 ds))
      | "transpose", [a, b] => pure (out (lazyTranspose2 L2 a b))
      | _, _ => none
  | "c08.split", [bs, n, sd, ix] => do
      let bs ← shapeOf? bs
      let n ← asNat? n
      let sd ← asNat? sd
      let ix ← ixsOf? ix
      let L := mkLazy bs n sd [("a", [])]
      pure (splitToSexp ((convertEllipsis ix L.batch.length).bind (splitIndex L)))
  | _, _ => none

end TdVerif.Drive
