import TdVerif.Sexp

namespace TdVerif.Drive
open TdVerif Sexp

/-- line-protocol handler for C08: commands are named `c08.<something>` -/
def handleC08 (cmd : String) (args : List Sexp) : Option Sexp :=
  match cmd, args with
  | _, _ => none

end TdVerif.Drive
