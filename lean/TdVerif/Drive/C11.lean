import TdVerif.Sexp

namespace TdVerif.Drive
open TdVerif Sexp

/-- line-protocol handler for C11: commands are named `c11.<something>` -/
def handleC11 (cmd : String) (args : List Sexp) : Option Sexp :=
  match cmd, args with
  | _, _ => none

end TdVerif.Drive
