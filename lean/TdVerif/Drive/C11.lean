import TdVerif.Sexp
import TdVerif.Model.C11Consolidate
import TdVerif.Model.C11Pytree
import TdVerif.Model.C11Rebuild
import TdVerif.Model.C11StateDict
import TdVerif.Model.C11ToDict

namespace TdVerif.Drive
open TdVerif Sexp TdVerif.C11

namespace C11D

def path? : Sexp → Option (List String)
  | .list l => l.mapM asAtom?
  | _ => none

def optNames? : Sexp → Option (Option (List String))
  | .atom "none" => some none
  | .list l => (l.mapM asAtom?).map some
  | _ => none

def optDev? : Sexp → Option (Option String)
  | .atom "none" => some none
  | .atom s => some (some s)
  | _ => none

def bool? : Sexp → Option Bool
  | .atom "true" => some true
  | .atom "false" => some false
  | _ => none

def leafMeta? (d i sh : Sexp) : Option LeafMeta := do
  let d ← asAtom? d; let i ← asNat? i; let sh ← asList? sh; let sh ← nats? sh
  pure ⟨d, i, sh⟩

def node? : Sexp → Option (List String × NodeMeta)
  | .list [p, .list b, n, d, l] => do
    pure (← path? p, ⟨← nats? b, ← optNames? n, ← optDev? d, ← bool? l, []⟩)
  | .list [p, .list b, n, d, l, .list nts] => do
    let nts ← nts.mapM fun x => match x with
      | Sexp.list [Sexp.atom k, Sexp.atom v] => some (k, v)
      | _ => none
    pure (← path? p, ⟨← nats? b, ← optNames? n, ← optDev? d, ← bool? l, nts⟩)
  | _ => none

def entry? : Sexp → Option Entry
  | .list [p, d, i, sh, .list bytes] => do
    pure ⟨← path? p, ← leafMeta? d i sh, .own (← nats? bytes)⟩
  | _ => none

def op? : Sexp → Option Op
  | .list [.atom "consolidate", f] => do pure (.consolidate (← bool? f))
  | .list [.atom "set", p, d, i, sh, .list bytes] => do pure (.set (← path? p) (← leafMeta? d i sh) (← nats? bytes))
  | .list [.atom "del", p] => do pure (.del (← path? p))
  | .list [.atom "inplace", p, .list bytes] => do pure (.setInplace (← path? p) (← nats? bytes))
  | .list [.atom "lock"] => some .lock
  | .list [.atom "unlock"] => some .unlock
  | .list [.atom "names", n] => do pure (.setNames (← optNames? n))
  | .list [.atom "rename", a, b] => do pure (.rename (← path? a) (← path? b))
  | .list [.atom "reduce"] => some .reduce
  | .list (.atom "reduce" :: _) => some .reduce
  | .list [.atom "setnt", p, .atom k, .atom v] => do pure (.setNonTensor (← path? p) k v)
  | .list [.atom "delnt", p, .atom k] => do pure (.delNonTensor (← path? p) k)
  | .list [.atom "swap", a, b] => do pure (.swap (← path? a) (← path? b))
  | .list (.atom "assign" :: a :: b :: _) => do pure (.assign (← path? a) (← path? b))
  | _ => none

def pathSx (p : List String) : Sexp := .list (p.map .atom)

def nodeSx (p : List String × NodeMeta) : Sexp :=
  .list [pathSx p.1, ofNats p.2.batch,
    (match p.2.names with | none => .atom "none" | some l => .list (l.map .atom)),
    (match p.2.device with | none => .atom "none" | some d => .atom d),
    .atom (if p.2.locked then "true" else "false"),
    .list (p.2.nts.map fun q => .list [.atom q.1, .atom q.2])]

def obsSx (o : Obs) : Sexp :=
  .list [.list (o.nodes.map nodeSx),
    .list (o.leaves.map fun (k, l) => .list [pathSx k, .atom l.lm.dtype, ofNats l.lm.shape, ofNats l.bytes])]

def slotSx (s : Slot) : Sexp := ofNats [s.start, s.stop, s.pad]

partial def pt? : Sexp → Option PT
  | .list [.atom "l", v] => (asNat? v).map PT.leaf
  | .list (.atom "n" :: .list b :: n :: d :: l :: kids) => do
    let kids ← kids.mapM fun k => match k with
      | Sexp.list [Sexp.atom key, t] => (pt? t).map fun t' => (key, t')
      | _ => none
    pure (.node (← nats? b) (← optNames? n) (← optDev? d) (← bool? l) kids)
  | _ => none

def namesSx : Option (List String) → Sexp
  | none => .atom "none"
  | some l => .list (l.map .atom)
def devSx : Option String → Sexp
  | none => .atom "none"
  | some d => .atom d

partial def ptSx : PT → Sexp
  | .leaf v => .list [.atom "l", ofNat v]
  | .node b n d l kids => .list (.atom "n" :: ofNats b :: namesSx n :: devSx d :: .atom (if l then "true" else "false") ::
      kids.map fun (k, t) => .list [.atom k, ptSx t])

partial def specSx : Spec → Sexp
  | .leaf => .atom "*"
  | .node keys b n d kids => .list [.list (keys.map .atom), ofNats b, namesSx n, devSx d, .list (kids.map specSx)]

def optNat? : Sexp → Option (Option Nat)
  | .atom "none" => some none
  | s => (asNat? s).map some

def item? : Sexp → Option (Item Nat)
  | .list [.atom "p", .atom k, v] => do pure (.plain k (← asNat? v))
  | .list [.atom "j", .atom k, v, l, o] => do pure (.njt k (← asNat? v) (← optNat? l) (← asNat? o))
  | _ => none

def itemSx : Item Nat → Sexp
  | .plain k v => .list [.atom "p", .atom k, ofNat v]
  | .njt k v l o => .list [.atom "j", .atom k, ofNat v, (match l with | none => .atom "none" | some x => ofNat x), ofNat o]

def tagSx : Tag → Sexp
  | .plain => .atom "plain" | .values => .atom "values" | .lengths => .atom "lengths" | .offsets => .atom "offsets"

partial def pdSx : PD → Sexp
  | .leaf v => .list [.atom "l", ofNat v]
  | .dict es => .list (.atom "d" :: es.map fun (k, t) => .list [.atom k, pdSx t])

partial def sdSx : SD → Sexp
  | .leaf v => .list [.atom "l", ofNat v]
  | .dict b d es => .list (.atom "d" :: ofNats b :: devSx d :: es.map fun (k, t) => .list [.atom k, sdSx t])

end C11D
open C11D

/-- line-protocol handler for C11: commands are named `c11.<something>` -/
def handleC11 (cmd : String) (args : List Sexp) : Option Sexp :=
  match cmd, args with
  -- (c11.layout (n…)) -> ((start stop pad)…) total ; pinned padding as second answer
  | "c11.layout", [.list ns] => do
      let ns ← nats? ns
      pure (.list [.list ((layout ns).map slotSx), ofNat (totalSize ns), .list ((layoutPinned ns).map slotSx)])
  -- (c11.encode (bytes…)…) -> cat bytes
  | "c11.encode", bs => do
      let bs ← bs.mapM fun b => (asList? b).bind nats?
      pure (ofNats (encodeCat bs))
  -- (c11.threaded (order…) (bytes…)…) -> storage after the tasks ran in that order over garbage
  | "c11.threaded", (.list order) :: bs => do
      let order ← nats? order
      let bs ← bs.mapM fun b => (asList? b).bind nats?
      let tasks := tasksFrom 0 bs
      let ts := order.filterMap fun i => tasks[i]?
      pure (ofNats ((runAssign (fun _ => 255) ts).toList (encodeCat bs).length))
  -- (c11.decode (storage…) ((dtype itemsize (shape) start stop pad)…)) -> leaves or err
  | "c11.decode", [.list st, .list specs] => do
      let st ← nats? st
      let specs ← specs.mapM fun s => match s with
        | Sexp.list [d, i, sh, a, b, c] => do
          pure ((← leafMeta? d i sh), (⟨← asNat? a, ← asNat? b, ← asNat? c⟩ : Slot))
        | _ => none
      match decodeAll st (specs.map (·.1)) (specs.map (·.2)) with
      | some ls => pure (tagged "ok" (ls.map fun l => ofNats l.bytes))
      | none => pure (.atom "err")
  -- (c11.history (nodes…) (entries…) (ops…)) -> (fresh layout storage fixed pinned obs)
  | "c11.history", [.list nodes, .list entries, .list ops] => do
      let nodes ← nodes.mapM node?
      let entries ← entries.mapM entry?
      let ops ← ops.mapM op?
      let s := run ⟨⟨nodes, entries⟩, none⟩ ops
      let fresh := match s.snap with
        | none => "nosnap"
        | some sn => if describes sn s.td then "fresh" else "stale"
      let lay := match s.snap with
        | none => Sexp.atom "none"
        | some sn => .list [.list (sn.leaves.map fun p => .list [pathSx p.1, .atom p.2.1.dtype, ofNats p.2.1.shape, slotSx p.2.2]), ofNats sn.storage]
      pure (.list [.atom fresh, lay, obsSx (reduceFixed s), obsSx (reducePinned s), obsSx (observe s)])
  -- (c11.pytree tree (newleaves…)) -> (leaves spec rebuilt-with-newleaves)
  | "c11.pytree", [t, .list nl] => do
      let t ← pt? t; let nl ← nats? nl
      let f := flatten t
      let r := match unflatten f.2 nl with
        | some (t', _) => ptSx t'
        | none => Sexp.atom "none"
      pure (.list [ofNats f.1, specSx f.2, r])
  -- (c11.njt (item…)) -> ((tag key v)…) rebuilt rebuilt-without-reset
  | "c11.njt", [.list items] => do
      let items ← items.mapM item?
      let flat := flattenItems items
      let out := fun (r : Option (List (Item Nat))) => match r with
        | some l => Sexp.list (l.map itemSx)
        | none => Sexp.atom "none"
      pure (.list [.list (flat.map fun (t, k, v) => .list [tagSx t, .atom k, ofNat v]),
        out (rebuildLoop none none flat), out (rebuildLoopNoReset none none flat)])
  -- (c11.statedict tree dest) -> (state-dict, dest after load_state_dict | none)
  | "c11.statedict", [t, dest] => do
      let t ← pt? t; let dest ← pt? dest
      let sd := stateDict t
      pure (.list [sdSx sd, match loadSD sd dest with | some r => ptSx r | none => Sexp.atom "none"])
  -- (c11.todict tree) -> (plain dict, from_dict(dict, batch_size / names / device of the root))
  | "c11.todict", [t] => do
      let t ← pt? t
      match t with
      | .node b n d _ _ => pure (.list [pdSx (toDict t), ptSx (fromDict b n d (toDict t))])
      | .leaf _ => none
  -- (c11.namedtuple tree) -> (namedtuple structure, from_namedtuple(nt, batch_size / device of the root))
  | "c11.namedtuple", [t] => do
      let t ← pt? t
      match t with
      | .node b _ d _ _ => pure (.list [pdSx (toNamedtuple t), ptSx (fromNamedtuple b d (toNamedtuple t))])
      | .leaf _ => none
  -- (c11.lazyfrom ((key v)…)) -> members in stack order, or none
  | "c11.lazyfrom", [.list d] => do
      let d ← d.mapM fun p => match p with
        | Sexp.list [Sexp.atom k, v] => (asNat? v).map fun n => (k, n)
        | Sexp.list [k, v] => do pure (toString (← asNat? k), ← asNat? v)
        | _ => none
      match lazyFromDict d with
      | some ms => pure (.list [ofNats ms, ofNats (lazyFromDictSorted d)])
      | none => pure (.atom "none")
  | _, _ => none

end TdVerif.Drive
