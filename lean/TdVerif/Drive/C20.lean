import TdVerif.Sexp

namespace TdVerif.Drive
open TdVerif Sexp

/-- line-protocol handler for C20: commands are named `c20.<something>` -/
def handleC20 (cmd : String) (args : List Sexp) : Option Sexp :=
  match cmd, args with
  | _, _ => none

end TdVerif.Drive
