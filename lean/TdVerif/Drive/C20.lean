import TdVerif.Sexp
import TdVerif.Model.C20Apply

namespace TdVerif.Drive
open TdVerif Sexp TdVerif.C20

/-! leaves are S-expressions (symbolic): `(l <id>)` for an input tensor, `(ap <key> <item> (<args>))` for a value
returned by the user function -/

abbrev TreeS := Tree Sexp

def bool20? : Sexp → Option Bool
  | .atom "true" => some true
  | .atom "false" => some false
  | _ => none

def meta? : Sexp → Option Meta
  | .list [.atom "m", .list batch, names, dev, locked] => do
      let batch ← nats? batch
      let names : Option (List String) ← (match names with
        | .atom "none" => some none
        | .list l => (l.mapM asAtom?).map some
        | _ => none)
      let dev : Option String ← (match dev with
        | .atom "none" => some none
        | .atom d => some (some d)
        | _ => none)
      pure ⟨batch, names, dev, ← bool20? locked⟩
  | _ => none

mutual
partial def tree? : Sexp → Option TreeS
  | .list [.atom "l", id] => some (.leaf (.list [.atom "l", id]))
  | .list (.atom "n" :: m :: es) => do
      let m ← meta? m
      let es ← entries? es
      pure (.node m es)
  | _ => none
partial def entries? : List Sexp → Option (Entries Sexp)
  | [] => some .nil
  | .list [.atom k, t] :: rest => do
      let t ← tree? t
      let r ← entries? rest
      pure (.cons k t r)
  | _ => none
end

def metaToSexp (m : Meta) : Sexp :=
  tagged "m" [ofNats m.batch,
    (match m.names with | none => .atom "none" | some ns => .list (ns.map .atom)),
    (match m.device with | none => .atom "none" | some d => .atom d),
    .atom (if m.locked then "true" else "false")]

mutual
partial def treeToSexp : TreeS → Sexp
  | .leaf v => v
  | .node m es => tagged "n" (metaToSexp m :: entriesToSexp es)
partial def entriesToSexp : Entries Sexp → List Sexp
  | .nil => []
  | .cons k t rest => .list [.atom k, treeToSexp t] :: entriesToSexp rest
end

mutual
/-- leaf descriptors below a tree, in order -/
partial def leafList : TreeS → List Sexp
  | .leaf v => [v]
  | .node _ es => entriesLeafList es
partial def entriesLeafList : Entries Sexp → List Sexp
  | .nil => []
  | .cons _ t rest => leafList t ++ entriesLeafList rest
end

/-- what the recording Python function sees of an item / operand -/
def descr : TreeS → Sexp
  | .leaf v => v
  | t => tagged "td" (leafList t)

def descrArg : Arg Sexp → Sexp
  | .present t => descr t
  | .dflt => .atom "dflt"

/-- id used by the drop rule: the leaf's own id, or the first leaf id below a tensordict item -/
def dropId (t : TreeS) : String :=
  match leafList t with
  | (.list [.atom "l", .atom id]) :: _ => id
  | _ => "-"

/-- the user function of the harness: returns `None` for the items whose id is in `drop`, otherwise a fresh
value that records (key, item, operands) -/
def symFn (drop : List String) : Fn Sexp := fun key item args =>
  if drop.contains (dropId item) then none
  else some (.leaf (tagged "ap" [.list (key.map .atom), descr item, .list (args.map descrArg)]))

def override? {α : Type} (p : Sexp → Option α) : Sexp → Option (Override α)
  | .atom "nodef" => some .noDefault
  | .list [.atom "given", x] => (p x).map .given
  | _ => none

def optStr? : Sexp → Option (Option String)
  | .atom "none" => some none
  | .atom s => some (some s)
  | _ => none

def optNames? : Sexp → Option (Option (List String))
  | .atom "none" => some none
  | .list l => (l.mapM asAtom?).map some
  | _ => none

def opts? : Sexp → Option Opts
  | .list [.atom "o", inplace, hasDefault, fe, con, named, nk, bs, names, dev, checked, nal, pl] => do
      let fe : Option Bool ← (match fe with
        | .atom "none" => some none
        | x => (bool20? x).map some)
      let bs : Option (List Nat) ← (match bs with
        | .atom "none" => some none
        | .list l => (nats? l).map some
        | _ => none)
      pure { inplace := ← bool20? inplace, hasDefault := ← bool20? hasDefault, filterEmpty := fe,
             callOnNested := ← bool20? con, named := ← bool20? named, nestedKeys := ← bool20? nk,
             batchSize := bs, names := ← override? optNames? names, device := ← override? optStr? dev,
             checked := ← bool20? checked, nodeAsLeaf := ← bool20? nal, propagateLock := ← bool20? pl }
  | _ => none

def resToSexp : Except Err (Option TreeS) → Sexp
  | .error e => tagged "err" [.atom e.toStr]
  | .ok none => .list [.atom "none"]
  | .ok (some t) => tagged "ok" [treeToSexp t]

def handleC20 (cmd : String) (args : List Sexp) : Option Sexp :=
  match cmd, args with
  | "c20.apply", [o, .list drop, self, .list others, out] => do
      let o ← opts? o
      let drop ← drop.mapM asAtom?
      let self ← tree? self
      let others ← others.mapM tree?
      let out : Option TreeS ← (match out with | .atom "none" => some none | x => (tree? x).map some)
      pure (resToSexp (apply o (symFn drop) self others out))
  | "c20.mtapply", [o, .list drop, .list sched, self, .list others, out] => do
      let o ← opts? o
      let drop ← drop.mapM asAtom?
      let sched ← nats? sched
      let self ← tree? self
      let others ← others.mapM tree?
      let out : Option TreeS ← (match out with | .atom "none" => some none | x => (tree? x).map some)
      pure (resToSexp (mtApply o (symFn drop) sched self others out))
  | "c20.lazy_apply", [o, .list drop, .list pre, .list members, .list others, outs] => do
      let o ← opts? o
      let drop ← drop.mapM asAtom?
      let pre ← pre.mapM asAtom?
      let members ← members.mapM tree?
      let others ← others.mapM (fun l => match l with | .list ts => ts.mapM tree? | _ => none)
      let outs : Option (List TreeS) ← (match outs with
        | .atom "none" => some none
        | .list ts => (ts.mapM tree?).map some
        | _ => none)
      match applyLazy o (symFn drop) pre members others outs with
      | .error e => pure (tagged "err" [.atom e.toStr])
      | .ok none => pure (.list [.atom "none"])
      | .ok (some ms) => pure (tagged "ok" (ms.map treeToSexp))
  | _, _ => none

end TdVerif.Drive
