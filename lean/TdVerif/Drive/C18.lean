import TdVerif.Sexp
import TdVerif.Gen.PyFuns
import TdVerif.Model.SliceSpec
import TdVerif.Model.Key
import TdVerif.Model.Compile

namespace TdVerif.Drive
open TdVerif Sexp

partial def keyOfSexp : Sexp → Option Key
  | .atom "bad" => some .bad
  | .list [.atom "s", .atom s] => some (.str s)
  | .list (.atom "t" :: ks) => (ks.mapM keyOfSexp).map Key.tup
  | _ => none

def strsToSexp (l : List String) : Sexp := .list (l.map .atom)

def keyOutToSexp : Key.KeyOut → Sexp
  | .s s => tagged "s" [.atom s]
  | .t l => tagged "t" (l.map .atom)
  | .err => .atom "err"

def tripleToSexp : Except String (Int × Int × Int) → Sexp
  | .ok (a, b, c) => tagged "ok" [ofInt a, ofInt b, ofInt c]
  | .error e => tagged "err" [.atom e]

def optIntsToSexp : Option (List Int) → Sexp
  | some l => ofInts l
  | none => .atom "err"

def bsSpelling? (kind : String) (l : List Int) : Option Compile.BsSpelling :=
  match kind, l with
  | "size", l => some (.size l)
  | "tuple", l => some (.tuple l)
  | "list", l => some (.list l)
  | "int", [n] => some (.int n)
  | "absent", _ => some .none
  | "other", _ => some .other
  | _, _ => none

def handleC18 (cmd : String) (args : List Sexp) : Option Sexp :=
  match cmd, args with
  | "c18.slice_py", [a, b, c, l] => do
      let a ← asOptInt? a; let b ← asOptInt? b; let c ← asOptInt? c; let l ← asInt? l
      pure (tripleToSexp (Gen.sliceIndices a b c l))
  | "c18.slice_spec", [a, b, c, l] => do
      let a ← asOptInt? a; let b ← asOptInt? b; let c ← asOptInt? c; let l ← asInt? l
      pure (tripleToSexp (SliceSpec.indices a b c l))
  | "c18.tup_cpp", [k] => do pure (strsToSexp (Key.unravelTupCpp (← keyOfSexp k)))
  | "c18.tup_py", [k] => do pure (strsToSexp (Key.unravelTupPy (← keyOfSexp k)))
  | "c18.key_cpp", [k] => do pure (keyOutToSexp (Key.unravelKeyCpp (← keyOfSexp k)))
  | "c18.key_py", [k] => do pure (keyOutToSexp (Key.unravelKeyPy (← keyOfSexp k)))
  | "c18.parse_bs", [.atom kind, .list l, .atom src] => do
      let b ← bsSpelling? kind (← ints? l)
      let s : Compile.Src := if src = "td" then .td [4, 2] else .other
      pure (.list [optIntsToSexp (Compile.parseBsEager b s), optIntsToSexp (Compile.parseBsCompile b s)])
  | "c18.values_list", [.list ks, .list vs, .list sk] => do
      let ks ← ks.mapM asAtom?; let vs ← ints? vs; let sk ← sk.mapM asAtom?
      pure (.list [optIntsToSexp (Compile.valuesDict ks vs sk), optIntsToSexp (Compile.valuesIndex ks vs sk),
                   optIntsToSexp (Compile.itemsDict ks vs sk), optIntsToSexp (Compile.itemsIndex ks vs sk)])
  | _, _ => none

end TdVerif.Drive
