import TdVerif.Sexp
import TdVerif.Gen.PyFuns
import TdVerif.Model.SliceSpec
import TdVerif.Model.Key
import TdVerif.Model.Compile
import TdVerif.Model.InferSize
import TdVerif.Model.CheckKeys
import TdVerif.Model.ParseTo
import TdVerif.Model.NewUnsafe
import TdVerif.Model.FromTd
import TdVerif.Model.Memo
import TdVerif.Model.Consolidate

namespace TdVerif.Drive
open TdVerif Sexp

partial def keyOfSexp : Sexp → Option Key
  | .atom "bad" => some .bad
  | .list [.atom "s", .atom s] => some (.str s)
  | .list (.atom "t" :: ks) => (ks.mapM keyOfSexp).map Key.tup
  | _ => none

def strsToSexp (l : List String) : Sexp := .list (l.map .atom)

def keyOutToSexp : Key.KeyOut → Sexp
  | .s s => tagged "s" [.atom s]
  | .t l => tagged "t" (l.map .atom)
  | .err => .atom "err"

def tripleToSexp : Except String (Int × Int × Int) → Sexp
  | .ok (a, b, c) => tagged "ok" [ofInt a, ofInt b, ofInt c]
  | .error e => tagged "err" [.atom e]

def optIntsToSexp : Option (List Int) → Sexp
  | some l => ofInts l
  | none => .atom "err"

def bsSpelling? (kind : String) (l : List Int) : Option Compile.BsSpelling :=
  match kind, l with
  | "size", l => some (.size l)
  | "tuple", l => some (.tuple l)
  | "list", l => some (.list l)
  | "iter", l => some (.iter l)
  | "badseq", _ => some .badSeq
  | "int", [n] => some (.int n)
  | "absent", _ => some .none
  | "other", _ => some .other
  | _, _ => none

def keysArg? (kind : String) (ks : List Sexp) : Option Key.KeysArg :=
  match kind with
  | "list" => (ks.mapM keyOfSexp).map .list
  | "tuple" => (ks.mapM keyOfSexp).map .tuple
  | "other" => some .other
  | _ => none

def keyErrToSexp : Key.KeyErr → Sexp
  | .runtimeError => .atom "err:RuntimeError"
  | .typeError => .atom "err:TypeError"

def keyOutsToSexp : Except Key.KeyErr (List Key.KeyOut) → Sexp
  | .ok l => tagged "ok" (l.map keyOutToSexp)
  | .error e => keyErrToSexp e

def keyOutEToSexp : Except Key.KeyErr Key.KeyOut → Sexp
  | .ok r => keyOutToSexp r
  | .error e => keyErrToSexp e

def optKeyOutToSexp : Option Key.KeyOut → Sexp
  | some r => keyOutToSexp r
  | none => .atom "err"

def checkOutToSexp : CheckKeys.Out → Sexp
  | .keys l => tagged "keys" (l.map .atom)
  | .set l => tagged "set" (l.map .atom)
  | .keyError => .atom "KeyError"

def ptVal? : Sexp → Option ParseTo.Val
  | .atom "none" => some .none
  | .atom "badstr" => some .badDevStr
  | .list [.atom "num", t] => (asNat? t).map .pyNum
  | .atom "other" => some .other
  | .list [.atom "dev", d] => (asNat? d).map .dev
  | .list [.atom "dtype", t] => (asNat? t).map .dtype
  | .list [.atom "tensor", d, t] => do pure (.tensor (← asNat? d) (← asNat? t))
  | .list [.atom "bool", .atom b] => some (.pyBool (b == "true"))
  | .list [.atom "int", i] => (asNat? i).map .pyInt
  | .list [.atom "memfmt", m] => (asNat? m).map .memfmt
  | _ => none

def ptKw? : Sexp → Option (String × ParseTo.Val)
  | .list [.atom k, v] => (ptVal? v).map (fun x => (k, x))
  | _ => none

def optNatToSexp : Option Nat → Sexp
  | some n => ofNat n
  | none => .atom "none"

def ptResToSexp : ParseTo.Res → Sexp
  | .ok d t nb mf => tagged "ok" [optNatToSexp d, optNatToSexp t, .atom (if nb then "true" else "false"), optNatToSexp mf]
  | .typeError => .atom "TypeError"
  | .runtimeError => .atom "RuntimeError"

def nuNames? : Sexp → Option (Option (List (Option String)))
  | .atom "none" => some none
  | .list l => (l.mapM (fun (x : Sexp) => match x with
      | .atom "none" => some (none : Option String)
      | .atom a => some (some a)
      | _ => Option.none)).map some
  | _ => Option.none

def nuEntry? : Sexp → Option (String × List Nat)
  | .list [.atom k, .list shp] => (nats? shp).map (fun s => (k, s))
  | _ => none

def nuResToSexp : NewUnsafe.Res → Sexp
  | .ok td => tagged "ok" [ofNats td.batch, .list (td.names.map (fun n => match n with | some a => .atom a | none => .atom "none")),
      .atom (if td.locked then "true" else "false"), .list (td.entries.map (fun e => .list [.atom e.1, ofNats e.2]))]
  | .valueError => .atom "ValueError"
  | .runtimeError => .atom "RuntimeError"

def ftEntry? : Sexp → Option (String × Bool)
  | .list [.atom k, .atom v] => some (k, v == "none")
  | _ => none

def ftOutToSexp : FromTd.Out → Sexp
  | .keyError => .atom "KeyError"
  | .valueError => .atom "ValueError"
  | .ok d => tagged "ok" (d.map (fun e => .list [.atom e.1, .atom (if e.2 then "none" else "val")]))

def intResToSexp : Except String Int → Sexp
  | .ok r => tagged "ok" [ofInt r]
  | .error e => tagged "err" [.atom e]

def intsResToSexp : Except String (List Int) → Sexp
  | .ok l => tagged "ok" [ofInts l]
  | .error e => tagged "err" [.atom e]

def handleC18 (cmd : String) (args : List Sexp) : Option Sexp :=
  match cmd, args with
  | "c18.slice_py", [a, b, c, l] => do
      let a ← asOptInt? a; let b ← asOptInt? b; let c ← asOptInt? c; let l ← asInt? l
      pure (tripleToSexp (Gen.sliceIndices a b c l))
  | "c18.slice_spec", [a, b, c, l] => do
      let a ← asOptInt? a; let b ← asOptInt? b; let c ← asOptInt? c; let l ← asInt? l
      pure (tripleToSexp (SliceSpec.indices a b c l))
  | "c18.tup_cpp", [k] => do pure (strsToSexp (Key.unravelTupCpp (← keyOfSexp k)))
  | "c18.tup_py", [k] => do pure (strsToSexp (Key.unravelTupPy (← keyOfSexp k)))
  | "c18.key_cpp", [k] => do pure (keyOutToSexp (Key.unravelKeyCpp (← keyOfSexp k)))
  | "c18.key_py", [k] => do pure (keyOutToSexp (Key.unravelKeyPy (← keyOfSexp k)))
  | "c18.parse_bs", [.atom kind, .list l, .atom src] => do
      let b ← bsSpelling? kind (← ints? l)
      let s : Compile.Src := if src = "td" then .td [4, 2] else .other
      pure (.list [optIntsToSexp (Compile.parseBsEager b s), optIntsToSexp (Compile.parseBsCompile b s)])
  | "c18.values_list", [.list ks, .list vs, .list sk] => do
      let ks ← ks.mapM asAtom?; let vs ← ints? vs; let sk ← sk.mapM asAtom?
      pure (.list [optIntsToSexp (Compile.valuesDict ks vs sk), optIntsToSexp (Compile.valuesIndex ks vs sk),
                   optIntsToSexp (Compile.itemsDict ks vs sk), optIntsToSexp (Compile.itemsIndex ks vs sk)])
  -- (c18.infer_size (shape…) numel) → (eager-copy compile-copy hand-model decision-table)
  | "c18.infer_size", [.list shape, n] => do
      let shape ← ints? shape; let n ← asInt? n
      pure (.list [intsResToSexp (Gen.inferSizeImpl shape n), intsResToSexp (Gen.inferSizeImplLocal shape n),
                   intsResToSexp (InferSize.infer shape n), intsResToSexp (InferSize.closedForm shape n),
                   intsResToSexp (InferSize.torchInfer shape n)])
  -- (c18.keylist list|tuple|other k…) → (cpp-call python-call)
  | "c18.keylist", (.atom kind :: ks) => do
      let a ← keysArg? kind ks
      pure (.list [keyOutsToSexp (Key.unravelKeyListCppCallE a), keyOutsToSexp (Key.unravelKeyListPyCallE a)])
  -- (c18.keys k…) : unravel_keys(*args) → (cpp-call python-call)
  | "c18.keys", ks => do
      let ks ← ks.mapM keyOfSexp
      pure (.list [keyOutEToSexp (Key.unravelKeysCppCallE ks), keyOutEToSexp (Key.unravelKeysPyCallE ks)])
  -- (c18.keyspec k) → (valid leaves…) : the specification vocabulary of the theorems
  | "c18.keyspec", [k] => do
      let k ← keyOfSexp k
      pure (.list [.atom (if Key.validB k then "valid" else "invalid"), strsToSexp (Key.leaves k)])
  -- (c18.check_keys strict|loose (k…) (k…) …) → (eager-branch compile-branch)
  | "c18.check_keys", (.atom mode :: tds) => do
      let tds ← tds.mapM (fun t => do let l ← asList? t; l.mapM asAtom?)
      let strict := mode == "strict"
      pure (.list [checkOutToSexp (CheckKeys.checkKeysEager tds strict), checkOutToSexp (CheckKeys.checkKeysCompile tds strict)])
  -- (c18.neg_dim dim (shape…) ndim|none) → (ok r) | (err IndexError)
  | "c18.neg_dim", [d, .list shape, n] => do
      let d ← asInt? d; let shape ← ints? shape; let n ← asOptInt? n
      pure (match Gen.maybeCorrectNegDim d shape n with
        | .ok r => tagged "ok" [ofInt r]
        | .error e => tagged "err" [.atom e])
  -- (c18.parse_to (pos…) ((kw val)…)) → result of the Python twin (= first-fit over the three signatures)
  | "c18.parse_to", [.list pos, .list kw] => do
      let pos ← pos.mapM ptVal?; let kw ← kw.mapM ptKw?
      pure (ptResToSexp (ParseTo.parseToPy ⟨pos, kw⟩))
  -- (c18.seq_keys (out…) (keys…)) → ((eager…) (compile…))
  | "c18.seq_keys", [.list o, .list k] => do
      let o ← o.mapM asAtom?; let k ← k.mapM asAtom?
      pure (.list [strsToSexp (CheckKeys.seqKeysEager o k), strsToSexp (CheckKeys.seqKeysCompile o k)])
  -- translator self-test functions (Gen/PyFuns.lean st*)
  | "c18.st_divmod", [a, b] => do
      let a ← asInt? a; let b ← asInt? b
      pure (match Gen.stDivmod a b with
        | .ok (q, r) => tagged "ok" [ofInt q, ofInt r]
        | .error e => tagged "err" [.atom e])
  | "c18.st_clamp", [x, lo, hi] => do
      pure (intResToSexp (Gen.stClamp (← asInt? x) (← asInt? lo) (← asInt? hi)))
  | "c18.st_opt", [x, d] => do
      pure (intResToSexp (Gen.stOpt (← asOptInt? x) (← asInt? d)))
  | "c18.st_guard", [a, b] => do
      pure (intResToSexp (Gen.stGuard (← asInt? a) (← asInt? b)))
  | "c18.st_loop", [.list xs, k] => do
      pure (intsResToSexp (Gen.stLoop (← ints? xs) (← asInt? k)))
  -- (c18.new_unsafe ((k (shape…))…) (batch…) names|none lock) → (eager-branch compile-branch)
  | "c18.new_unsafe", [.list src, .list batch, names, .atom lock] => do
      let src ← src.mapM nuEntry?; let batch ← nats? batch; let names ← nuNames? names
      let lk := lock == "true"
      pure (.list [nuResToSexp (NewUnsafe.newUnsafeEager src batch names lk), nuResToSexp (NewUnsafe.newUnsafeCompile src batch names lk)])
  -- (c18.from_td (tensor keys…) (expected keys…) none|((k none|val)…)) → (eager-branch compile-branch)
  | "c18.from_td", [.list tk, .list ek, nt] => do
      let tk ← tk.mapM asAtom?; let ek ← ek.mapM asAtom?
      let nt ← (match nt with
        | .atom "none" => some (none : Option (List (String × Bool)))
        | .list l => (l.mapM ftEntry?).map some
        | _ => Option.none)
      pure (.list [ftOutToSexp (FromTd.fromTdEager tk ek nt), ftOutToSexp (FromTd.fromTdCompile tk ek nt)])
  -- (c18.memo truth none|true|false) for one class: → ((eager value, memo entry after) (compile-read …) (compile-fresh …))
  | "c18.memo", [.atom truth, .atom entry] => do
      let w : Memo.World := ⟨fun _ => truth == "true", if entry == "none" then [] else [(0, entry == "true")]⟩
      let show1 (r : Bool × List (Nat × Bool)) : Sexp :=
        .list [.atom (if r.1 then "true" else "false"),
               .atom (match Memo.memoGet r.2 0 with | some true => "true" | some false => "false" | none => "none")]
      pure (.list [show1 (Memo.eager w 0), show1 (Memo.compileRead w 0), show1 (Memo.compileFresh w 0)])
  -- (c18.consolidate_leaf (sizes…) (strides…) offset) → (is_contiguous viewU8Ok okEager okCompile)
  | "c18.consolidate_leaf", [.list sz, .list st, off] => do
      let m : Consolidate.TMeta := ⟨← nats? sz, ← nats? st, ← asNat? off⟩
      let b (x : Bool) : Sexp := .atom (if x then "true" else "false")
      pure (.list [b (Consolidate.isContig m), b (Consolidate.viewU8Ok m), b (Consolidate.okEager m), b (Consolidate.okCompile m)])
  | _, _ => none

end TdVerif.Drive
