import TdVerif.Sexp

namespace TdVerif.Drive
open TdVerif Sexp

/-- line-protocol handler for C19: commands are named `c19.<something>` -/
def handleC19 (cmd : String) (args : List Sexp) : Option Sexp :=
  match cmd, args with
  | _, _ => none

end TdVerif.Drive
