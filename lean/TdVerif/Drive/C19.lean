import TdVerif.Sexp
import TdVerif.Model.C19Vmap
import TdVerif.Model.C19Ops
import TdVerif.Model.C19Lazy
import TdVerif.Model.C19MemoHist

namespace TdVerif.Drive
open TdVerif Sexp TdVerif.C19

namespace C19D

partial def opOf? : Sexp → Option OpName
  | .list [.atom "mul2"] => some .mul2
  | .list [.atom "add1"] => some .add1
  | .list [.atom "neg"] => some .neg
  | .list [.atom "unsqueeze", d] => do pure (.unsqueeze (← asNat? d))
  | .list [.atom "permute_rev"] => some .permuteRev
  | .list [.atom "transpose01"] => some .transpose01
  | .list [.atom "idx0"] => some .idx0
  | .list [.atom "expand2"] => some .expand2
  | .list [.atom "stack_self"] => some .stackSelf
  | .list [.atom "sum0"] => some .sum0
  | .list [.atom "cat_self"] => some .catSelf
  | .list [.atom "select", .atom k] => some (.select k)
  | .list [.atom "exclude", .atom k] => some (.exclude k)
  | .list [.atom "setmul3", .atom s, .atom d] => some (.setMul3 s d)
  | .list [.atom "rename", .atom s, .atom d] => some (.rename s d)
  | .list [.atom "flatten_keys"] => some .flattenKeys
  | .list [.atom "clone"] => some .clone
  | .list [.atom "setconst"] => some .setConst
  | .list [.atom "deepen"] => some .deepen
  | .list [.atom "vmap", i, o, .list (.atom "prog" :: ops)] => do
      pure (.vmap (← asInt? i) (← asInt? o) (← ops.mapM opOf?))
  | _ => none

/-- compile a program at a per-sample batch size: applicability checks, dimension normalisation
(`normInDim` / `normOutDim`), nested vmaps become `vmapOp`s at the next level -/
partial def compile (level : Nat) : List OpName → Shape → Except String (List TOp × Shape)
  | [], b => .ok ([], b)
  | .vmap i o p :: rest, b => do
      let r := b.length
      if i < -(r : Int) || i ≥ (r : Int) then throw "in_dim"
      let i' := normInDim i r
      let (ops, bout) ← compile (level + 1) p (b.eraseIdx i')
      let rout := bout.length
      if o < -((rout : Int) + 1) || o > (rout : Int) then throw "out_dim"
      let o' := normOutDim o rout
      let op := vmapOp ops i' o' (level + 1)
      let (more, bfin) ← compile level rest (op.bs b)
      pure (op :: more, bfin)
  | n :: rest, b => do
      if !(n.okOn b) then throw "op"
      match n.simpleOp with
      | none => throw "op"
      | some op =>
        let (more, bfin) ← compile level rest (op.bs b)
        pure (op :: more, bfin)

def nameOf? : Sexp → Option (Option String)
  | .atom "none" => some none
  | .atom s => some (some s)
  | _ => none

def tdOf? : Sexp → Option TD
  | .list [.atom "td", .list (.atom "batch" :: bs), .list (.atom "names" :: ns), .list (.atom "leaves" :: ls)] => do
      let bs ← nats? bs
      let ns ← ns.mapM nameOf?
      let ls ← ls.mapM (fun l => match l with
        | .list (.atom k :: feat) => do pure (k, ← nats? feat)
        | _ => none)
      pure ⟨bs, ns, ls.zipIdx.map (fun (p : (String × List Nat) × Nat) => (p.1.1, arangeT (1000 * (p.2 : Int)) (bs ++ p.1.2)))⟩
  | _ => none

def nameToSexp : Option String → Sexp
  | none => .atom "none"
  | some s => .atom s

def tdToSexp (td : TD) : Sexp :=
  tagged "ok" [tagged "batch" (td.batch.map ofNat), tagged "names" (td.names.map nameToSexp),
    tagged "leaves" (td.leaves.map (fun p => .list [.atom p.1, ofNats p.2.shape, ofInts p.2.toList]))]

def tdToSexpN (td : TD) (nodes : List (String × Shape)) : Sexp :=
  tagged "ok" [tagged "batch" (td.batch.map ofNat), tagged "names" (td.names.map nameToSexp),
    tagged "leaves" (td.leaves.map (fun p => .list [.atom p.1, ofNats p.2.shape, ofInts p.2.toList])),
    tagged "nodes" (nodes.map (fun p => .list [.atom p.1, ofNats p.2]))]

def endsWithDeepen : List OpName → Bool
  | [] => false
  | [.deepen] => true
  | _ :: rest => endsWithDeepen rest

end C19D

/-- line-protocol handler for C19: commands are named `c19.<something>` -/
def handleC19 (cmd : String) (args : List Sexp) : Option Sexp :=
  match cmd, args with
  | "c19.vmap", [td, i, o, .list (.atom "prog" :: ops)] => do
      let td ← C19D.tdOf? td
      let i ← asInt? i
      let o ← asInt? o
      let ops ← ops.mapM C19D.opOf?
      let r := td.batch.length
      if i < -(r : Int) || i ≥ (r : Int) then pure (.list [.atom "err", .atom "in_dim"]) else
      let i' := normInDim i r
      match C19D.compile 1 ops (td.batch.eraseIdx i') with
      | .error e => pure (.list [.atom "err", .atom e])
      | .ok (tops, bout) =>
        let rout := bout.length
        if o < -((rout : Int) + 1) || o > (rout : Int) then pure (.list [.atom "err", .atom "out_dim"]) else
        let res := vmapTDT tops i' (normOutDim o rout) 1 td      -- = vmapTD for a non-empty vmapped dim (theorem removeBDT_eq_removeBD)
        -- a trailing `deepen` re-declares the nested node `n` of the per-sample output with batch size bout ++ [1]
        let nodes := if C19D.endsWithDeepen ops && res.leaves.any (fun p => p.1 == "n.x")
          then [("n", removeBDNode (normOutDim o rout) (td.batch.getD i' 0) (bout ++ [1]))] else []
        pure (C19D.tdToSexpN res nodes)
  | "c19.loop", [td, i, o, .list (.atom "prog" :: ops)] => do
      -- the specification side: stack over the slices of the program applied to each slice
      let td ← C19D.tdOf? td
      let i ← asNat? i
      let o ← asNat? o
      let ops ← ops.mapM C19D.opOf?
      match C19D.compile 1 ops (td.batch.eraseIdx i) with
      | .error e => pure (.list [.atom "err", .atom e])
      | .ok (tops, _) => pure (C19D.tdToSexp (stackTD ((unbindTD td i).map (runProg tops)) o))
  | "c19.vmap2", [ta, tb, i1, i2, o, .list (.atom "prog" :: ops)] => do
      -- two arguments, in_dims (i1, i2) each an integer or `none`; f(a, b) = prog(a.apply(add, b))
      let ta ← C19D.tdOf? ta
      let tb ← C19D.tdOf? tb
      let i1 ← asOptInt? i1
      let i2 ← asOptInt? i2
      let o ← asInt? o
      let ops ← ops.mapM C19D.opOf?
      let norm := fun (i : Option Int) (td : TD) => match i with
        | none => some (none : Option Nat)
        | some d => if d < -(td.batch.length : Int) || d ≥ (td.batch.length : Int) then none else some (some (normInDim d td.batch.length))
      match norm i1 ta, norm i2 tb with
      | some j1, some j2 =>
        let size := match j1, j2 with
          | some j, _ => ta.batch.getD j 0
          | none, some j => tb.batch.getD j 0
          | none, none => 0
        let pb := (selOpt ta j1 0).batch
        match C19D.compile 1 ops pb with
        | .error e => pure (.list [.atom "err", .atom e])
        | .ok (tops, bout) =>
          let rout := bout.length
          if size = 0 || o < -((rout : Int) + 1) || o > (rout : Int) then pure (.list [.atom "err", .atom "out_dim"]) else
          pure (C19D.tdToSexp (vmapTD2 opAdd2 tops j1 j2 (normOutDim o rout) size 1 ta tb))
      | _, _ => pure (.list [.atom "err", .atom "in_dim"])
  | "c19.vmap_seq2", [bsz, hid, nout, nin, pin, xin, o] => do
      -- Sequential(Linear(nin, hid), Linear(hid, nout)) with a nested parameter tensordict
      let B ← asNat? bsz
      let hid ← asNat? hid
      let nout ← asNat? nout
      let nin ← asNat? nin
      let pin ← asOptInt? pin
      let xin ← asOptInt? xin
      let o ← asInt? o
      let pb : Shape := match pin with | some _ => [B] | none => []
      let params : TD := ⟨pb, pb.map (fun _ => none),
        [("0.weight", arangeT 1 (pb ++ [hid, nin])), ("0.bias", arangeT 50 (pb ++ [hid])),
         ("1.weight", arangeT 2 (pb ++ [nout, hid])), ("1.bias", arangeT 70 (pb ++ [nout]))]⟩
      let xshape : Shape := match xin with
        | some d => if d = 0 || d = -2 then [B, nin] else [nin, B]
        | none => [nin]
      let xd : Option Nat := xin.map (fun d => if d = 0 || d = -2 then 0 else 1)
      let xt : T := match xd with
        | some 1 => ⟨[B, nin], fun c => (arangeT 10 xshape).get [c.getD 1 0, c.getD 0 0]⟩
        | _ => arangeT 10 xshape
      let xtd : TD := match xd with
        | some _ => ⟨[B], [none], [("x", xt)]⟩
        | none => ⟨[], [], [("x", xt)]⟩
      let j1 : Option Nat := pin.map (fun _ => 0)
      let j2 : Option Nat := xd.map (fun _ => 0)
      if j1.isNone && j2.isNone then pure (.list [.atom "err", .atom "in_dim"]) else
      if o < -2 || o > 1 then pure (.list [.atom "err", .atom "out_dim"]) else
      let res := vmapTD2 opSeq2 [] j1 j2 (normOutDim o 1) B 1 params xtd
      match res.leaves.lookup "y" with
      | some y => pure (.list [ofNats y.shape, ofInts y.toList])
      | none => pure (.list [.atom "err", .atom "op"])
  | "c19.vmap_linear", [bsz, nout, nin, pin, xin, o] => do
      -- functional Linear call under vmap: parameters stacked along `pin` of a rank-1 parameter batch [B] (or `none`: shared
      -- parameters), input x vmapped along `xin` (or `none`); weights / bias / x are provenance tensors
      let B ← asNat? bsz
      let nout ← asNat? nout
      let nin ← asNat? nin
      let pin ← asOptInt? pin
      let xin ← asOptInt? xin
      let o ← asInt? o
      let params : TD := match pin with
        | some _ => ⟨[B], [none], [("weight", arangeT 1 [B, nout, nin]), ("bias", arangeT 100 [B, nout])]⟩
        | none => ⟨[], [], [("weight", arangeT 1 [nout, nin]), ("bias", arangeT 100 [nout])]⟩
      -- x as a tensordict with one entry whose batch is the vmapped dim (if any)
      let xshape : Shape := match xin with
        | some d => if d = 0 || d = -2 then [B, nin] else [nin, B]
        | none => [nin]
      let xd : Option Nat := xin.map (fun d => if d = 0 || d = -2 then 0 else 1)
      -- bring x to the form batch ++ [nin]: a vmapped dim 1 is a transposed provenance tensor
      let xt : T := match xd with
        | some 1 => ⟨[B, nin], fun c => (arangeT 1000 xshape).get [c.getD 1 0, c.getD 0 0]⟩
        | _ => arangeT 1000 xshape
      let xtd : TD := match xd with
        | some _ => ⟨[B], [none], [("x", xt)]⟩
        | none => ⟨[], [], [("x", xt)]⟩
      let j1 : Option Nat := pin.map (fun _ => 0)
      let j2 : Option Nat := xd.map (fun _ => 0)
      if j1.isNone && j2.isNone then pure (.list [.atom "err", .atom "in_dim"]) else
      if o < -2 || o > 1 then pure (.list [.atom "err", .atom "out_dim"]) else
      let res := vmapTD2 opLinear [] j1 j2 (normOutDim o 1) B 1 params xtd
      match res.leaves.lookup "y" with
      | some y => pure (.list [ofNats y.shape, ofInts y.toList])
      | none => pure (.list [.atom "err", .atom "op"])
  | "c19.vmap_lazy", [td, sd, i, o, .list (.atom "prog" :: ops)] => do
      -- the lazy-stack code path: the tensordict is stacked lazily along `sd`; only member-wise (element-wise) programs
      let td ← C19D.tdOf? td
      let sd ← asNat? sd
      let i ← asInt? i
      let o ← asInt? o
      let ops ← ops.mapM C19D.opOf?
      let r := td.batch.length
      if i < -(r : Int) || i ≥ (r : Int) then pure (.list [.atom "err", .atom "in_dim"]) else
      if o < -(r : Int) || o > ((r : Int) - 1) then pure (.list [.atom "err", .atom "out_dim"]) else
      let i' := normInDim i r
      -- the value written by `setconst` has the per-sample batch size; `sdv` is where the (visible) stack dimension sits in it
      let pb := td.batch.eraseIdx i'
      let sdv := if i' < sd then sd - 1 else sd
      let lops := ops.filterMap (fun n => match n with
        | .mul2 | .add1 | .neg | .clone => n.simpleOp.map LOp.derive
        | .setMul3 a b => some (LOp.getSet (opSetMul3 a b))
        | .setConst => some (LOp.setConst "c" (if i' = sd then arangeT 100000 (pb ++ [2])
                                                else ⟨pb ++ [2], (arangeT 100000 (pb ++ [2])).get⟩))
        | _ => none)
      let _ := sdv
      if lops.length ≠ ops.length then pure (.list [.atom "err", .atom "op"]) else
      let res := vmapLazyL lops i' o 1 (LTD.ofDense td sd)
      pure (C19D.tdToSexp res.dense)
  | "c19.leaf", [.list (.atom "shape" :: s), i, o] => do
      -- the functorch primitive on a plain tensor: wrap at i, unwrap at o
      let s ← nats? s
      let i ← asNat? i
      let o ← asNat? o
      let t := removeBDLeaf o (addBDLeaf i (arangeT 0 s))
      pure (.list [ofNats t.shape, ofInts t.toList])
  | "c19.memo", (.atom locked :: reqs) => do
      -- a sequence of `_add_batch_dim(in_dim, vmap_level)` requests on one tensordict: for each request the index of the
      -- first request that returned the same object (the memo only exists on a locked tensordict)
      let reqs ← reqs.mapM (fun r => match r with
        | .list [i, l] => do pure ((← asNat? i), (← asNat? l))
        | _ => none)
      let step := fun (acc : Memo × List (Wrapper × Nat) × List Nat × Nat) (r : Nat × Nat) =>
        let (m, seen, out, n) := acc
        if locked = "true" then
          let (m', w) := addBDMemo m r.1 r.2
          match seen.lookup w with
          | some j => (m', seen, out ++ [j], n + 1)
          | none => (m', (w, n) :: seen, out ++ [n], n + 1)
        else (m, seen, out ++ [n], n + 1)
      let (_, _, out, _) := reqs.foldl step (([] : Memo), ([] : List (Wrapper × Nat)), ([] : List Nat), 0)
      pure (ofNats out)
  | "c19.memo_hist", [.list parents, .list kinds, .list evs] => do
      -- a history on a lock graph: containers (0 = none, p+1 = node p), lock kinds, events (req k i level) | (api op j):
      -- answer = (wfCheck, lock ancestors of every node, for each request the first request that returned the same object)
      let ps ← parents.mapM asNat?
      let ks ← kinds.mapM (fun k => match k with
        | .atom "own" => some MH.Kind.own
        | .atom "members" => some MH.Kind.byMembers
        | .atom "unlocked" => some MH.Kind.unlocked
        | _ => none)
      let t : MH.Topo := ⟨ps.map (fun p => if p = 0 then none else some (p - 1)), ks⟩
      let g := t.graph
      let es ← evs.mapM (fun e => match e with
        | .list [.atom "req", k, i, l] => do pure [MH.Ev.request (← asNat? k) (← asNat? i) (← asNat? l)]
        | .list [.atom "api", .atom op, j] => do pure (MH.apiEvents g op (← asNat? j))
        | _ => none)
      let ws := (MH.run g MH.St.init es.flatten).2
      pure (.list [.atom (if g.wfCheck then "wf" else "not-wf"), .list ((List.range g.n).map (fun j => ofNats (g.lanc j))),
                   ofNats (MH.identityPattern ws)])
  | "c19.norm", [d, r] => do
      let d ← asInt? d
      let r ← asNat? r
      pure (.list [ofNat (normInDim d r), ofNat (normOutDim d r), ofNat (pyInsertPos d r)])
  | _, _ => none

end TdVerif.Drive
