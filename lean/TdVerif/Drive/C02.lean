import TdVerif.Sexp
import TdVerif.Model.C02Tensor
import TdVerif.Model.C02Td

namespace TdVerif.Drive
open TdVerif Sexp TdVerif.C02

namespace C02D

def errSexp (e : Err) : Sexp := tagged "err" [.atom e.toString]

def tensorSexp (t : T Nat) : Sexp := tagged "leaf" [ofNats t.shape, ofNats t.toList]

def namesSexp (names : Names) (n : Nat) : Sexp :=
  .list ((namesList names n).map fun | none => .atom "none" | some s => .atom s)

partial def treeSexp : TD Nat → Sexp
  | .leaf t => tensorSexp t
  | .node bs names es =>
    tagged "node" ([ofNats bs, namesSexp names bs.length] ++ es.map fun (k, e) => .list [.atom k, treeSexp e])

def names? : Sexp → Option Names
  | .atom "none" => some none
  | .list l => (l.mapM fun (x : Sexp) => match x with
      | Sexp.atom "none" => some (none : Option String)
      | Sexp.atom s => some (some s)
      | _ => none).map some
  | _ => none

partial def tree? : Sexp → Option (TD Nat)
  | .list [.atom "leaf", .list sh] => do let s ← nats? sh; pure (.leaf (arange s))
  | .list [.atom "leaf", .list sh, off] => do
      let s ← nats? sh; let o ← asNat? off
      pure (.leaf ⟨s, fun c => ravel c s + o⟩)
  | .list (.atom "node" :: .list bs :: nm :: es) => do
    let bs ← nats? bs
    let nm ← names? nm
    let es ← es.mapM fun (x : Sexp) => match x with
      | Sexp.list [Sexp.atom k, e] => do let e ← tree? e; pure (k, e)
      | _ => none
    pure (.node bs nm es)
  | _ => none

def op? : Sexp → Option (Op ⊕ MOp)
  | .list [.atom "permute", .list ds] => do pure (.inl (.permute (← ints? ds)))
  | .list [.atom "transpose", a, b] => do pure (.inl (.transpose (← asInt? a) (← asInt? b)))
  | .list [.atom "squeeze", d] => do pure (.inl (.squeeze (← asOptInt? d)))
  | .list [.atom "unsqueeze", d] => do pure (.inl (.unsqueeze (← asInt? d)))
  | .list [.atom "flatten", a, b] => do pure (.inl (.flatten (← asInt? a) (← asInt? b)))
  | .list [.atom "unflatten", d, .list s] => do pure (.inl (.unflatten (← asInt? d) (← ints? s)))
  | .list [.atom "view", .list s] => do pure (.inl (.view (← ints? s)))
  | .list [.atom "reshape", .list s] => do pure (.inl (.reshape (← ints? s)))
  | .list [.atom "expand", .list s] => do pure (.inl (.expand (← ints? s)))
  | .list [.atom "unbind", d] => do pure (.inr (.unbind (← asInt? d)))
  | .list [.atom "split", k, d] => do pure (.inr (.split (← asInt? k) (← asInt? d)))
  | .list [.atom "splitlist", .list s, d] => do pure (.inr (.splitList (← ints? s) (← asInt? d)))
  | .list [.atom "chunk", k, d] => do pure (.inr (.chunk (← asInt? k) (← asInt? d)))
  | _ => none

/-- the model of the tensordict op -/
def runTd (op : Op ⊕ MOp) (td : TD Nat) : Sexp :=
  match op, td with
  | .inl op, .node bs names es =>
    match opMeta op bs names with
    | .error e => errSexp e
    | .ok none => .list [.atom "self"]
    | .ok (some _) =>
      match tdNode op bs names es with
      | .error e => errSexp e
      | .ok r => tagged "ok" [treeSexp r]
  | .inr op, td =>
    match tdMOp op td with
    | .error e => errSexp e
    | .ok rs => tagged "oks" (rs.map treeSexp)
  | _, _ => errSexp .type

/-- the torch spec applied to a plain provenance tensor -/
def runTorch (op : Op ⊕ MOp) (t : T Nat) : Sexp :=
  let one (r : Except Err (T Nat)) : Sexp :=
    match r with | .error e => errSexp e | .ok r => tagged "ok" [tensorSexp r]
  let many (r : Except Err (List (T Nat))) : Sexp :=
    match r with | .error e => errSexp e | .ok rs => tagged "oks" (rs.map tensorSexp)
  match op with
  | .inl (.permute ds) => one (Torch.permute ds t)
  | .inl (.transpose a b) => one (Torch.transpose a b t)
  | .inl (.squeeze none) => one (.ok t.squeezeAll)
  | .inl (.squeeze (some d)) => one (Torch.squeeze d t)
  | .inl (.unsqueeze d) => one (Torch.unsqueeze d t)
  | .inl (.flatten a b) => one (Torch.flatten a b t)
  | .inl (.unflatten d s) => one (Torch.unflatten d s t)
  | .inl (.view s) => one (Torch.reshape s t)
  | .inl (.reshape s) => one (Torch.reshape s t)
  | .inl (.expand s) => one (Torch.expand s t)
  | .inr (.unbind d) => many (Torch.unbind d t)
  | .inr (.split k d) => many (Torch.split k d t)
  | .inr (.splitList s d) => many (Torch.splitList s d t)
  | .inr (.chunk k d) => many (Torch.chunk k d t)

end C02D

/-- line-protocol handler for C02: commands are named `c02.<something>` -/
def handleC02 (cmd : String) (args : List Sexp) : Option Sexp :=
  match cmd, args with
  | "c02.td", [op, tree] => do
      let op ← C02D.op? op; let td ← C02D.tree? tree
      pure (C02D.runTd op td)
  -- two single-result ops in a row: the second acts on the result of the first (`self` = the op returned the tensordict itself)
  | "c02.chain", [op1, op2, tree] => do
      let op1 ← C02D.op? op1; let op2 ← C02D.op? op2; let td ← C02D.tree? tree
      match op1, td with
      | .inl o1, .node bs names es =>
        let mid : Except Err (TD Nat) := match opMeta o1 bs names with
          | .error e => .error e
          | .ok none => .ok td
          | .ok (some _) => tdNode o1 bs names es
        match mid with
        | .error e => pure (tagged "err1" [.atom e.toString])
        | .ok m => pure (C02D.runTd op2 m)
      | _, _ => pure (C02D.errSexp .type)
  | "c02.repeat", [.list reps, tree] => do
      let reps ← ints? reps; let td ← C02D.tree? tree
      match td with
      | .node bs names es =>
        match repeatNode reps bs names es with
        | .error e => pure (C02D.errSexp e)
        | .ok r => pure (tagged "ok" [C02D.treeSexp r])
      | _ => pure (C02D.errSexp .type)
  | "c02.ri", [r, d, tree] => do
      let r ← asInt? r; let d ← asInt? d; let td ← C02D.tree? tree
      match td with
      | .node bs names es =>
        match riPublic r (some d) bs names es with
        | .error e => pure (C02D.errSexp e)
        | .ok res => pure (tagged "ok" [C02D.treeSexp res])
      | _ => pure (C02D.errSexp .type)
  | "c02.ril", [.list rs, d, tree] => do
      let rs ← nats? rs; let d ← asInt? d; let td ← C02D.tree? tree
      match td with
      | .node bs names es =>
        match riListNode rs d bs names es with
        | .error e => pure (C02D.errSexp e)
        | .ok res => pure (tagged "ok" [C02D.treeSexp res])
      | _ => pure (C02D.errSexp .type)
  | "c02.ri_none", [r, tree] => do
      let r ← asInt? r; let td ← C02D.tree? tree
      match td with
      | .node bs names es =>
        match riPublic r none bs names es with
        | .error e => pure (C02D.errSexp e)
        | .ok res => pure (tagged "ok" [C02D.treeSexp res])
      | _ => pure (C02D.errSexp .type)
  | "c02.stack", d :: trees => do
      let d ← asInt? d; let tds ← trees.mapM C02D.tree?
      match tdStack d tds with
      | .error e => pure (C02D.errSexp e)
      | .ok r => pure (tagged "ok" [C02D.treeSexp r])
  | "c02.cat", d :: trees => do
      let d ← asInt? d; let tds ← trees.mapM C02D.tree?
      match tdCat d tds with
      | .error e => pure (C02D.errSexp e)
      | .ok r => pure (tagged "ok" [C02D.treeSexp r])
  | "c02.gather", [d, .list [.atom "idx", .list sh, .list vals], tree] => do
      let d ← asInt? d; let sh ← nats? sh; let vals ← nats? vals; let td ← C02D.tree? tree
      let index : T Nat := ⟨sh, fun c => vals.getD (ravel c sh) 0⟩
      match td with
      | .node bs names es =>
        match gatherNode d index bs names es with
        | .error e => pure (C02D.errSexp e)
        | .ok r => pure (tagged "ok" [C02D.treeSexp r])
      | _ => pure (C02D.errSexp .type)
  | "c02.msel", [.list [.atom "mask", .list sh, .list vals], tree] => do
      let sh ← nats? sh; let vals ← nats? vals; let td ← C02D.tree? tree
      let mask : T Bool := ⟨sh, fun c => vals.getD (ravel c sh) 0 != 0⟩
      match td with
      | .node bs names es =>
        match mselNode mask bs names es with
        | .error e => pure (C02D.errSexp e)
        | .ok r => pure (tagged "ok" [C02D.treeSexp r])
      | _ => pure (C02D.errSexp .type)
  | "c02.torch_gather", [d, .list [.atom "idx", .list ish, .list vals], .list sh] => do
      let d ← asNat? d; let ish ← nats? ish; let vals ← nats? vals; let sh ← nats? sh
      let index : T Nat := ⟨ish, fun c => vals.getD (ravel c ish) 0⟩
      match Torch.gather d index (arange sh) with
      | .error e => pure (C02D.errSexp e)
      | .ok r => pure (tagged "ok" [C02D.tensorSexp r])
  | "c02.torch_msel", [.list [.atom "mask", .list msh, .list vals], .list sh] => do
      let msh ← nats? msh; let vals ← nats? vals; let sh ← nats? sh
      let mask : T Bool := ⟨msh, fun c => vals.getD (ravel c msh) 0 != 0⟩
      pure (tagged "ok" [C02D.tensorSexp (T.maskedSelect mask (arange sh))])
  | "c02.torch_stack", d :: shapes => do
      let d ← asNat? d
      let shs ← shapes.mapM fun (x : Sexp) => match x with | Sexp.list l => nats? l | _ => none
      let ts : List (T Nat) := shs.zipIdx.map fun (sh, i) => ⟨sh, fun c => ravel c sh + 100000 * i⟩
      pure (tagged "ok" [C02D.tensorSexp (T.stack ts d)])
  | "c02.torch_cat", d :: shapes => do
      let d ← asNat? d
      let shs ← shapes.mapM fun (x : Sexp) => match x with | Sexp.list l => nats? l | _ => none
      let ts : List (T Nat) := shs.zipIdx.map fun (sh, i) => ⟨sh, fun c => ravel c sh + 100000 * i⟩
      pure (tagged "ok" [C02D.tensorSexp (T.cat ts d)])
  | "c02.torch_repeat", [.list reps, .list sh] => do
      let reps ← nats? reps; let sh ← nats? sh
      pure (tagged "ok" [C02D.tensorSexp ((arange sh).repeat reps)])
  | "c02.torch_ril", [.list rs, d, .list sh] => do
      let rs ← nats? rs; let d ← asNat? d; let sh ← nats? sh
      pure (tagged "ok" [C02D.tensorSexp (T.repeatInterleaveL rs d (arange sh))])
  | "c02.torch_ri", [r, d, .list sh] => do
      let r ← asNat? r; let d ← asNat? d; let sh ← nats? sh
      pure (tagged "ok" [C02D.tensorSexp ((arange sh).repeatInterleave r d)])
  | "c02.torch", [op, .list sh] => do
      let op ← C02D.op? op; let sh ← nats? sh
      pure (C02D.runTorch op (arange sh))
  | _, _ => none

end TdVerif.Drive
