import TdVerif.Sexp

namespace TdVerif.Drive
open TdVerif Sexp

/-- line-protocol handler for C02: commands are named `c02.<something>` -/
def handleC02 (cmd : String) (args : List Sexp) : Option Sexp :=
  match cmd, args with
  | _, _ => none

end TdVerif.Drive
