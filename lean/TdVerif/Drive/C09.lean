import TdVerif.Sexp
import TdVerif.Model.C09KV
import TdVerif.Model.C09Shape

namespace TdVerif.Drive
open TdVerif Sexp TdVerif.C09

/-- symbolic leaves: which stored entry / operand feeds a result entry -/
inductive Sym where
  | l (side : Nat) (k : Path)     -- entry `k` of operand number `side` (0 = self)
  | sc (i : Nat)                  -- operand `i` that is not a tensordict (same for every key)
  | d                             -- the `default=` tensor
  | ap (args : List Sym)          -- the torch op applied to these operands
  deriving Inhabited

partial def symToSexp : Sym → Sexp
  | .l s k => tagged "l" [ofNat s, .list (k.map .atom)]
  | .sc i => tagged "sc" [ofNat i]
  | .d => .list [.atom "d"]
  | .ap args => tagged "f" (args.map symToSexp)

def path? : Sexp → Option Path
  | .list l => l.mapM asAtom?
  | _ => none

def paths? : Sexp → Option (List Path)
  | .list l => l.mapM path?
  | _ => none

def mkKV (side : Nat) (ks : List Path) : KV Sym := ks.map (fun k => (k, Sym.l side k))

def other? (side : Nat) : Sexp → Option (Other Sym)
  | .list [.atom "td", ks] => do pure (.td (mkKV side (← paths? ks)))
  | .list [.atom "sc"] => some (.scalar (.sc side))
  | _ => none

def dflt? : Sexp → Option (Dflt Sym)
  | .atom "none" => some .none
  | .atom "inter" => some .intersection
  | .atom "val" => some (.value .d)
  | _ => none

def kvToSexp (r : Except Err (KV Sym)) : Sexp :=
  match r with
  | .error e => tagged "err" [.atom e.toStr]
  | .ok kv => tagged "ok" (kv.map (fun (k, v) => .list [.list (k.map .atom), symToSexp v]))

def f2 (a b : Sym) : Sym := .ap [a, b]
def f3 (a b c : Sym) : Sym := .ap [a, b, c]
def f1 (a : Sym) : Sym := .ap [a]

/-- row-major flat index of a coordinate -/
def ravel (shape : List Nat) (c : List Nat) : Nat :=
  (List.zip shape c).foldl (fun acc (p : Nat × Nat) => acc * p.1 + p.2) 0

/-- all coordinates of a shape, row-major -/
def coords : List Nat → List (List Nat)
  | [] => [[]]
  | d :: rest => (List.range d).flatMap (fun i => (coords rest).map (fun c => i :: c))

def errSexp (e : Err) : Sexp := tagged "err" [.atom e.toStr]

def dimArg? : Sexp → Option DimArg
  | .atom "nodef" => some .noDefault
  | .atom "none" => some .none
  | .atom "feature" => some .feature
  | .list [.atom "int", d] => do pure (.int (← asInt? d))
  | .list (.atom "tuple" :: ds) => do pure (.tuple (← ints? ds))
  | _ => none

def keep? : Sexp → Option (Option Bool)
  | .atom "nodef" => some none
  | .atom "true" => some (some true)
  | .atom "false" => some (some false)
  | _ => none

def bool? : Sexp → Option Bool
  | .atom "true" => some true
  | .atom "false" => some false
  | _ => none

def keepToSexp : Option Bool → Sexp
  | none => .atom "nodef"
  | some true => .atom "true"
  | some false => .atom "false"

def leafToSexp : LeafRed → Sexp
  | .all k => tagged "all" [keepToSexp k]
  | .dimNone k => tagged "dimnone" [keepToSexp k]
  | .dims ds k => tagged "dims" [ofNats ds, keepToSexp k]
  | .feature => .list [.atom "feature"]

def handleC09 (cmd : String) (args : List Sexp) : Option Sexp :=
  match cmd, args with
  | "c09.binop", [.atom mode, ks, o, d] => do
      let self := mkKV 0 (← paths? ks)
      let o ← other? 1 o
      let d ← dflt? d
      if mode = "inplace" then pure (kvToSexp (binopInplace f2 self o))
      else pure (kvToSexp (binop f2 self o d))
  | "c09.tern", [.atom mode, ks, o1, o2] => do
      let self := mkKV 0 (← paths? ks)
      let o1 ← other? 1 o1
      let o2 ← other? 2 o2
      if mode = "inplace" then pure (kvToSexp (ternopInplace f3 self o1 o2))
      else if mode = "pos" then pure (kvToSexp (ternopPositional f3 self o1 o2))
      else pure (kvToSexp (ternop f3 self o1 o2))
  | "c09.cmp", [ks, o] => do
      let self := mkKV 0 (← paths? ks)
      pure (kvToSexp (cmp f2 self (← other? 1 o)))
  | "c09.unop", [ks] => do
      pure (kvToSexp (unop f1 (mkKV 0 (← paths? ks))))
  | "c09.bcast", [.list batch, .list oshape, .list feat] => do
      let batch ← nats? batch; let oshape ← nats? oshape; let feat ← nats? feat
      let o : T (List Nat) := ⟨oshape, id⟩
      match broadcastOther batch o feat with
      | .error e => pure (errSexp e)
      | .ok (shape, r) =>
        pure (tagged "ok" [tagged "batch" (shape.map ofNat),
          tagged "idx" ((coords (shape ++ feat)).map (fun c => ofNat (ravel oshape (r.get c))))])
  | "c09.bcast_inplace", [.list batch, .list oshape, .list feat] => do
      let batch ← nats? batch; let oshape ← nats? oshape; let feat ← nats? feat
      let o : T (List Nat) := ⟨oshape, id⟩
      match broadcastOtherInplace batch o feat with
      | .error e => pure (errSexp e)
      | .ok r =>
        pure (tagged "ok" [tagged "batch" (batch.map ofNat),
          tagged "idx" ((coords (batch ++ feat)).map (fun c => ofNat (ravel oshape (r.get c))))])
  | "c09.expand_as_right", [.list tshape, .list dest] => do
      let tshape ← nats? tshape; let dest ← nats? dest
      let t : T (List Nat) := ⟨tshape, id⟩
      match expandAsRight t dest with
      | .error e => pure (errSexp e)
      | .ok r => pure (tagged "ok" [tagged "idx" ((coords dest).map (fun c => ofNat (ravel tshape (r.get c))))])
  | "c09.reduce", [tok, con, fb, .list batch, names, dim, keep] => do
      let cfg : RedCfg := ⟨← bool? tok, ← bool? con, ← bool? fb⟩
      let batch ← nats? batch
      let names : Option (List String) ← (match names with
        | .atom "none" => some none
        | .list l => (l.mapM asAtom?).map some
        | _ => none)
      let dim ← dimArg? dim
      let keep ← keep? keep
      match castReduction cfg batch names dim keep with
      | .error e => pure (errSexp e)
      | .ok out =>
        pure (tagged "ok" [tagged "batch" (out.batch.map ofNat),
          (match out.names with | none => .atom "nonames" | some ns => tagged "names" (ns.map .atom)),
          leafToSexp out.leaf])
  | "c09.lazy_binop", [.atom mode, .list members, other, d] => do
      -- members: ((paths of member 0) (paths of member 1) …); leaves of member i are named `(l 0 (i . path))`
      let ms ← members.mapM paths?
      let A : List (KV Sym) := ms.zipIdx.map (fun (ks, i) => ks.map (fun k => (k, Sym.l 0 (toString i :: k))))
      let d ← dflt? d
      let other : LazyOther Sym ← (match other with
        | .list [.atom "same", .list bs] => do
            let bms ← bs.mapM paths?
            pure (LazyOther.sameStack (bms.zipIdx.map (fun (ks, i) => ks.map (fun k => (k, Sym.l 1 (toString i :: k))))))
        | .list [.atom "split", .list bs] => do
            let os ← bs.zipIdx.mapM (fun (b, i) => match b with
              | .list [.atom "td", ks] => do
                  let ks ← paths? ks
                  pure (Other.td (ks.map (fun k => (k, Sym.l 1 (toString i :: k)))))
              | .list [.atom "sc"] => some (Other.scalar (Sym.sc 1))
              | _ => none)
            pure (LazyOther.split os)
        | .list [.atom "sc"] => some (LazyOther.scalar (Sym.sc 1))
        | _ => none)
      let r := if mode = "inplace" then lazyBinopInplaceRepaired f2 A other else lazyBinopRepaired f2 A other d
      match r with
      | .error e => pure (errSexp e)
      | .ok R => pure (tagged "ok" (R.map (fun kv => .list (kv.map (fun (k, v) => .list [.list (k.map .atom), symToSexp v])))))
  | "c09.clamp", [ks, lo, hi] => do
      let self := mkKV 0 (← paths? ks)
      let bound (side : Nat) : Sexp → Option (Bound Sym)
        | .atom "none" => some .none
        | .list [.atom "td", ks] => do pure (.td (mkKV side (← paths? ks)))
        | .list [.atom "sc"] => some (.scalar (.sc side))
        | _ => none
      let lo ← bound 1 lo
      let hi ← bound 2 hi
      let f3 (x : Sym) (l h : Option Sym) : Sym :=
        .ap [x, (match l with | some v => v | none => .sc 0), (match h with | some v => v | none => .sc 0)]
      -- `(sc 0)` stands for Python None; one-sided forms are tagged so that the harness applies clamp_max / clamp_min
      pure (kvToSexp (clamp (fun a b => .ap [.sc 91, a, b]) (fun a b => .ap [.sc 92, a, b]) f3 self lo hi))
  | "c09.where", [ks, oks, pad] => do
      let self := mkKV 0 (← paths? ks)
      let other := mkKV 1 (← paths? oks)
      let pad : Option Sym ← (match pad with | .atom "none" => some none | .atom "pad" => some (some (.sc 2)) | _ => none)
      -- `(sc 7)`: the condition, `(sc 8)`: its negation
      pure (kvToSexp (whereOp (fun c x y => .ap [c, x, y]) (.sc 7) (.sc 8) pad self other))
  | "c09.reduce_true", [.list batch, dim, keep] => do
      let batch ← nats? batch
      let dim ← dimArg? dim
      let keep ← keep? keep
      match furtherReduce batch dim keep with
      | .error e => pure (errSexp e)
      | .ok .flatAll => pure (tagged "ok" [.atom "flatall"])
      | .ok .feature => pure (tagged "ok" [.atom "feature"])
      | .ok (.dims c ds single kd) =>
        pure (tagged "ok" [tagged "dims" [ofNat c, ofNats ds, .atom (if single then "true" else "false"), keepToSexp kd]])
  | "c09.reduce_all", [.atom op, .list leaves] => do
      let op ← (match op with
        | "sum" => some RedOp.sum | "nansum" => some .nansum | "prod" => some .prod | "mean" => some .mean
        | "nanmean" => some .nanmean | "amax" => some .amax | "amin" => some .amin | _ => none)
      let num? : Sexp → Option Num := fun s => match s with
        | .atom "nan" => some none
        | s => (asInt? s).map some
      let kv : KV (List Num) ← leaves.mapM (fun l => match l with
        | .list [k, .list vs] => do pure ((← path? k), (← vs.mapM num?))
        | _ => none)
      match reduceAll op kv with
      | .nan => pure (.list [.atom "nan"])
      | .int i => pure (tagged "int" [ofInt i])
      | .ratio s n => pure (tagged "ratio" [ofInt s, ofNat n])
      | .err => pure (.list [.atom "err"])
  | "c09.lazy_cmp", [.list members, other, hasDefault] => do
      let hasDefault ← bool? hasDefault
      -- leaves of member i of self: `(l 0 (i . path))`; `(f a b)`: the comparison asked for, `(f (sc 93) a b)`: the one named by
      -- inverse_str, `(f (sc 94) x0 x1 …)`: the stack of the members' entries
      let ms ← members.mapM paths?
      let A : List (KV Sym) := ms.zipIdx.map (fun (ks, i) => ks.map (fun k => (k, Sym.l 0 (toString i :: k))))
      let other : CmpOperand Sym ← (match other with
        | .list [.atom "tc", ks] => do pure (CmpOperand.tensorclass (mkKV 1 (← paths? ks)))
        | .list [.atom "coll", .list bs] => do
            let bms ← bs.mapM paths?
            pure (CmpOperand.collection (bms.zipIdx.map (fun (ks, i) => ks.map (fun k => (k, Sym.l 1 (toString i :: k))))))
        | .list [.atom "shape"] => some CmpOperand.shapeMismatch
        | .list [.atom "sc"] => some (CmpOperand.scalar (Sym.sc 1))
        | .list [.atom "bad"] => some CmpOperand.unsupported
        | _ => none)
      let kvS (kv : KV Sym) : Sexp := .list (kv.map (fun (k, v) => .list [.list (k.map .atom), symToSexp v]))
      match lazyCmp f2 (fun a b => .ap [.sc 93, a, b]) (fun l => .ap (.sc 94 :: l)) hasDefault A other with
      | .error e => pure (errSexp e)
      | .ok .default => pure (tagged "ok" [.list [.atom "default"]])
      | .ok (.members R) => pure (tagged "ok" [tagged "members" (R.map kvS)])
      | .ok (.dense r) => pure (tagged "ok" [tagged "dense" [kvS r]])
  | _, _ => none

end TdVerif.Drive
