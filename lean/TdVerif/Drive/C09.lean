import TdVerif.Sexp

namespace TdVerif.Drive
open TdVerif Sexp

/-- line-protocol handler for C09: commands are named `c09.<something>` -/
def handleC09 (cmd : String) (args : List Sexp) : Option Sexp :=
  match cmd, args with
  | _, _ => none

end TdVerif.Drive
