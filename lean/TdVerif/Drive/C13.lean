import TdVerif.Sexp
import TdVerif.Model.C13Module
import TdVerif.Model.C13Params
import TdVerif.Model.C13Inplace

namespace TdVerif.Drive
open TdVerif Sexp TdVerif.C13

namespace C13IO

/-- kinds: `p` Parameter, `pl` UninitializedParameter, `t` plain tensor / buffer -/
def tnOf (i : Nat) (k : String) : Tn := ⟨i, k == "p" || k == "pl", k == "pl"⟩

/-- `(name id p|pl|t)` or `(name none)` -/
def optEntry? : Sexp → Option (Name × Option Tn)
  | .list [.atom n, .atom "none"] => some (n, none)
  | .list [.atom n, i, .atom k] => do
      let i ← asNat? i
      pure (n, some (tnOf i k))
  | _ => none

def entry? (s : Sexp) : Option (Name × Tn) := do
  let (n, t) ← optEntry? s
  let t ← t
  pure (n, t)

def kid? : Sexp → Option (Name × Option MId)
  | .list [.atom n, .atom "none"] => some (n, none)
  | .list [.atom n, i] => do pure (n, some (← asNat? i))
  | _ => none

/-- `(mod (params …) (buffers …) (plain …) (kids …) [(np name…)] [custom])` -/
def mod? : Sexp → Option Mod
  | .list (.atom "mod" :: fields) =>
    fields.foldlM (fun (md : Mod) f =>
      match f with
      | .list (.atom "params" :: ps) => do pure { md with params := ← ps.mapM optEntry? }
      | .list (.atom "buffers" :: bs) => do pure { md with buffers := ← bs.mapM optEntry? }
      | .list (.atom "plain" :: ds) => do pure { md with plain := ← ds.mapM entry? }
      | .list (.atom "kids" :: ks) => do pure { md with kids := ← ks.mapM kid? }
      | .list (.atom "np" :: ns) => do pure { md with nonPersistent := ← ns.mapM asAtom? }
      | .atom "custom" => some { md with custom := true }
      | .list [.atom "hooks", n] => do pure { md with preHooks := ← asNat? n }
      | _ => none) {}
  | _ => none

def heap? : Sexp → Option (List Mod)
  | .list (.atom "mods" :: ms) => ms.mapM mod?
  | _ => none

def toHeap (ms : List Mod) : Heap := fun c => ms.getD c {}

mutual
partial def tree? : Sexp → Option PTree
  | .list [.atom "leaf", i, .atom k] => do pure (.leaf (tnOf (← asNat? i) k))
  | .list (.atom "node" :: es) => do pure (.node (← es.mapM ent?))
  | _ => none
partial def ent? : Sexp → Option (Name × PTree)
  | .list [.atom n, t] => do pure (n, ← tree? t)
  | _ => none
end

/-- `(td (name tree) …)` -/
def td? : Sexp → Option (List (Name × PTree))
  | .list (.atom "td" :: es) => es.mapM ent?
  | _ => none

partial def stmt? : Sexp → Option Stmt
  | .atom "nop" => some .nop
  | .atom "raise" => some .raise
  | .atom "raiseb" => some .raiseBase
  | .list (.atom "block" :: p :: m :: body) => do
      pure (.block (← td? p) (← asNat? m) false (← body.mapM stmt?))
  | .list (.atom "blockt" :: p :: m :: body) => do      -- the parameter tensordict is a temporary
      pure (.block (← td? p) (← asNat? m) true (← body.mapM stmt?))
  | .list (.atom "try" :: body) => do pure (.tryExcept (← body.mapM stmt?))
  | _ => none

def tnSexp (t : Tn) : List Sexp := [ofNat t.id, .atom (if t.isParam then (if t.lazy then "pl" else "p") else "t")]

def optEntrySexp : Name × Option Tn → Sexp
  | (n, none) => .list [.atom n, .atom "none"]
  | (n, some t) => .list (.atom n :: tnSexp t)

def modSexp (md : Mod) : Sexp :=
  tagged "mod" ([tagged "params" (md.params.map optEntrySexp), tagged "buffers" (md.buffers.map optEntrySexp),
    tagged "plain" (md.plain.map (fun e => .list (.atom e.1 :: tnSexp e.2)))]
    -- len(module._forward_pre_hooks), printed only when there are some
    ++ (if md.preHooks == 0 then [] else [tagged "hooks" [ofNat md.preHooks]]))

def heapSexp (h : Heap) (n : Nat) : Sexp := tagged "mods" ((List.range n).map (fun c => modSexp (h c)))

mutual
partial def treeSexp : PTree → Sexp
  | .leaf t => tagged "leaf" (tnSexp t)
  | .node es => tagged "node" (es.map entSexp)
partial def entSexp : Name × PTree → Sexp
  | (n, t) => .list [.atom n, treeSexp t]
end

def tdSexp (es : List (Name × PTree)) : Sexp := tagged "td" (es.map entSexp)

def errSexp : Err → Sexp
  | .key => .atom "key" | .type => .atom "type" | .cycle => .atom "cycle" | .attr => .atom "attr" | .fuel => .atom "fuel"

def statusSexp : Status → Sexp
  | .normal => .atom "normal" | .raised => .atom "raised" | .raisedBase => .atom "raised-base" | .entryFailed => .atom "entry-failed"
  | .exitFailed => .atom "exit-failed"

def swapAns (n : Nat) : Except (Err × Heap) (Heap × List (Name × PTree)) → Sexp
  | .ok (h, s) => tagged "ok" [heapSexp h n, tdSexp s]
  | .error (e, h) => tagged "err" [errSexp e, heapSexp h n]

def execAns (n : Nat) (r : State × Status) : Sexp :=
  .list [statusSexp r.2, heapSexp r.1.heap n, ofNats (r.1.tds.map (fun td => td.queue.length))]

end C13IO

open C13IO in
/-- line-protocol handler for C13: commands are named `c13.<something>` -/
def handleC13 (cmd : String) (args : List Sexp) : Option Sexp :=
  match cmd, args with
  | "c13.from_module", [hp, root] => do
      let ms ← heap? hp; let root ← asNat? root
      match fromModule (toHeap ms) (ms.length + 1) root with
      | .ok none => pure (tagged "ok" [.atom "none"])
      | .ok (some t) => pure (tagged "ok" [tdSexp t])
      | .error e => pure (tagged "err" [errSexp e])
  | "c13.from_module_sd", [hp, root] => do
      let ms ← heap? hp; let root ← asNat? root
      match fromModuleSD (toHeap ms) (ms.length + 1) root with
      | .ok none => pure (tagged "ok" [.atom "none"])
      | .ok (some t) => pure (tagged "ok" [tdSexp t])
      | .error e => pure (tagged "err" [errSexp e])
  | "c13.roundtrip_sd", [hp, root, p] => do
      -- to_module(use_state_dict=True), then the same call on the swap with swap_dest = p
      let ms ← heap? hp; let root ← asNat? root; let p ← td? p
      match swapSD (toHeap ms) root p with
      | .error (e, h) => pure (tagged "err" [errSexp e, heapSexp h ms.length])
      | .ok (h1, s) =>
        match swapSD h1 root s with
        | .error (e, h) => pure (tagged "err2" [errSexp e, heapSexp h ms.length])
        | .ok (h2, _) => pure (tagged "ok" [heapSexp h2 ms.length, tdSexp s])
  | "c13.roundtrip_sd_hook", [hp, root, p, .list (.atom "paths" :: paths)] => do
      -- use_state_dict=True with load-state-dict pre-hooks that rewrite the entries at `paths` (object n ↦ n + 500000),
      -- then the same call on the swap (what `__exit__` does): heap inside the block, heap after it
      let ms ← heap? hp; let root ← asNat? root; let p ← td? p
      let paths ← paths.mapM (fun q => match q with
        | .list names => names.mapM asAtom?
        | _ => none)
      let hk : List Name → Tn → Tn := fun path t => if paths.contains path then { t with id := t.id + 500000 } else t
      match swapSDHook hk (toHeap ms) root p with
      | .error (e, h) => pure (tagged "err" [errSexp e, heapSexp h ms.length])
      | .ok (h1, s) =>
        match swapSDHook hk h1 root s with
        | .error (e, h) => pure (tagged "err2" [errSexp e, heapSexp h ms.length])
        | .ok (h2, _) => pure (tagged "ok" [heapSexp h1 ms.length, heapSexp h2 ms.length])
  | "c13.swap", [hp, root, p] => do
      let ms ← heap? hp; let root ← asNat? root; let p ← td? p
      pure (swapAns ms.length (swap (toHeap ms) root p))
  | "c13.install", [hp, root, p] => do
      -- to_module(module, return_swap=False)
      let ms ← heap? hp; let root ← asNat? root; let p ← td? p
      match install (toHeap ms) root p with
      | .error (e, h) => pure (tagged "err" [errSexp e, heapSexp h ms.length])
      | .ok h1 => pure (tagged "ok" [heapSexp h1 ms.length])
  | "c13.swap_old", [hp, root, p] => do
      let ms ← heap? hp; let root ← asNat? root; let p ← td? p
      pure (swapAns ms.length (swapOld (toHeap ms) root p))
  | "c13.roundtrip", [hp, root, p] => do
      -- to_module, then the swap back with swap_dest = p (what a with-block does on exit)
      let ms ← heap? hp; let root ← asNat? root; let p ← td? p
      match swap (toHeap ms) root p with
      | .error (e, h) => pure (tagged "err" [errSexp e, heapSexp h ms.length])
      | .ok (h1, s) =>
        match swap h1 root s with
        | .error (e, h) => pure (tagged "err2" [errSexp e, heapSexp h ms.length])
        | .ok (h2, back) =>
          match quickSet back p with
          | .ok p' => pure (tagged "ok" [heapSexp h2 ms.length, tdSexp s, tdSexp p'])
          | .error e => pure (tagged "err2" [errSexp e, heapSexp h2 ms.length])
  | "c13.exec", [hp, .list prog] => do
      let ms ← heap? hp; let prog ← prog.mapM stmt?
      pure (execAns ms.length (exec ⟨toHeap ms, []⟩ prog))
  | "c13.exec_old", [hp, .list prog] => do
      let ms ← heap? hp; let prog ← prog.mapM stmt?
      pure (execAns ms.length (execOld ⟨toHeap ms, []⟩ prog))
  | "c13.inplace", [hp, root, p] => do
      -- to_module(inplace=True) then the swap back: values of the module's tensor objects (value of object i = i before)
      let ms ← heap? hp; let root ← asNat? root; let p ← td? p
      match Inplace.visit (toHeap ms) [root] root p with
      | .error e => pure (tagged "err" [errSexp e])
      | .ok (_, ws) =>
        let ids := (ms.flatMap (fun md => (md.params.filterMap (·.2)) ++ (md.buffers.filterMap (·.2)) ++ md.plain.map (·.2))).map (·.id)
        let ids := ids.eraseDups
        let mx := (ids ++ ws.map (·.2.id)).foldl max 0
        let s0 : Inplace.VS := ⟨fun i => i, mx + 1⟩
        let r1 := Inplace.inplaceAll s0 ws
        let s2 := Inplace.roundTrip s0 ws
        let pr (s : Inplace.VS) : Sexp := .list (ids.map (fun i => .list [ofNat i, ofNat (s.vals i)]))
        pure (tagged "ok" [pr r1.1, pr s2])
  | "c13.reset_params", leaves => do
      -- each leaf: ((path components…) p|t) ; answer: (parameter names in registry order) (buffer names)
      let ls ← leaves.mapM (fun l => match l with
        | .list [.list comps, .atom k] => do
            let comps ← comps.mapM asAtom?
            pure (comps, tnOf 0 k)
        | _ => none)
      let ls := ls.zipIdx.map (fun (e, i) => (e.1, ({ e.2 with id := i } : Tn)))
      let r := Params.resetParams ls
      pure (.list [.list (r.1.map (fun e => .atom e.1)), .list (r.2.map (fun e => .atom e.1))])
  | _, _ => none

end TdVerif.Drive
