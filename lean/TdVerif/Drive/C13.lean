import TdVerif.Sexp

namespace TdVerif.Drive
open TdVerif Sexp

/-- line-protocol handler for C13: commands are named `c13.<something>` -/
def handleC13 (cmd : String) (args : List Sexp) : Option Sexp :=
  match cmd, args with
  | _, _ => none

end TdVerif.Drive
