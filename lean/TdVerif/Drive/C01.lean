import TdVerif.Sexp

namespace TdVerif.Drive
open TdVerif Sexp

/-- line-protocol handler for C01: commands are named `c01.<something>` -/
def handleC01 (cmd : String) (args : List Sexp) : Option Sexp :=
  match cmd, args with
  | _, _ => none

end TdVerif.Drive
