import TdVerif.Sexp
import TdVerif.Model.C01Coherence
import TdVerif.Model.C01Lazy

namespace TdVerif.Drive
open TdVerif Sexp
open TdVerif.C01

namespace C01D

def hexVal (c : Char) : Option Nat :=
  if '0' ≤ c ∧ c ≤ '9' then some (c.toNat - '0'.toNat)
  else if 'a' ≤ c ∧ c ≤ 'f' then some (c.toNat - 'a'.toNat + 10)
  else none

def unhex (s : String) : Option String :=
  match s.toList with
  | 'h' :: cs =>
    let rec go : List Char → List UInt8 → Option (List UInt8)
      | [], acc => some acc.reverse
      | [_], _ => none
      | a :: b :: r, acc => do
        let x ← hexVal a; let y ← hexVal b
        go r ((UInt8.ofNat (x * 16 + y)) :: acc)
    match go cs [] with
    | some bytes => String.fromUTF8? ⟨bytes.toArray⟩
    | none => none
  | _ => none

def hexDigit (n : Nat) : Char := if n < 10 then Char.ofNat (48 + n) else Char.ofNat (87 + n)

def tohex (s : String) : String :=
  "h" ++ String.ofList (s.toUTF8.toList.flatMap fun b => [hexDigit (b.toNat / 16), hexDigit (b.toNat % 16)])

def pathOf : Sexp → Option Path
  | .list l => l.mapM fun (a : Sexp) => match a with
    | Sexp.atom s => unhex s
    | _ => none
  | _ => none

def optNat : Sexp → Option (Option Nat)
  | .atom "none" => some none
  | a => (asNat? a).map some

def namesOf : Sexp → Option (Option DimNames)
  | .atom "none" => some none
  | .list l => (l.mapM fun (a : Sexp) => match a with
      | Sexp.atom "none" => some (none : Option String)
      | Sexp.atom s => (unhex s).map some
      | _ => none).map some
  | _ => none

partial def treeOf : Sexp → Option M
  | .list [.atom "l", .list sh, d] => do pure (.leaf (← nats? sh) (← asNat? d))
  | .list (.atom "n" :: .list bs :: d :: ns :: kvs) => do
    let kids ← kvs.mapM fun (kv : Sexp) => match kv with
      | Sexp.list [Sexp.atom k, v] => do pure ((← unhex k), (← treeOf v))
      | _ => none
    pure (.node (← nats? bs) (← optNat d) (← namesOf ns) kids)
  | _ => none

partial def pvOf : Sexp → Option PV
  | .list [.atom "l", .list sh, d] => do pure (.leaf (← nats? sh) (← asNat? d))
  | .list (.atom "d" :: kvs) => do
    let l ← kvs.mapM fun (kv : Sexp) => match kv with
      | Sexp.list [Sexp.atom k, v] => do pure ((← unhex k), (← pvOf v))
      | _ => none
    pure (.dict l)
  | _ => none

def namesTo : Option DimNames → Sexp
  | none => .atom "none"
  | some l => .list (l.map fun n => match n with
    | none => .atom "none"
    | some s => .atom (tohex s))

partial def treeTo : M → Sexp
  | .leaf s d => .list [.atom "l", ofNats s, ofNat d]
  | .node bs d ns kids =>
    .list (.atom "n" :: ofNats bs :: (match d with | none => .atom "none" | some x => ofNat x) :: namesTo ns ::
      kids.map fun kv => .list [.atom (tohex kv.1), treeTo kv.2])

def errTo : Err → String
  | .key => "key" | .value => "value" | .runtime => "runtime" | .other => "other" | .attr => "attr"
  | .index => "index" | .type => "type"

def outTo : Out → Sexp
  | .ok => .list [.atom "ok"]
  | .err e => .list [.atom "err", .atom (errTo e)]

def opOf : Sexp → Option Op
  | .list [.atom "set", h, k, v] => do pure (.set (← pathOf h) (← pathOf k) (← treeOf v))
  | .list [.atom "setbatch", h, .list bs] => do pure (.setBatch (← pathOf h) (← nats? bs))
  | .list [.atom "setnames", h, ns] => do pure (.setNames (← pathOf h) (← namesOf ns))
  | .list [.atom "del", h, k] => do pure (.del (← pathOf h) (← pathOf k))
  | .list [.atom "rename", h, o, n] => do pure (.rename (← pathOf h) (← pathOf o) (← pathOf n))
  | .list [.atom "create", h, k] => do pure (.createNested (← pathOf h) (← pathOf k))
  | .list [.atom "clear", h] => do pure (.clear (← pathOf h))
  | .list [.atom "pop", h, k] => do pure (.pop (← pathOf h) (← pathOf k))
  | .list [.atom "popitem", h] => do pure (.popitem (← pathOf h))
  | .list [.atom "setdefault", h, k, v] => do pure (.setdefault (← pathOf h) (← pathOf k) (← treeOf v))
  | .list [.atom "refine", h, ns] => do
      match (← namesOf ns) with
      | some l => pure (.refineNames (← pathOf h) l)
      | none => none
  | .list [.atom "excludein", h, .list ks] => do pure (.excludeIn (← pathOf h) (← ks.mapM pathOf))
  | .list [.atom "flattenin", h, .atom sep] => do pure (.flattenIn (← pathOf h) (← unhex sep))
  | .list [.atom "unflattenin", h, .atom sep] => do pure (.unflattenIn (← pathOf h) (← unhex sep))
  | .list [.atom "selectin", h, m] => do pure (.selectIn (← pathOf h) (← treeOf m))
  | .list [.atom "write", h, .atom an, m] => do pure (.write (← pathOf h) (an == "true") (← treeOf m))
  | .list [.atom "updatetd", h, m] => do pure (.updateTd (← pathOf h) (← treeOf m))
  | .list [.atom "updatebs", h, m] => do pure (.updateBs (← pathOf h) (← treeOf m))
  | .list [.atom "auto", h, bd] => do pure (.autoBatch (← pathOf h) (← optNat bd))
  | .list (.atom "update" :: h :: items) => do
      let its ← items.mapM fun (it : Sexp) => match it with
        | Sexp.list [k, v] => do pure ((← pathOf k), (← pvOf v))
        | _ => none
      pure (.update (← pathOf h) its)
  | _ => none

def lzOf : Sexp → Option LZ
  | .list [.atom "lz", sd, sn, .list ms] => do
    let sname ← match sn with
      | Sexp.atom "none" => some (none : Option String)
      | Sexp.atom x => (unhex x).map some
      | _ => none
    pure { sd := (← asNat? sd), sname := sname, members := (← ms.mapM treeOf) }
  | _ => none

def lzTo (L : LZ) : Sexp :=
  .list [.atom "lz", ofNat L.sd, (match L.sname with | none => .atom "none" | some x => .atom (tohex x)), .list (L.members.map treeTo)]

def lopOf : Sexp → Option LOp
  | .list [.atom "lset", k, .list sh, d] => do pure (.set (← pathOf k) (← nats? sh) (← asNat? d))
  | .list [.atom "ldel", k] => do pure (.del (← pathOf k))
  | .list [.atom "lrename", o, n] => do pure (.rename (← pathOf o) (← pathOf n))
  | .list [.atom "lsetnames", ns] => do pure (.setNames (← namesOf ns))
  | .list [.atom "lsetbatch", .list bs] => do pure (.setBatch (← nats? bs))
  | .list [.atom "linsert", i, m] => do pure (.insert (← asNat? i) (← treeOf m))
  | _ => none

end C01D

open C01D in
/-- line-protocol handler for C01: commands are named `c01.<something>` -/
def handleC01 (cmd : String) (args : List Sexp) : Option Sexp :=
  match cmd, args with
  | "c01.step", [t, op] => do
      let t ← treeOf t
      let op ← opOf op
      let (t', out) := step t op
      pure (.list [treeTo t', outTo out])
  | "c01.lstep", [l, op] => do
      let L ← lzOf l
      let op ← lopOf op
      let (L', out) := lstep L op
      pure (.list [lzTo L', outTo out])
  | _, _ => none

end TdVerif.Drive
