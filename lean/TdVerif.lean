-- root of the library: every property module (models, lemmas and Gen files come in transitively)
import TdVerif.Props.C18
import TdVerif.Props.C13
import TdVerif.Props.C02
import TdVerif.Props.C04
import TdVerif.Props.C09
import TdVerif.Props.C14
import TdVerif.Props.C03
import TdVerif.Props.C05
import TdVerif.Props.C20
import TdVerif.Props.C12
import TdVerif.Props.C15
import TdVerif.Props.C07
import TdVerif.Props.C01
import TdVerif.Props.C17
