import TdVerif.Sexp
import TdVerif.Drive.C01
import TdVerif.Drive.C02
import TdVerif.Drive.C03
import TdVerif.Drive.C04
import TdVerif.Drive.C05
import TdVerif.Drive.C06
import TdVerif.Drive.C07
import TdVerif.Drive.C08
import TdVerif.Drive.C09
import TdVerif.Drive.C10
import TdVerif.Drive.C11
import TdVerif.Drive.C12
import TdVerif.Drive.C13
import TdVerif.Drive.C14
import TdVerif.Drive.C15
import TdVerif.Drive.C16
import TdVerif.Drive.C17
import TdVerif.Drive.C18
import TdVerif.Drive.C19
import TdVerif.Drive.C20

open TdVerif TdVerif.Drive

def handlers : List (String → List Sexp → Option Sexp) := [
  handleC01, handleC02, handleC03, handleC04, handleC05, handleC06, handleC07, handleC08, handleC09, handleC10, handleC11, handleC12, handleC13, handleC14, handleC15, handleC16, handleC17, handleC18, handleC19, handleC20]

def answer (line : String) : String :=
  match Sexp.parse line with
  | some (.list (.atom cmd :: args)) =>
    match handlers.findSome? (fun h => h cmd args) with
    | some r => r.toStr
    | none => "(bad-op)"
  | _ => "(bad-op)"

partial def loop (h : IO.FS.Stream) (out : IO.FS.Stream) : IO Unit := do
  let line ← h.getLine
  if line.isEmpty then return ()
  out.putStrLn (answer line)
  out.flush
  loop h out

def main : IO Unit := do
  let out ← IO.getStdout
  loop (← IO.getStdin) out
  out.flush
