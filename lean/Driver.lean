import TdVerif.Sexp
import TdVerif.Drive.C18

open TdVerif TdVerif.Drive

def handlers : List (String → List Sexp → Option Sexp) := [handleC18]

def answer (line : String) : String :=
  match Sexp.parse line with
  | some (.list (.atom cmd :: args)) =>
    match handlers.findSome? (fun h => h cmd args) with
    | some r => r.toStr
    | none => "(bad-op)"
  | _ => "(bad-op)"

partial def loop (h : IO.FS.Stream) (out : IO.FS.Stream) : IO Unit := do
  let line ← h.getLine
  if line.isEmpty then return ()
  out.putStrLn (answer line)
  out.flush
  loop h out

def main : IO Unit := do
  let out ← IO.getStdout
  loop (← IO.getStdin) out
  out.flush
