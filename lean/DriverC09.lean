-- per-property driver: imports only this property's handlers, so that a build problem in another
-- property's files cannot take this check down
import TdVerif.Sexp
import TdVerif.Drive.C09

open TdVerif TdVerif.Drive

def answer (line : String) : String :=
  match Sexp.parse line with
  | some (.list (.atom cmd :: args)) =>
    match handleC09 cmd args with
    | some r => r.toStr
    | none => "(bad-op)"
  | _ => "(bad-op)"

partial def loop (h : IO.FS.Stream) (out : IO.FS.Stream) : IO Unit := do
  let line ← h.getLine
  if line.isEmpty then return ()
  out.putStrLn (answer line)
  out.flush
  loop h out

def main : IO Unit := do
  let out ← IO.getStdout
  loop (← IO.getStdin) out
  out.flush
