"""C17 helpers: states, canonical ops and their call spellings, the implementation runner, the oracle.

A *state* is (bs, names|None, keys, locked): keys are leaf paths (tuples of str).
A *canonical op* is (name, canonical arguments); `spellings(op, bs)` enumerates the ways the same call can be
written (positional / keyword / mixed / negative dims / list vs varargs); the oracle computes the inverse with
the canonical arguments, never with the spelled ones.
"""
from __future__ import annotations

import itertools
import math

import torch

from common import err_class, time_limit

def slow_is_infra(e):
    """a time limit that expires says something about the box (exit 2), never about the property"""
    if isinstance(e, TimeoutError):
        from common import Infra
        raise Infra(f"an implementation call did not finish within its time limit on this box: {e}")


NAME_POOL = ["a", "b", "c", "d", "e"]
SEPS = [".", "_", "/", "__", "-."]


def numel(s):
    return math.prod(s)


# --------------------------------------------------------------------------- protocol encoding
def enc_str(s: str) -> str:
    return "(" + " ".join(str(ord(ch)) for ch in s) + ")"


def enc_key(k) -> str:
    return "(" + " ".join(enc_str(c) for c in k) + ")"


def enc_val(v) -> str:
    if v is None:
        return "none"
    if isinstance(v, bool):
        return f"(bool {'true' if v else 'false'})"
    if isinstance(v, int):
        return f"(int {v})"
    if isinstance(v, str):
        return "(str " + " ".join(str(ord(ch)) for ch in v) + ")"
    if isinstance(v, (list, tuple, torch.Size)):
        return "(ints " + " ".join(str(int(x)) for x in v) + ")"
    raise TypeError(v)


def enc_call(args, kwargs) -> str:
    return ("(call (args " + " ".join(enc_val(a) for a in args) + ") (kwargs "
            + " ".join(f"({k} {enc_val(v)})" for k, v in kwargs.items()) + "))")


def enc_state(st) -> str:
    bs, names, keys, locked = st
    nm = "none" if names is None else "(" + " ".join("none" if n is None else n for n in names) + ")"
    return (f"(st ({' '.join(map(str, bs))}) {nm} (keys " + " ".join(enc_key(k) for k in keys) + f") {'true' if locked else 'false'})")


def enc_edits(edits) -> str:
    out = []
    for e in edits:
        if e[0] in ("value", "swap", "rebind"):
            out.append("(value)")       # no metadata change (the bindings model sees the difference: c17.bind)
        else:
            out.append(f"(add {enc_key(e[1])})")
    return "(edits " + " ".join(out) + ")"


def dec_state(sx):
    """parse_sx'd `(st (bs) (names) (keys k...) locked)` -> comparable form with sorted keys"""
    _, bs, names, keys, locked = sx
    ks = sorted(tuple("".join(chr(c) for c in comp) for comp in k) for k in keys[1:])
    return [list(bs), list(names), ks, locked == "true"]


# --------------------------------------------------------------------------- states
def gen_state(rng, rank=None, for_op=None):
    if rank is None:
        rank = rng.choice([2, 3, 3, 3, 4, 4]) if for_op == "permute" else rng.choice([0, 1, 2, 2, 3, 3, 4])
    bs = tuple(rng.choice([1, 1, 2, 3]) for _ in range(rank))
    if for_op == "permute" and rank >= 3 and rng.random() < 0.7:
        bs = tuple(rng.sample([1, 2, 3, 4, 5], rank))      # pairwise distinct sizes: a wrong inverse cannot go unnoticed
    names = None
    if bs and rng.random() < 0.4:
        pool = rng.sample(NAME_POOL, len(bs))
        names = tuple(p if rng.random() < 0.7 else None for p in pool)
        if all(n is None for n in names):
            names = None
    keys = [("a",)]
    if rng.random() < 0.6:
        keys.append(("b",))
    if rng.random() < 0.6:
        keys.append(("n", "c"))
        if rng.random() < 0.4:
            keys.append(("n", "m", "d"))
    if for_op == "unflatten_keys" or rng.random() < 0.25:
        sep = rng.choice(SEPS)
        keys.append((f"p{sep}q",))
        if rng.random() < 0.5:
            keys.append((f"p{sep}r{sep}s",))
        if for_op == "unflatten_keys" and rng.random() < 0.6:
            keys = [k for k in keys if len(k) == 1]
    return (bs, names, keys, rng.random() < 0.35)


def build(st):
    from tensordict import TensorDict
    bs, names, keys, locked = st
    td = TensorDict({}, batch_size=list(bs), names=None if names is None else list(names))
    for i, k in enumerate(keys):
        feat = (2,) if i % 2 else ()
        shape = tuple(bs) + feat
        td[k if len(k) > 1 else k[0]] = (torch.arange(numel(shape), dtype=torch.int64) + 1000 * (i + 1)).reshape(shape)
    if locked:
        td.lock_()
    return td


def meta_to_state(m):
    bs, names, keys, locked = m
    nm = tuple(None if n == "none" else n for n in names)
    return (tuple(bs), nm if any(n is not None for n in nm) else None, list(keys), locked)


def meta(td):
    ks = sorted((k,) if isinstance(k, str) else tuple(k) for k in td.keys(True, True))
    return [list(td.batch_size), ["none" if n is None else n for n in td.names], ks, bool(td.is_locked)]


# --------------------------------------------------------------------------- canonical ops and spellings
def neg(d, n, rng):
    return d - n if rng.random() < 0.4 else d


def gen_canonical(rng, st, name=None):
    """a canonical op valid for the state (mostly), as (name, canonical args)"""
    bs = st[0]
    n = len(bs)
    name = name or rng.choice(["transpose", "permute", "squeeze", "unsqueeze", "flatten", "unflatten", "view",
                               "flatten_keys", "unflatten_keys", "lock_", "unlock_"])
    if name == "transpose":
        if n == 0:
            return ("unsqueeze", 0)
        return (name, rng.randrange(n), rng.randrange(n))
    if name == "permute":
        p = list(range(n))
        rng.shuffle(p)
        if n >= 3 and rng.random() < 0.7:
            # prefer permutations that are not their own inverse (p∘p ≠ id)
            for _ in range(10):
                if any(p[p[i]] != i for i in range(n)):
                    break
                rng.shuffle(p)
        return (name, tuple(p))
    if name == "squeeze":
        ones = [i for i, d in enumerate(bs) if d == 1]
        if ones and rng.random() < 0.85:
            return (name, rng.choice(ones))
        if n and rng.random() < 0.7:
            return (name, rng.randrange(n))     # possibly a no-op squeeze (returns self)
        return (name, None)
    if name == "unsqueeze":
        return (name, rng.randint(0, n))
    if name == "flatten":
        if n < 2:
            return ("unsqueeze", rng.randint(0, n))
        a = rng.randrange(0, n - 1)
        return (name, a, rng.randrange(a + 1, n))
    if name == "unflatten":
        if n == 0:
            return ("unsqueeze", 0)
        d = rng.randrange(n)
        size = bs[d]
        k = rng.choice([1, 2, 2, 3])
        sizes = [1] * k
        sizes[rng.randrange(k)] = size
        return (name, d, tuple(sizes))
    if name == "view":
        tot = numel(bs)
        k = rng.choice([1, 1, 2, 3])
        shape = [1] * k
        shape[rng.randrange(k)] = tot
        if rng.random() < 0.3 and n >= 2:
            shape = [numel(bs[:1]), numel(bs[1:])]
        if rng.random() < 0.1:
            shape = list(bs)
        return (name, tuple(shape))
    if name in ("flatten_keys", "unflatten_keys"):
        return (name, rng.choice(SEPS))
    return (name,)


def spellings(op, st):
    """all (args, kwargs) spellings of the canonical op; every one must behave identically"""
    bs = st[0]
    n = len(bs)
    name = op[0]

    def dim_forms(d, m=None):
        m = n if m is None else m
        return [d] if m == 0 else sorted({d, d - m})
    out = []
    if name == "transpose":
        for a in dim_forms(op[1]):
            for b in dim_forms(op[2]):
                out += [((a, b), {}), ((a,), {"dim1": b}), ((), {"dim0": a, "dim1": b}), ((), {"dim1": b, "dim0": a})]
    elif name == "permute":
        forms = [tuple(op[1])]
        if n:
            forms.append(tuple(d - n if i % 2 == 0 else d for i, d in enumerate(op[1])))
            forms.append(tuple(d - n for d in op[1]))
        for p in forms:
            out += [(tuple(p), {}), ((list(p),), {}), ((), {"dims": list(p)})]
        if n == 1:
            out = [o for o in out if o[0] != () or o[1]]
    elif name == "squeeze":
        if op[1] is None:
            out = [((), {})]
        else:
            for d in dim_forms(op[1]):
                out += [((d,), {}), ((), {"dim": d})]
    elif name == "unsqueeze":
        for d in dim_forms(op[1], n + 1):
            out += [((d,), {}), ((), {"dim": d})]
    elif name == "flatten":
        a, b = op[1], op[2]
        for x in dim_forms(a):
            for y in dim_forms(b):
                out += [((x, y), {}), ((x,), {"end_dim": y}), ((), {"start_dim": x, "end_dim": y})]
                if b == n - 1:
                    out += [((x,), {}), ((), {"start_dim": x})]
                if a == 0:
                    out += [((), {"end_dim": y})]
        if a == 0 and b == n - 1:
            out.append(((), {}))
    elif name == "unflatten":
        d, sizes = op[1], tuple(op[2])
        size_forms = [sizes]
        if len(sizes) >= 1 and numel(sizes) > 0:
            for i in range(len(sizes)):
                size_forms.append(sizes[:i] + (-1,) + sizes[i + 1:])
        for x in dim_forms(d):
            for s in size_forms[:3]:
                out += [((x, s), {}), ((x,), {"unflattened_size": s}), ((), {"dim": x, "unflattened_size": s})]
    elif name == "view":
        shape = tuple(op[1])
        forms = [shape]
        if numel(shape) > 0:
            for i in range(len(shape)):
                forms.append(shape[:i] + (-1,) + shape[i + 1:])
        for s in forms[:3]:
            out += [(tuple(s), {}), ((tuple(s),), {}), ((), {"size": tuple(s)})]
    elif name in ("flatten_keys", "unflatten_keys"):
        sep = op[1]
        out = [((sep,), {}), ((), {"separator": sep})]
        if sep == ".":
            out.append(((), {}))
        if name == "flatten_keys":
            out.append(((sep, False), {}))
            out.append(((sep,), {"inplace": False, "is_leaf": None}))
    else:
        out = [((), {})]
    return out


def inverse_with_canonical(op, y, orig_bs):
    """the inverse transformation of the (modified) yielded object, with explicit canonical arguments"""
    name = op[0]
    if name == "transpose":
        return y.transpose(op[1], op[2])
    if name == "permute":
        inv = [0] * len(op[1])
        for i, p in enumerate(op[1]):
            inv[p] = i
        return y.permute(*inv) if inv else y
    if name == "squeeze":
        if op[1] is None or orig_bs[op[1]] != 1:
            return y
        return y.unsqueeze(op[1])
    if name == "unsqueeze":
        return y.squeeze(op[1])
    if name == "flatten":
        return y.unflatten(op[1], tuple(orig_bs[op[1]: op[2] + 1]))
    if name == "unflatten":
        if len(op[2]) == 1:
            return y
        return y.flatten(op[1], op[1] + len(op[2]) - 1)
    if name == "view":
        return y.view(*orig_bs) if len(orig_bs) else y.view(())
    if name == "flatten_keys":
        return y.unflatten_keys(op[1])
    if name == "unflatten_keys":
        return y.flatten_keys(op[1])
    return y


# --------------------------------------------------------------------------- running a block on the implementation
def leaf_keys(td):
    return sorted((k,) if isinstance(k, str) else tuple(k) for k in td.keys(True, True))


def do_edit(y, e, counter):
    if e[0] == "value":
        from tensordict import LazyStackedTensorDict
        if isinstance(y, LazyStackedTensorDict):
            # the leaves a lazy stack hands out are stacked COPIES: an in-place edit must go to the members
            for m in y.tensordicts:
                do_edit(m, e, counter)
            return
        for v in y.values(True, True):
            if isinstance(v, torch.Tensor):
                v.add_(7)      # in place: the yielded object of a locked original is locked too
    elif e[0] == "swap":
        # two entries exchanged: REBINDING (each path now names the tensor the other one named)
        ks = leaf_keys(y)
        if len(ks) >= 2:
            a, b = ks[counter % len(ks)], ks[(counter + 1) % len(ks)]
            va, vb = y.get(a), y.get(b)
            y.set(a, vb)
            y.set(b, va)
    elif e[0] == "rebind":
        ks = leaf_keys(y)
        k = ks[counter % len(ks)]
        old = y.get(k)
        if e[1] == "dtype":
            y.set(k, old.to(torch.float32) * 0.5 + 0.25)
        elif e[1] == "feat":
            y.set(k, torch.full(tuple(y.batch_size) + (3,), 77 + counter, dtype=torch.int64))
        else:
            y.set(k, old.clone() + 1000)
    else:
        k = e[1]
        y[k if len(k) > 1 else k[0]] = torch.full(tuple(y.batch_size), 50 + counter, dtype=torch.int64)


INVERSE_METHODS = ["transpose", "permute", "squeeze", "unsqueeze", "flatten", "unflatten", "view",
                   "flatten_keys", "unflatten_keys", "lock_", "unlock_"]


class ExitRecorder:
    """records which tensordict method `__exit__` calls on the yielded object, with which arguments
    (the observable output of tensordict/_contextlib.py:_reverse_*)"""

    def __init__(self):
        self.calls = []
        self.depth = 0
        self.patches = []

    def __enter__(self):
        import functools
        from tensordict import TensorDict
        from tensordict.base import TensorDictBase
        rec = self
        orig_exit = TensorDictBase.__exit__

        @functools.wraps(orig_exit)
        def exit_(self_, *a):
            rec.depth += 1
            try:
                return orig_exit(self_, *a)
            finally:
                rec.depth -= 1
        self.patches.append((TensorDictBase, "__exit__", orig_exit))
        TensorDictBase.__exit__ = exit_
        for cls in (TensorDictBase, TensorDict):
            for m in INVERSE_METHODS:
                if m not in cls.__dict__:
                    continue
                orig = cls.__dict__[m]

                def make(orig, m):
                    @functools.wraps(orig)
                    def wrapper(self_, *a, **k):
                        if rec.depth == 1 and not rec.calls_locked:
                            rec.calls.append((m, a, k))
                            rec.calls_locked = True   # only the outermost call made by the _reverse_ function
                            try:
                                return orig(self_, *a, **k)
                            finally:
                                rec.calls_locked = False
                        return orig(self_, *a, **k)
                    return wrapper
                self.patches.append((cls, m, orig))
                setattr(cls, m, make(orig, m))
        self.calls_locked = False
        return self

    def __exit__(self, *a):
        for cls, m, orig in reversed(self.patches):
            setattr(cls, m, orig)
        return False


def canon_inverse_call(call):
    """(name, args, kwargs) -> ['name', [encoded positional values]] comparable with the model's `c17.reverse`"""
    import numpy as np
    name, args, kwargs = call
    out = []
    for a in list(args) + [v for _, v in sorted(kwargs.items())]:
        if isinstance(a, np.ndarray):
            a = a.tolist()
        if isinstance(a, bool):
            out.append(["bool", "true" if a else "false"])
        elif isinstance(a, int):
            out.append(["int", int(a)])
        elif isinstance(a, str):
            out.append(["str"] + [ord(ch) for ch in a])
        elif isinstance(a, (list, tuple, torch.Size)):
            out.append(["ints"] + [int(x) for x in a])
        else:
            out.append(["other", type(a).__name__])
    return [name, out]


def run_block(st, name, args, kwargs, edits, limit=30.0, recorder=None, canon_op=None):
    """returns (answer, td_after, yielded_meta, before_clone, y_modified_clone_or_None)"""
    td = build(st)
    before = td.clone()
    ymeta = None
    binds = {"out": ptrs(td), "objs": {k: td.get(k) for k in leaf_keys(td)}, "inv": None}
    _canon = [canon_op] if canon_op is not None and canon_op[0] not in ("lock_", "unlock_") and canon_op[-1] != "malformed" else []
    try:
        with time_limit(limit):
            cm = getattr(td, name)(*args, **kwargs)
            with cm as y:
                ymeta = meta(y)
                for i, e in enumerate(edits):
                    do_edit(y, e, i)
                ymod = y.clone() if y is not td else None
                is_self = y is td
                binds["y"] = ptrs(y)
                if is_self:
                    binds["out"] = binds["y"]      # the edits were made on the original itself
                try:
                    # the inverse image computed by hand with canonical arguments on the LIVE yielded object: its entries are views of
                    # (or the very) tensors the yielded object holds, so their storage identifies them
                    canon_op = _canon[0] if _canon else None
                    binds["inv"] = ptrs(inverse_with_canonical(canon_op, y, st[0])) if canon_op is not None and not is_self else None
                except Exception:  # noqa: BLE001
                    binds["inv"] = None
    except Exception as e:  # noqa: BLE001
        if isinstance(e, TimeoutError):
            # a 30 s limit on a block over a few hundred numbers: the box, not the property (exit 2, never a verdict)
            from common import Infra
            raise Infra(f"a context-managed block did not finish within {limit} s on this box")
        return ["err", err_class(e)], td, ymeta, before, None, e, None
    binds["after"] = ptrs(td)
    binds["same_obj"] = {k: (td.get(k) is binds["objs"].get(k)) for k in leaf_keys(td)}
    return ["ok", meta(td)], td, ymeta, before, (ymod, is_self), None, binds


def ptrs(td):
    """leaf path -> storage pointer (identity of the tensor data a path is bound to; the states have no zero-sized tensors)"""
    return {k: td.get(k).untyped_storage().data_ptr() for k in leaf_keys(td)}


def enc_binds(b, ids):
    return "(binds " + " ".join(f"({enc_key(k)} {ids.setdefault(p, len(ids) + 1)})" for k, p in sorted(b.items())) + ")"


def dec_binds(sx):
    return sorted((tuple("".join(chr(c) for c in comp) for comp in k), int(i)) for k, i in sx[1:])


def oracle(run, st, op, args, kwargs, edits, res, site="ctx"):
    """original after the block == original before, updated with inverse_op(modified yielded) (canonical args)"""
    ans, td, ymeta, before, ym, exc, binds = res
    case = {"op": list(op), "args": list(args), "kwargs": kwargs, "edits": edits, "state": enc_state(st)}
    name = op[0]
    if ans[0] == "err":
        return None   # decided by the caller (it knows whether the canonical call is valid)
    ymod, is_self = ym
    # the lock state of the original AND of every nested tensordict in it is what it was before the block
    from tensordict.base import is_tensor_collection
    subs = [(k, v) for k, v in td.items(True, False) if is_tensor_collection(v)]
    off = [k for k, v in subs if bool(v.is_locked) != st[3]]
    if bool(td.is_locked) != st[3] or off:
        run.oracle_fail(site, case, f"lock state not as before the block: is_locked={td.is_locked} (was {st[3]}), nested with another state: {off[:3]}",
                        f"{name}:lock-not-reverted")
        return False
    if name in ("lock_", "unlock_"):
        run.oracle_ok(site)
        return True
    src = td if is_self else ymod
    try:
        inv = inverse_with_canonical(op, src, st[0])
    except Exception as e:  # noqa: BLE001
        run.count("oracle.inverse_not_applicable", name)
        return None
    exp = before.clone()
    if st[3]:
        exp.unlock_()
        for k in exp.keys(True, True):
            if k in inv.keys(True, True):
                exp.set(k, inv.get(k).clone())
        exp.lock_()
    else:
        exp.update(inv.clone())
    if meta(td) != meta(exp):
        run.oracle_fail(site, case, f"original after the block {meta(td)} expected {meta(exp)}", f"{name}:meta")
        return False
    if list(td.batch_size) != list(st[0]) or bool(td.is_locked) != st[3]:
        run.oracle_fail(site, case, "batch size / lock state of the original changed", f"{name}:orig-changed")
        return False
    inv_keys = set(inv.keys(True, True))
    for k in exp.keys(True, True):
        if k not in inv_keys:
            continue    # entries the inverse image does not name keep their tensors (possibly edited in place through shared storage)
        got, want = td.get(k), exp.get(k)
        if got.dtype != want.dtype or tuple(got.shape) != tuple(want.shape):
            run.oracle_fail(site, case, f"{k}: dtype/shape {got.dtype} {tuple(got.shape)} but the inverse image of the modified object has "
                            f"{want.dtype} {tuple(want.shape)}", f"{name}:dtype-shape")
            return False
        if not torch.equal(got, want):
            run.oracle_fail(site, case, f"value of {k} differs from the inverse image of the modified object", f"{name}:value")
            return False
    # bindings: "in place when the original is locked" = every path still names the very tensor object it named before;
    # an unlocked original holds the ENTRIES of the inverse image (same storage as the modified yielded object), not copies into its old tensors
    if binds is not None and not is_self:
        if st[3]:
            moved = [k for k, same in binds["same_obj"].items() if k in binds["objs"] and not same]
            if moved:
                run.oracle_fail(site, case, f"locked original: {moved[0]} is bound to another tensor object after the block (must be written in place)",
                                f"{name}:locked-rebound")
                return False
        elif binds.get("inv") is not None:
            for k, ptr in binds["inv"].items():
                if binds["after"].get(k) != ptr:
                    run.oracle_fail(site, case, f"unlocked original: {k} is not bound to the entry of the inverse image of the modified object "
                                    "(the data was copied into another tensor)", f"{name}:unlocked-not-rebound")
                    return False
    run.oracle_ok(site)
    return True


# --------------------------------------------------------------------------- nested blocks
def apply_spelled(td, name, args, kwargs):
    return getattr(td, name)(*args, **kwargs)


def run_nested(st, kind, op1, sp1, op2, sp2, edits2, edits1, limit=30.0):
    """`with td.<op1> as y: (with (y|td).<op2> as z: edits2); edits1` on the implementation, and the same program
    executed by hand with explicit canonical inverses (no context manager): returns (answer, td, expected_td)"""
    td = build(st)
    ref = build(st)
    try:
        with time_limit(limit):
            with apply_spelled(td, op1[0], *sp1) as y:
                inner_on = y if kind == "yielded" else td
                with apply_spelled(inner_on, op2[0], *sp2) as z:
                    for i, e in enumerate(edits2):
                        do_edit(z, e, i)
                for i, e in enumerate(edits1):
                    do_edit(y, e, 10 + i)
    except Exception as e:  # noqa: BLE001
        slow_is_infra(e)
        return ["err", err_class(e)], td, None, e
    # by hand, LIFO
    try:
        was_locked = ref.is_locked
        y = apply_spelled(ref, op1[0], *sp1)
        inner_on = y if kind == "yielded" else ref
        inner_locked = inner_on.is_locked
        z = apply_spelled(inner_on, op2[0], *sp2)
        for i, e in enumerate(edits2):
            do_edit(z, e, i)
        write_back(inner_on, op2, z, inner_locked)
        for i, e in enumerate(edits1):
            do_edit(y, e, 10 + i)
        write_back(ref, op1, y, was_locked)
    except Exception as e:  # noqa: BLE001
        return ["ok", meta(td)], td, None, e
    return ["ok", meta(td)], td, ref, None


def write_back(out, op, y, was_locked=None):
    """out <- inverse_op(y) with canonical arguments, in place when locked, admitting new keys when not;
    lock_/unlock_: the previous lock state is restored"""
    if op[0] in ("lock_", "unlock_"):
        if was_locked is not None and out.is_locked != was_locked:
            (out.lock_ if was_locked else out.unlock_)()
        return
    if y is out:
        return
    inv = inverse_with_canonical(op, y, tuple(out.batch_size))
    if out.is_locked:
        out.update_(inv)
    else:
        out.update(inv, inplace=False)


def same_td(a, b):
    if meta(a) != meta(b):
        return f"{meta(a)} expected {meta(b)}"
    for k in a.keys(True, True):
        if not torch.equal(a.get(k), b.get(k)):
            return f"value of {k} differs"
    return None


# --------------------------------------------------------------------------- extended domain: other container kinds
def build_lazy(st, lock=None, sd=0):
    """a lazy stack whose dense form is build(st): stacked along dim 0 (needs a non-empty first batch dim).
    lock in {None (= st[3] through the stack), 'no', 'stack' (lz.lock_()), 'members' (members locked before stacking: the stack's
    `_is_locked` is None and `is_locked` is derived), 'relocked' (stack locked, unlocked, members locked again one by one)}"""
    from tensordict import LazyStackedTensorDict
    from tensordict import TensorDict
    bs, names, keys, _ = st
    parts = []
    mnames = None
    if names is not None:
        mnames = [x for q, x in enumerate(names) if q != sd]
        if all(x is None for x in mnames):
            mnames = None
    for j in range(bs[sd]):
        m = TensorDict({}, batch_size=[x for q, x in enumerate(bs) if q != sd], names=mnames)
        for i, k in enumerate(keys):
            feat = (2,) if i % 2 else ()
            shape = tuple(bs) + feat
            full = (torch.arange(numel(shape), dtype=torch.int64) + 1000 * (i + 1)).reshape(shape)
            # (standard contiguous strides: select(...).clone() keeps an odd stride on size-1 dims, and torch refuses an in-place copy between
            # two views of one memory whose strides differ — the memory-overlap class of known finding C17-locked-nested-overlap)
            m[k if len(k) > 1 else k[0]] = full.select(sd, j).clone(memory_format=torch.contiguous_format)
        parts.append(m)
    if lock == "members":
        for m in parts:
            m.lock_()
    lz = LazyStackedTensorDict(*parts, stack_dim=sd, stack_dim_name=(None if names is None else names[sd]))
    if lock == "stack" or (lock is None and st[3]):
        lz.lock_()
    elif lock == "relocked":
        lz.lock_()
        lz.unlock_()
        for m in parts:
            m.lock_()
    return lz
