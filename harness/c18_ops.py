"""C18 program stream: the operation vocabulary (round 2).

Every op is a function td -> td (or a terminal op td -> plain python data) written only with calls that exist on
TensorDict, LazyStackedTensorDict and tensorclass alike (`get`/`set`, not `td["a"]`), so the same program can be
run on the four input kinds.  The module-level objects (tensorclass, TensorDictModule, TensorDictSequential) are
built once, outside the compiled region, as a user would.

Known torch 2.14 dynamo bug (NOT tensordict's): `f(*reversed(range(n)))` with a graph break inside `f` drops
elements -- never spelled here.
"""
from __future__ import annotations

import torch

from tensordict import LazyStackedTensorDict, TensorDict, tensorclass
from tensordict.nn import TensorDictModule, TensorDictSequential, set_skip_existing


@tensorclass
class TC:
    a: torch.Tensor
    b: torch.Tensor
    n: TensorDict


def _inc(x):
    return x + 1


def _dbl(x):
    return x * 2


MOD_M = TensorDictModule(_inc, in_keys=["a"], out_keys=["m"])
MOD_NEST = TensorDictModule(_dbl, in_keys=[("n", "x")], out_keys=[("n", "m")])
MOD_A = TensorDictModule(_dbl, in_keys=["b"], out_keys=["a"])          # overwrites an existing entry
MOD_TUP = TensorDictModule(_inc, in_keys=[("a",)], out_keys=[(("n",), "t")])   # tuple spellings of keys
SEQ = TensorDictSequential(MOD_M, TensorDictModule(_dbl, in_keys=["m"], out_keys=["m2"]))
SEQ_SEL = TensorDictSequential(MOD_M, MOD_NEST, selected_out_keys=["m"])


LINEAR = torch.nn.Linear(1, 1)
with torch.no_grad():
    LINEAR.weight.fill_(1.0); LINEAR.bias.fill_(0.0)
PARAMS = TensorDict.from_module(LINEAR).apply(lambda p: p.data * 3 + 1).lock_()


def _mk_prob():
    from tensordict.nn import ProbabilisticTensorDictModule, ProbabilisticTensorDictSequential, InteractionType
    from torch.distributions import Normal
    prob = ProbabilisticTensorDictModule(in_keys=["loc", "scale"], out_keys=["sample"], distribution_class=Normal,
                                         default_interaction_type=InteractionType.DETERMINISTIC)
    return ProbabilisticTensorDictSequential(TensorDictModule(lambda x: x + 1, in_keys=["loc"], out_keys=["loc"]), prob)


PROB = _mk_prob()


def _mk_wrapped():
    from tensordict.nn import TensorDictModuleWrapper
    return TensorDictModuleWrapper(MOD_M)


WRAPPED = _mk_wrapped()


def names_for(n, prefix="d"):
    return [f"{prefix}{i}" for i in range(n)]


# op name -> (function, set of input kinds it is meaningful for ("*" = all), terminal?)
OPS = {}


def op(name, kinds="*", terminal=False):
    def deco(f):
        OPS[name] = (f, kinds, terminal)
        return f
    return deco


# ---------------------------------------------------------------- round-1 vocabulary (get/set spelling)
@op("set_sum")
def _(td):
    td = td.clone(False); td.set("z", td.get("a") + 1); return td


@op("mul2")
def _(td):
    return td * 2


@op("add_td")
def _(td):
    return td + td


@op("abs")
def _(td):
    return td.abs()


@op("neg")
def _(td):
    return -td


@op("reshape_flat")
def _(td):
    return td.reshape(-1)


@op("unsqueeze0")
def _(td):
    return td.unsqueeze(0)


@op("unsqueeze_last")
def _(td):
    return td.unsqueeze(-1)


@op("permute_rev")
def _(td):
    return td.permute(*tuple(range(td.batch_dims))[::-1])


@op("transpose01")
def _(td):
    return td.transpose(0, 1)


@op("flatten01")
def _(td):
    return td.flatten(0, 1)


@op("squeeze")
def _(td):
    return td.squeeze()


@op("idx0")
def _(td):
    return td[0]


@op("idx_head")
def _(td):
    return td[:1]


@op("idx_empty")
def _(td):
    return td[:0]


@op("idx_tail")
def _(td):
    return td[1:]


@op("idx_step")
def _(td):
    return td[::2]


@op("idx_ell0")
def _(td):
    return td[..., 0]


@op("idx_neg")
def _(td):
    return td[-1:]


@op("idx_list")
def _(td):
    return td[[0, 0]]


@op("sum0")
def _(td):
    return td.sum(0)


@op("stack0")
def _(td):
    return torch.stack([td, td], 0)


@op("stack_last")
def _(td):
    return torch.stack([td, td * 3], -1)


@op("cat0")
def _(td):
    return torch.cat([td, td], 0)


@op("select_a")
def _(td):
    return td.select("a")


@op("exclude_b")
def _(td):
    return td.exclude("b")


@op("apply_inc")
def _(td):
    return td.apply(lambda x: x + 1)


@op("named_apply")
def _(td):
    return td.named_apply(lambda k, x: x * (2 if k == "a" else 3))


@op("clone")
def _(td):
    return td.clone()


@op("expand2")
def _(td):
    return td.expand(2, *td.batch_size)


@op("unbind0")
def _(td):
    return td.unbind(0)[-1]


@op("split1")
def _(td):
    return td.split(1, 0)[0]


@op("chunk2")
def _(td):
    return td.chunk(2, 0)[-1]


@op("getset_nested")
def _(td):
    td = td.clone(False); td.set(("n", "x"), td.get("a") * 5); return td


@op("update_new")
def _(td):
    td = td.clone(False); td.update({"w": td.get("a") - 1}); return td


@op("rename")
def _(td):
    td = td.clone(False); td.rename_key_("a", "a2"); td.set("a", td.get("a2")); return td


@op("setitem_idx")
def _(td):
    td = td.clone(); td[0] = td[-1]; return td


@op("where_self")
def _(td):
    return td.apply(lambda x: torch.where(x > 3, x, -x))


@op("apply_two")
def _(td):
    return td.apply(lambda x, y: x + y, td)


@op("flatten_keys")
def _(td):
    return td.flatten_keys(".")


# ---------------------------------------------------------------- operands with different key sets (_check_keys)
def _hetero(td, name):
    t2 = td.clone(False)
    if "missing" in name:
        t2 = t2.exclude("b")
    else:
        t2.set("extra", t2.get("a") + 7)
    pair = [t2, td] if name.endswith("first") else [td, t2]
    if name.startswith("cat"):
        return torch.cat(pair, 0)
    if name.startswith("dense"):
        return LazyStackedTensorDict.maybe_dense_stack(pair, 0)
    return torch.stack(pair, 0)


for _n in ("stack_extra_later", "stack_extra_first", "cat_extra_later", "cat_extra_first", "stack_missing_later", "dense_stack_extra_later"):
    OPS[_n] = ((lambda td, _n=_n: _hetero(td, _n)), "*", False)


# ---------------------------------------------------------------- shape inference (infer_size_impl / _infer_size_impl)
@op("view_flat")
def _(td):
    return td.view(-1)


@op("reshape_m1_1")
def _(td):
    return td.reshape(-1, 1)


@op("view_last_m1")
def _(td):
    return td.view(td.batch_size[0], -1)


@op("unflatten0")
def _(td):
    return td.unflatten(0, (1, -1))


# ---------------------------------------------------------------- dimension names (names setter has a compile branch)
@op("names_set")
def _(td):
    td = td.clone(False); td.names = names_for(td.batch_dims, "m"); return td


@op("names_none")
def _(td):
    td = td.clone(False); td.names = None; return td


@op("refine_names")
def _(td):
    return td.refine_names(*names_for(td.batch_dims, "r"))


@op("rename_dims")
def _(td):
    return td.rename(*names_for(td.batch_dims, "q"))


@op("construct_names")
def _(td):
    return TensorDict({"a": td.get("a"), "c": td.get("a") + 2}, batch_size=td.batch_size, names=names_for(td.batch_dims, "k"))


# ---------------------------------------------------------------- lock_ / unlock_ (the `_lock_warn` path under compile)
@op("lock_set")
def _(td):
    td = td.clone(False).lock_()
    try:
        td.set("z", td.get("a") + 1)
    except RuntimeError:
        td = td.unlock_()
        td.set("z", -td.get("a"))
    return td


@op("lock_keep")
def _(td):
    return td.clone(False).lock_()


@op("lock_unlock")
def _(td):
    td = td.clone(False); td.lock_(); td.unlock_(); td.set("u", td.get("a") + 3); return td


@op("lock_inplace")
def _(td):
    td = td.clone().lock_(); td.set_("a", td.get("a") * 0 + 9); return td


@op("lock_ctx")
def _(td):
    td = td.clone(False)
    with td.lock_():
        v = td.get("a") + 1
    td.set("lc", v)
    return td


# ---------------------------------------------------------------- construction (`_parse_batch_size`, `_new_unsafe`)
@op("new_unsafe")
def _(td):
    return TensorDict._new_unsafe({"a": td.get("a"), "q": td.get("a") * 2}, batch_size=td.batch_size)


@op("construct_size")
def _(td):
    return TensorDict({"a": td.get("a")}, batch_size=td.batch_size)


@op("construct_list")
def _(td):
    return TensorDict({"a": td.get("a")}, batch_size=list(td.batch_size[:1]))


@op("construct_tuple")
def _(td):
    return TensorDict({"a": td.get("a")}, batch_size=tuple(td.batch_size[:1]))


@op("construct_int")
def _(td):
    return TensorDict({"a": td.get("a")}, batch_size=td.batch_size[0])


@op("construct_int0")
def _(td):
    return TensorDict({"a": td.get("a")[:0]}, batch_size=0)


@op("construct_none")
def _(td):
    return TensorDict({"a": td.get("a")})


@op("construct_nested_dict")
def _(td):
    return TensorDict({"a": td.get("a"), "n": {"x": td.get("a") + 1, "y": {"z": td.get("a")}}}, batch_size=td.batch_size)


@op("construct_from_td")
def _(td):
    return TensorDict(td.select("a"), batch_size=td.batch_size[:1])


@op("empty_like")
def _(td):
    return td.empty().update({"e": td.get("a")})


# ---------------------------------------------------------------- nested keys with tuple spellings (unravel_key & co.)
@op("tuple_get_set")
def _(td):
    td = td.clone(False); td.set(("n", ("y",)), td.get((("n",), "x")) + 1); return td


@op("tuple_single")
def _(td):
    td = td.clone(False); td.set(("s",), td.get(("a",))); return td


@op("select_nested")
def _(td):
    return td.select(("n", "x"), "a")


@op("exclude_nested")
def _(td):
    return td.exclude(("n", "x"))


@op("pop_nested")
def _(td):
    td = td.clone(False); v = td.pop(("n", "x")); td.set("p", v); return td


@op("update_keys_to_update")
def _(td):
    td = td.clone(); td.update(td.apply(lambda x: x + 5), keys_to_update=[("n", "x"), "a"]); return td


@op("del_key")
def _(td):
    td = td.clone(False); td.del_("b"); return td


@op("get_default")
def _(td):
    td = td.clone(False); td.set("gd", td.get(("n", "nope"), td.get("a"))); return td


@op("contains")
def _(td):
    td = td.clone(False)
    td.set("has", td.get("a") * (1 if ("n", "x") in td.keys(True) else 0) + (10 if "zz" in td.keys() else 20))
    return td


@op("unflatten_keys")
def _(td):
    return td.flatten_keys(".").unflatten_keys(".")


@op("unflatten_keys_inplace")
def _(td):
    td = td.flatten_keys("."); td.unflatten_keys(".", inplace=True); return td


# ---------------------------------------------------------------- consolidate
@op("consolidate")
def _(td):
    return td.consolidate()


# ---------------------------------------------------------------- lazy stacks
@op("lazy_stack0")
def _(td):
    return LazyStackedTensorDict.lazy_stack([td, td.apply(lambda x: x + 1)], 0)


@op("lazy_stack_last")
def _(td):
    return LazyStackedTensorDict.lazy_stack([td, td * 2], -1)


@op("lazy_hetero")
def _(td):
    t2 = td.clone(False); t2.set("only2", t2.get("a"))
    return LazyStackedTensorDict.lazy_stack([td, t2], 0)


@op("contiguous")
def _(td):
    return td.contiguous()


@op("densify")
def _(td):
    return td.densify() if isinstance(td, LazyStackedTensorDict) else td.contiguous()


@op("to_tensordict")
def _(td):
    return td.to_tensordict()


# ---------------------------------------------------------------- tensorclass
@op("to_tc")
def _(td):
    return TC(a=td.get("a"), b=td.get("b"), n=td.get("n"), batch_size=td.batch_size)


@op("tc_from_td")
def _(td):
    return TC.from_tensordict(td.select("a", "b", "n")) if not isinstance(td, TC) else td


@op("tc_attr")
def _(td):
    if isinstance(td, TC):
        td = td.clone(); td.a = td.a + 1; return td
    td = td.clone(); td.set("a", td.get("a") + 1); return td


@op("tc_getattr_nested")
def _(td):
    if isinstance(td, TC):
        td = td.clone(False); td.n.set("g", td.a * 2); return td
    td = td.clone(False); td.get("n").set("g", td.get("a") * 2); return td


# ---------------------------------------------------------------- tensordict.nn (compile branches in common.py / sequence.py / utils.py)
@op("tdmodule")
def _(td):
    return MOD_M(td.clone(False))


@op("tdmodule_nested")
def _(td):
    return MOD_NEST(td.clone(False))


@op("tdmodule_overwrite")
def _(td):
    return MOD_A(td.clone(False))


@op("tdmodule_tuple_keys")
def _(td):
    return MOD_TUP(td.clone(False))


@op("tdmodule_out")
def _(td):
    return MOD_M(td, tensordict_out=td.empty())


@op("tdseq")
def _(td):
    return SEQ(td.clone(False))


@op("tdseq_selected")
def _(td):
    return SEQ_SEL(td.clone(False))


@op("skip_existing_false")
def _(td):
    with set_skip_existing(False):
        return MOD_A(td.clone(False))


@op("dispatch_kwargs")
def _(td):
    m = MOD_M(a=td.get("a"))
    td = td.clone(False); td.set("dk", m); return td


# ---------------------------------------------------------------- `.to(...)` spellings (`_parse_to` compile twin)
@op("to_dtype_pos")
def _(td):
    return td.to(torch.float64)


@op("to_dtype_kw")
def _(td):
    return td.to(dtype=torch.int32)


@op("to_tensor")
def _(td):
    return td.to(torch.zeros(1, dtype=torch.int16))


@op("to_dev_dtype_nb")
def _(td):
    return td.to("cpu", torch.float32, True)


@op("to_memory_format")
def _(td):
    return td.to(memory_format=torch.contiguous_format)


@op("float_int")
def _(td):
    return td.float().int()


# ---------------------------------------------------------------- ops used as context managers (`__exit__` write-back; compile branch in __exit__)
@op("ctx_unsqueeze")
def _(td):
    td = td.clone()
    with td.unsqueeze(0) as t:
        t.set("cu", t.get("a") + 1)
    return td


@op("ctx_transpose")
def _(td):
    td = td.clone()
    with td.transpose(0, 1) as t:
        t.set("ct", t.get("a") * 2)
    return td


@op("ctx_flatten_keys")
def _(td):
    td = td.clone()
    with td.flatten_keys(".") as t:
        t.set("cf.x", t.get("a") + 4)
    return td


@op("ctx_view")
def _(td):
    td = td.clone()
    with td.view(-1) as t:
        t.set("cv", t.get("a") - 1)
    return td


@op("ctx_unlock")
def _(td):
    td = td.clone().lock_()
    with td.unlock_() as t:
        t.set("cul", t.get("a") + 2)
    return td


@op("ctx_permute")
def _(td):
    td = td.clone()
    with td.permute(*tuple(range(td.batch_dims))[::-1]) as t:
        t.set("cp", t.get("a") + 6)
    return td


# ---------------------------------------------------------------- in-place / value ops
@op("apply_inplace")
def _(td):
    td = td.clone(); td.apply_(lambda x: x + 2); return td


@op("update_inplace")
def _(td):
    td = td.clone(); td.update_(td.apply(lambda x: x * 3)); return td


@op("set_inplace")
def _(td):
    td = td.clone(); td.set_("a", td.get("a") * 0 + 5); return td


@op("fill_key")
def _(td):
    td = td.clone(); td.fill_("a", 7); return td


@op("zero_")
def _(td):
    td = td.clone(); td.zero_(); return td


@op("masked_fill")
def _(td):
    mask = td.get("a") > 1
    return td.masked_fill(mask, 0)


@op("where_td")
def _(td):
    return td.where(td.get("a") > 1, td * 10)


@op("torch_where")
def _(td):
    return torch.where(td.get("a") > 1, td, td + 100)


@op("zeros_like")
def _(td):
    return torch.zeros_like(td)


@op("ones_like_add")
def _(td):
    return torch.ones_like(td) + td


@op("full_like")
def _(td):
    return torch.full_like(td, 3)


@op("new_zeros")
def _(td):
    return td.new_zeros(2, 2)


@op("empty_set")
def _(td):
    e = td.empty(); e.set("only", td.get("a")); return e


@op("gather0")
def _(td):
    idx = torch.zeros(td.batch_size, dtype=torch.int64)
    return td.gather(0, idx)


@op("repeat_interleave")
def _(td):
    return td.repeat_interleave(2, dim=0)


@op("repeat")
def _(td):
    return td.repeat(2, *([1] * (td.batch_dims - 1)))


@op("split_list")
def _(td):
    return td.split([1, td.batch_size[0] - 1], 0)[-1]


@op("squeeze0")
def _(td):
    return td.squeeze(0)


@op("unsqueeze_neg2")
def _(td):
    return td.unsqueeze(-2)


@op("batch_size_set")
def _(td):
    td = td.clone(False); td.batch_size = td.batch_size[:1]; return td


@op("auto_batch_size")
def _(td):
    td = td.clone(False); td.batch_size = []; td.auto_batch_size_(); return td


@op("eq_td")
def _(td):
    return td == td.apply(lambda x: x * (x % 2))


@op("lt_scalar")
def _(td):
    return td < 3


@op("all_any")
def _(td):
    t2 = td.clone(False)
    t2.set("all", td.get("a") * (1 if (td > -1).all() else 0) + (10 if (td > 2).any() else 20))
    return t2


@op("cumsum0")
def _(td):
    return td.apply(lambda x: x.cumsum(0))


@op("clamp")
def _(td):
    return td.clamp(1, 4)


@op("max0")
def _(td):
    return td.max(0).values if hasattr(td.max(0), "values") else td.max(0)


@op("mean_float")
def _(td):
    return td.float().mean(0)


@op("prod_last")
def _(td):
    return td.prod(-1)


@op("detach_grad")
def _(td):
    return td.float().requires_grad_().detach()


# ---------------------------------------------------------------- non-tensor data (`_is_non_tensor`, `_pass_through_cls` memo off under compile)
@op("set_nontensor")
def _(td):
    td = td.clone(False); td.set("label", "a string"); return td


@op("nontensor_stack")
def _(td):
    t1 = td.clone(False); t1.set("label", "x")
    t2 = td.clone(False); t2.set("label", "y")
    return torch.stack([t1, t2], 0)


@op("nontensor_same_stack")
def _(td):
    t1 = td.clone(False); t1.set("label", "same")
    return torch.stack([t1, t1.clone(False)], 0)


# ---------------------------------------------------------------- legacy switches (`_ContextManager.get_mode/set_mode`)
@op("lazy_legacy_stack")
def _(td):
    from tensordict.utils import set_lazy_legacy
    with set_lazy_legacy(True):
        return torch.stack([td, td + 1], 0)


@op("stack_out")
def _(td):
    out = torch.stack([td, td], 0).clone()
    torch.stack([td * 2, td * 3], 0, out=out)
    return out


@op("cat_last")
def _(td):
    return torch.cat([td, td * 2], -1)


# ---------------------------------------------------------------- functional module call (`_to_module` has an is_dynamo path)
@op("to_module")
def _(td):
    with PARAMS.to_module(LINEAR):
        y = LINEAR(td.get("a").reshape(-1, 1).float())
    td = td.clone(False); td.set("lin", y.reshape(td.batch_size).round().long()); return td


@op("prob_module")
def _(td):
    t = td.clone(False)
    t.set("loc", t.get("a").float()); t.set("scale", t.get("a").float() * 0 + 1)
    out = PROB(t)
    out.set("sample", out.get("sample").round().long())
    return out.exclude("loc", "scale")


# ---------------------------------------------------------------- more index spellings (`_getitem_batch_size` has a compile branch for slices)
def _mk_index_ops():
    specs = {
        "idx_none_first": lambda td: td[None],
        "idx_ell_none": lambda td: td[..., None],
        "idx_col0": lambda td: td[:, 0],
        "idx_0_ell": lambda td: td[0, ...],
        "idx_neg_step_like": lambda td: td[::1],
        "idx_slice_neg": lambda td: td[-2:-1],
        "idx_slice_big": lambda td: td[1:100],
        "idx_slice_step3": lambda td: td[::3],
        "idx_slice_none_stop": lambda td: td[:None],
        "idx_two_slices": lambda td: td[:1, 1:],
        "idx_int_slice": lambda td: td[0, :1],
        "idx_tensor": lambda td: td[torch.tensor([1, 0])],
        "idx_tensor_col": lambda td: td[:, torch.tensor([0])],
        "idx_range": lambda td: td[range(2)],
        "idx_bool_mask": lambda td: td[torch.tensor([True] + [False] * (td.batch_size[0] - 1))],
        "idx_tuple_lists": lambda td: td[[0, 1], [0, 0]],
        "idx_str": lambda td: td.select("a").update({"s": td["n", "x"] + td["a"]}),
        "idx_nested_td": lambda td: td["n"],
    }
    for name, f in specs.items():
        OPS[name] = (f, "*", False)


_mk_index_ops()


@op("setitem_col")
def _(td):
    td = td.clone(); td[:, 0] = td[:, -1]; return td


@op("setitem_ell")
def _(td):
    td = td.clone(); td[..., 0] = td[..., -1]; return td


@op("setitem_slice")
def _(td):
    td = td.clone(); td[:1] = td[-1:]; return td


@op("setitem_tensor_idx")
def _(td):
    td = td.clone(); td[torch.tensor([0])] = td[torch.tensor([td.batch_size[0] - 1])]; return td


@op("setitem_str")
def _(td):
    td = td.clone(False); td["q"] = td["a"] * 2; td["n", "w"] = td["a"]; return td


@op("setitem_scalar")
def _(td):
    td = td.clone(); td[0] = 0; return td


@op("set_at_get_at")
def _(td):
    td = td.clone(); td.set_at_("a", td.get_at("a", -1), 0); return td


# ---------------------------------------------------------------- more key / structure ops
@op("rename_nested")
def _(td):
    td = td.clone(False); td.rename_key_(("n", "x"), ("n", "z")); return td


@op("setdefault")
def _(td):
    td = td.clone(False); td.setdefault("sd", td.get("a") + 9); td.setdefault("a", td.get("a") * 0); return td


@op("update_nested_dict")
def _(td):
    td = td.clone(False); td.update({"n": {"u": td.get("a")}, "v": td.get("a") + 1}); return td


@op("named_apply_nested")
def _(td):
    return td.named_apply(lambda k, x: x + (len(k) if isinstance(k, tuple) else 10), nested_keys=True)


@op("apply_out")
def _(td):
    out = td.clone()
    td.apply(lambda x: x + 3, out=out)
    return out


@op("apply_filter")
def _(td):
    return td.apply(lambda x: x * 2 if x.ndim == td.batch_dims else None, filter_empty=True)


@op("from_dict")
def _(td):
    return TensorDict.from_dict({"a": td.get("a"), "n": {"x": td.get("a") + 1}}, batch_size=td.batch_size)


@op("from_dict_auto")
def _(td):
    return TensorDict.from_dict({"a": td.get("a"), "n": {"x": td.get("a") + 1}}, auto_batch_size=True)


@op("sorted_keys")
def _(td):
    td = td.clone(False); td.set("0first", td.get("a")); return td.select(*td.sorted_keys)


@op("from_module")
def _(td):
    p = TensorDict.from_module(LINEAR)
    td = td.clone(False); td.set("w", td.get("a") + p.get("weight").detach().round().long().reshape(())); return td


@op("functional_call")
def _(td):
    y = torch.func.functional_call(LINEAR, PARAMS.to_dict(), td.get("a").reshape(-1, 1).float())
    td = td.clone(False); td.set("fc", y.reshape(td.batch_size).detach().round().long()); return td


@op("tdmodule_wrapper")
def _(td):
    return WRAPPED(td.clone(False))


@op("flatten_named")
def _(td):
    return td.flatten(0, td.batch_dims - 1)


@op("unflatten_named")
def _(td):
    return td.unflatten(0, (td.batch_size[0], 1))


@op("transpose_neg")
def _(td):
    return td.transpose(-1, 0)


# ---------------------------------------------------------------- terminal ops (plain python out)
@op("to_dict", terminal=True)
def _(td):
    return td.to_dict()


@op("keys_list", terminal=True)
def _(td):
    return sorted(str(k) for k in td.keys(True, True))


@op("items_sum", terminal=True)
def _(td):
    return [(str(k), v.sum()) for k, v in td.items(True, True)]


@op("shape_info", terminal=True)
def _(td):
    return [tuple(td.batch_size), td.batch_dims, td.numel(), td.is_locked, td.names]


ROUND1 = ["set_sum", "mul2", "add_td", "abs", "neg", "reshape_flat", "unsqueeze0", "unsqueeze_last", "permute_rev", "transpose01",
          "flatten01", "squeeze", "idx0", "idx_head", "idx_empty", "idx_tail", "idx_step", "idx_ell0", "idx_neg", "idx_list",
          "sum0", "stack0", "cat0", "stack_last", "select_a", "exclude_b", "apply_inc", "named_apply", "clone", "expand2", "unbind0",
          "split1", "chunk2", "getset_nested", "update_new", "rename", "setitem_idx", "where_self", "apply_two", "flatten_keys"]
HETERO = ["stack_extra_later", "stack_extra_first", "cat_extra_later", "cat_extra_first", "stack_missing_later", "dense_stack_extra_later"]
ROUND2 = [n for n in OPS if n not in ROUND1 and n not in HETERO and not OPS[n][2]]
TERMINAL = [n for n in OPS if OPS[n][2]]


def base_td(shape):
    n = 1
    for s in shape:
        n *= s
    a = torch.arange(n).reshape(shape)
    return TensorDict({"a": a.clone(), "b": (a * 10).unsqueeze(-1).expand(*shape, 2).clone(),
                       "n": TensorDict({"x": a + 100}, batch_size=shape)}, batch_size=shape)


def make_input(shape, kind="td"):
    td = base_td(shape)
    if kind == "td":
        return td
    if kind == "named":
        td.names = names_for(len(shape))
        return td
    if kind == "lazy":
        return LazyStackedTensorDict.lazy_stack([base_td(shape[1:]) + i * 1000 for i in range(shape[0])], 0)
    if kind == "tc":
        return TC(a=td.get("a"), b=td.get("b"), n=td.get("n"), batch_size=shape)
    if kind == "tdp":
        # TensorDictParams (float leaves become nn.Parameters; `_new_unsafe` has a compile branch)
        from tensordict.nn import TensorDictParams
        return TensorDictParams(td.float())
    raise KeyError(kind)


def run_program(td, ops):
    for name in ops:
        td = OPS[name][0](td)
    return td
