"""retest_seeded.py: apply every seeded change to /repo in turn, run the owning check (quick, seed 0), undo the change;
writes /verif/seeded/RESULTS.json {id: {applies, exit, verdict, failing_input, demo_clean, demo_patched}}"""
import json, subprocess, sys
from pathlib import Path
V = Path('/verif'); out = {}
def sh(cmd, **kw):
    return subprocess.run(cmd, shell=True, capture_output=True, text=True, **kw)
if sh('git -C /repo diff --quiet').returncode != 0:
    sys.exit('/repo has local changes')
only = sys.argv[1:] 
for d in sorted((V / 'seeded').glob('C*-*')):
    mid = d.name; prop = mid.split('-')[0]
    if only and mid not in only and prop not in only:
        continue
    r = {}
    c = sh(f'timeout 900 /venv/bin/python {d}/demo.py', cwd='/tmp'); r['demo_clean'] = c.returncode
    a = sh(f'git -C /repo apply {d}/patch.diff')
    r['applies'] = a.returncode == 0
    if r['applies']:
        p = sh(f'timeout 900 /venv/bin/python {d}/demo.py', cwd='/tmp'); r['demo_patched'] = p.returncode
        k = sh(f'cd /verif && timeout 1500 ./check {prop} --tier quick --seed 0')
        r['exit'] = k.returncode
        line = [l for l in k.stdout.splitlines() if l.startswith(('VIOLATION', 'OK', 'INFRA'))]
        r['verdict'] = line[-1][:160] if line else (k.stderr[-160:] if k.stderr else '')
        r['failing_input'] = (k.returncode == 1 and 'no-failing-input-found' not in (line[-1] if line else ''))
        sh('git -C /repo checkout -- .')
        sh(f'git -C /verif checkout -- evidence/{prop}.json lean/TdVerif/Gen')  # evidence must come from runs on the unchanged tree
    out[mid] = r
    print(mid, r.get('applies'), r.get('exit'), 'failing-input' if r.get('failing_input') else '', flush=True)
    prev = json.loads((V / 'seeded/RESULTS.json').read_text()) if (V / 'seeded/RESULTS.json').exists() else {}
    prev.update(out); (V / 'seeded/RESULTS.json').write_text(json.dumps(prev, indent=1))
