"""C06 monitor: observe every memoised read of the real library from outside (no hook in the repository).

Every class attribute whose function is a `tensordict.utils.cache.newfun` closure (found by reflection over all
TensorDictBase subclasses) is replaced by a wrapper that
  1. predicts hit / miss exactly as `cache.newfun` does (`is_locked`, `_cache[fun.__name__]`, `_make_cache_key`),
  2. calls the real memoising wrapper,
  3. on a hit recomputes through `__wrapped__` and hands (method, self, args, kwargs, cached, fresh) to the
     registered callback; on a miss reports what was stored.
The comparison itself (`same_result`) is structural: key paths, identity of leaves, recursively for
tensordict-valued results.
"""
from __future__ import annotations

import functools

import torch

_INSTALLED = []
CALLBACK = None          # fn(event: dict) -> None
ENABLED = True
_DEPTH = 0
_MISSING = object()


def _is_cache_newfun(f):
    return callable(f) and getattr(f, "__name__", None) and hasattr(f, "__wrapped__") and \
        getattr(getattr(f, "__code__", None), "co_name", "") == "newfun" and \
        getattr(f, "__code__").co_filename.endswith("utils.py")


def all_classes():
    from tensordict.base import TensorDictBase
    seen, todo = [], [TensorDictBase]
    while todo:
        c = todo.pop()
        if c in seen:
            continue
        seen.append(c)
        todo += c.__subclasses__()
    return seen


def cached_attributes():
    """[(class, attribute name, kind, newfun)] ; kind = "method" | the original property object"""
    import tensordict.nn  # noqa: F401  (TensorDictParams)
    out = []
    for c in all_classes():
        for name, v in list(vars(c).items()):
            if isinstance(v, property) and _is_cache_newfun(v.fget):
                out.append((c, name, v, v.fget))          # keep the property object: its setter / deleter stay in place
            elif _is_cache_newfun(v):
                out.append((c, name, "method", v))
    return out


def install(callback):
    global CALLBACK
    CALLBACK = callback
    if _INSTALLED:
        return len(_INSTALLED)
    from tensordict.utils import _make_cache_key, is_compiling
    for c, name, kind, newfun in cached_attributes():
        fun = newfun.__wrapped__

        def make(newfun=newfun, fun=fun, owner=c, attr=name):
            @functools.wraps(fun)
            def monitored(_self, *args, **kwargs):
                global _DEPTH
                if not ENABLED or CALLBACK is None:
                    return newfun(_self, *args, **kwargs)
                active = bool(_self.is_locked) and not is_compiling()
                # a hit = an entry existed under the key and the wrapper handed out that very object
                # (decided behaviourally, so that the monitor does not depend on how the guard of `cache.newfun` is written)
                before = _MISSING
                if active:
                    cache = _self._cache
                    if cache is not None and fun.__name__ in cache:
                        before = cache[fun.__name__].get(_make_cache_key(args, kwargs), _MISSING)
                _DEPTH += 1
                try:
                    out = newfun(_self, *args, **kwargs)
                finally:
                    _DEPTH -= 1
                hit = before is not _MISSING and out is before
                stored = False
                if active and not hit:
                    cache = _self._cache
                    if cache is not None and fun.__name__ in cache:
                        stored = cache[fun.__name__].get(_make_cache_key(args, kwargs), _MISSING) is out
                if _DEPTH == 0:
                    _DEPTH += 1
                    try:
                        ev = {"method": fun.__name__, "owner": owner.__name__, "self": _self, "args": args, "kwargs": kwargs,
                              "hit": hit, "stored": stored, "active": active, "out": out}
                        if hit:
                            ev["fresh"] = fun(_self, *args, **kwargs)
                        CALLBACK(ev)
                    finally:
                        _DEPTH -= 1
                return out
            return monitored
        m = make()
        setattr(c, name, property(m, kind.fset, kind.fdel, kind.__doc__) if isinstance(kind, property) else m)
        _INSTALLED.append((c, name, kind, newfun))
    return len(_INSTALLED)


def uninstall():
    global CALLBACK
    for c, name, kind, newfun in _INSTALLED:
        setattr(c, name, kind if isinstance(kind, property) else newfun)
    _INSTALLED.clear()
    CALLBACK = None


# --------------------------------------------------------------------------- structural comparison
def stored_ids(root, depth=0, acc=None):
    """identities of every object bound somewhere in the tree of `root` (walked through private storage)"""
    from tensordict import LazyStackedTensorDict, TensorDict
    from tensordict.base import _is_tensor_collection
    if acc is None:
        acc = set()
    if depth > 8:
        return acc
    d = getattr(root, "__dict__", {})
    if isinstance(root, LazyStackedTensorDict):
        for m in root.tensordicts:
            acc.add(id(m))
            stored_ids(m, depth + 1, acc)
    elif isinstance(root, TensorDict):
        for v in root._tensordict.values():
            acc.add(id(v))
            if _is_tensor_collection(type(v)):
                stored_ids(v, depth + 1, acc)
    elif "_tensordict" in d:
        stored_ids(d["_tensordict"], depth + 1, acc)
    elif "_source" in d:
        stored_ids(d["_source"], depth + 1, acc)
    elif "_param_td" in d:
        stored_ids(d["_param_td"], depth + 1, acc)
    return acc


def canon(x, stored=frozenset(), depth=0):
    """canonical, comparable rendering of a read result.  An object that is bound in the subject's tree is rendered
    by identity (reads return the stored leaves themselves); anything rebuilt by the read is rendered by content."""
    from tensordict.base import _is_tensor_collection
    if depth > 8:
        return "deep"
    if id(x) in stored:
        return ("stored", id(x))
    if isinstance(x, torch.Tensor):
        try:
            from torch._C._functorch import get_unwrapped, is_batchedtensor, maybe_get_bdim, maybe_get_level
            if is_batchedtensor(x):      # the memo of torch.vmap (`_add_batch_dim`): a wrapper around the leaf
                return ("B", maybe_get_level(x), maybe_get_bdim(x), canon(get_unwrapped(x), stored, depth + 1))
        except ImportError:  # pragma: no cover
            pass
        try:
            return ("T", tuple(x.shape), str(x.dtype), x.detach().flatten().tolist() if x.numel() <= 64 else float(x.detach().double().sum()))
        except Exception as e:  # noqa
            return ("T?", tuple(x.shape), str(x.dtype), type(e).__name__)
    if _is_tensor_collection(type(x)):
        from tensordict.utils import is_non_tensor
        if is_non_tensor(x):
            # a non-tensor entry that the read rebuilt (detach, batched views, …): by payload -- an indexed write into an entry that is
            # a stack already changes the payloads of the members in place
            try:
                return ("NT", type(x).__name__, tuple(x.batch_size), repr(x.tolist())[:200])
            except Exception as e:  # noqa
                return ("NT", type(x).__name__, "<error>", type(e).__name__)
        items = []
        try:
            for k in x.keys():
                v = x._get_str(k, None) if hasattr(x, "_get_str") else x.get(k)
                items.append((k, canon(v, stored, depth + 1)))
        except Exception as e:  # noqa
            items.append(("<error>", type(e).__name__))
        nt = getattr(x, "__dict__", {}).get("_non_tensordict")
        if nt:
            items += [(k, ("V", repr(v)[:60])) for k, v in nt.items()]
        try:
            names = tuple(x.names)      # dimension names are part of what a read returns (detach, batched views, lazy `.names`)
        except Exception as e:  # noqa
            names = ("<error>", type(e).__name__)
        try:
            device = str(x.device)
        except Exception as e:  # noqa
            device = "<error>" + type(e).__name__
        return ("C", type(x).__name__, tuple(x.batch_size), names, device, tuple(sorted(items, key=lambda e: str(e[0]))))
    if isinstance(x, (list, tuple)):
        return (type(x).__name__, tuple(canon(v, stored, depth + 1) for v in x))
    if isinstance(x, dict):
        return ("dict", tuple(sorted(((str(k), canon(v, stored, depth + 1)) for k, v in x.items()))))
    if isinstance(x, (str, int, float, bool, type(None), torch.dtype, torch.Size, torch.device)):
        return ("v", repr(x))
    if hasattr(x, "__iter__") and hasattr(x, "__len__"):
        try:
            return (type(x).__name__, tuple(canon(v, stored, depth + 1) for v in x))
        except Exception:  # noqa
            pass
    return ("o", type(x).__name__)


def same_result(subject, cached, fresh) -> tuple[bool, str]:
    """is the cached value observationally what a fresh computation returns?"""
    st = stored_ids(subject)
    a, b = canon(cached, st), canon(fresh, st)
    if a == b:
        return True, ""
    return False, _diff(a, b)


def _diff(a, b, path="") -> str:
    """the first place where two canonical renderings differ (so that the message names the entry, not the whole tree)"""
    if type(a) is type(b) and isinstance(a, tuple) and len(a) == len(b):
        for i, (x, y) in enumerate(zip(a, b)):
            if x != y:
                tag = x[0] if isinstance(x, tuple) and x and isinstance(x[0], str) and len(x) == 2 and isinstance(a[0], tuple) else i
                return _diff(x, y, f"{path}/{tag}")
    return f"at {path or '/'}: cached={str(a)[:200]} fresh={str(b)[:200]}"
