"""C11/C10: canonical, order-insensitive, bit-exact description of a tensor collection."""
from __future__ import annotations

import torch


def bits(x: torch.Tensor):
    """bytes of a tensor in logical (row-major) order"""
    if x.numel() == 0:
        return []
    x = x.detach()
    if x.is_nested:
        return ["njt"] + [bits(t) for t in x.unbind(0)]
    if x.dtype == torch.bool:
        x = x.to(torch.uint8)
    return x.contiguous().reshape(-1).view(torch.uint8).tolist()


def canon(x, lock=True, names=True, device=True):
    from tensordict import LazyStackedTensorDict, NonTensorData, NonTensorStack, TensorDictBase, is_tensorclass
    if isinstance(x, torch.Tensor):
        if x.is_nested:
            return ["NJT", str(x.dtype), [list(t.shape) for t in x.unbind(0)], bits(x)]
        return ["T", str(x.dtype), list(x.shape), str(x.device) if device else None, bits(x)]
    if isinstance(x, NonTensorStack):
        return ["NTS", repr(x.tolist()), list(x.batch_size)]
    if isinstance(x, NonTensorData):
        return ["NT", repr(x.data), list(x.batch_size), (None if x.device is None else str(x.device)) if device else None]
    if is_tensorclass(x):
        return ["TC", type(x).__name__, canon(x._tensordict, lock, names, device)]
    if isinstance(x, LazyStackedTensorDict):
        return ["LS", x.stack_dim, list(x.batch_size), x.is_locked if lock else None, [canon(t, lock, names, device) for t in x.tensordicts],
                (list(x.names) if x._has_names() else None) if names else None]
    if isinstance(x, TensorDictBase):
        return ["TD", type(x).__name__, list(x.batch_size), (list(x.names) if x._has_names() else None) if names else None,
                str(x.device) if device else None, x.is_locked if lock else None,
                sorted(([k, canon(v, lock, names, device)] for k, v in x.items()), key=lambda kv: kv[0])]
    return ["PY", repr(x)]


def first_diff(a, b, path="root"):
    if type(a) is not type(b):
        return f"{path}: {a!r:.120} != {b!r:.120}"
    if isinstance(a, list):
        if len(a) != len(b):
            return f"{path}: len {len(a)} != {len(b)}: {a!r:.160} != {b!r:.160}"
        for i, (x, y) in enumerate(zip(a, b)):
            d = first_diff(x, y, f"{path}[{i}]")
            if d:
                return d
        return None
    return None if a == b else f"{path}: {a!r:.100} != {b!r:.100}"


def echo_canon(x, opts):
    """run in a worker process: the canonical form of what arrived after crossing the process boundary"""
    return canon(x, **opts)


def lock_behaviour(x):
    """what a (sub-)tensordict that reports is_locked does when it is asked to change: a sub-tensordict of a locked tensordict cannot be
    unlocked on its own, and no entry can be added under a locked root — on the original and on every copy of it alike.
    Returns the list of probes that were *accepted* (empty = behaves locked). Probes that succeed are undone."""
    import torch
    from tensordict import LazyStackedTensorDict, TensorDictBase, is_tensorclass
    accepted = []
    root = x._tensordict if is_tensorclass(x) else x
    if not isinstance(root, TensorDictBase) or not root.is_locked:
        return accepted
    subs = list(root.tensordicts) if isinstance(root, LazyStackedTensorDict) else \
        [v for v in root.values() if isinstance(v, TensorDictBase) or (is_tensorclass(v) and hasattr(v, "_tensordict") and not getattr(v, "_is_non_tensor", False))]
    for sub in subs[:2]:
        sub_td = sub._tensordict if is_tensorclass(sub) else sub
        # (a refused unlock_ costs a full garbage collection and two reprs inside the library — 0.2 s a call: when the lock graph plainly
        #  holds a live locked parent, which is what makes unlock_ refuse, the call itself is skipped)
        refs = getattr(sub_td, "_lock_parents_weakrefs", None)
        held = refs is not None and any(getattr(r(), "_is_locked", False) for r in refs if r() is not None)
        if not held:
            try:
                sub_td.unlock_()
                accepted.append("sub-tensordict.unlock_()")
                root.lock_()
            except RuntimeError:
                pass
        try:
            sub_td.set("zz_probe", torch.zeros(sub_td.batch_size))
            accepted.append("sub-tensordict.set(new key)")
            was = sub_td.is_locked
            if was:
                sub_td.unlock_()
            sub_td.del_("zz_probe")
            root.lock_()
        except (RuntimeError, KeyError, ValueError):
            pass
    if not isinstance(root, LazyStackedTensorDict):
        try:
            root.set("zz_probe", torch.zeros(root.batch_size))
            accepted.append("root.set(new key)")
            root.unlock_()
            root.del_("zz_probe")
            root.lock_()
        except (RuntimeError, KeyError, ValueError):
            pass
    return accepted
