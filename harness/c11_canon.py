"""C11/C10: canonical, order-insensitive, bit-exact description of a tensor collection."""
from __future__ import annotations

import torch


def bits(x: torch.Tensor):
    """bytes of a tensor in logical (row-major) order"""
    if x.numel() == 0:
        return []
    x = x.detach()
    if x.is_nested:
        return ["njt"] + [bits(t) for t in x.unbind(0)]
    if x.dtype == torch.bool:
        x = x.to(torch.uint8)
    return x.contiguous().reshape(-1).view(torch.uint8).tolist()


def canon(x, lock=True, names=True, device=True):
    from tensordict import LazyStackedTensorDict, NonTensorData, NonTensorStack, TensorDictBase, is_tensorclass
    if isinstance(x, torch.Tensor):
        if x.is_nested:
            return ["NJT", str(x.dtype), [list(t.shape) for t in x.unbind(0)], bits(x)]
        return ["T", str(x.dtype), list(x.shape), str(x.device) if device else None, bits(x)]
    if isinstance(x, NonTensorStack):
        return ["NTS", repr(x.tolist()), list(x.batch_size)]
    if isinstance(x, NonTensorData):
        return ["NT", repr(x.data), list(x.batch_size), (None if x.device is None else str(x.device)) if device else None]
    if is_tensorclass(x):
        return ["TC", type(x).__name__, canon(x._tensordict, lock, names, device)]
    if isinstance(x, LazyStackedTensorDict):
        return ["LS", x.stack_dim, list(x.batch_size), x.is_locked if lock else None, [canon(t, lock, names, device) for t in x.tensordicts],
                (list(x.names) if x._has_names() else None) if names else None]
    if isinstance(x, TensorDictBase):
        return ["TD", type(x).__name__, list(x.batch_size), (list(x.names) if x._has_names() else None) if names else None,
                str(x.device) if device else None, x.is_locked if lock else None,
                sorted(([k, canon(v, lock, names, device)] for k, v in x.items()), key=lambda kv: kv[0])]
    return ["PY", repr(x)]


def first_diff(a, b, path="root"):
    if type(a) is not type(b):
        return f"{path}: {a!r:.120} != {b!r:.120}"
    if isinstance(a, list):
        if len(a) != len(b):
            return f"{path}: len {len(a)} != {len(b)}: {a!r:.160} != {b!r:.160}"
        for i, (x, y) in enumerate(zip(a, b)):
            d = first_diff(x, y, f"{path}[{i}]")
            if d:
                return d
        return None
    return None if a == b else f"{path}: {a!r:.100} != {b!r:.100}"


def echo_canon(x, opts):
    """run in a worker process: the canonical form of what arrived after crossing the process boundary"""
    return canon(x, **opts)
