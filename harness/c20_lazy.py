"""C20: lazy stacks in the modelled domain (Model/C20Apply.applyLazy) + oracle cases for operands stacked along another dim,
sub-tensordict write-back with call_on_nested, and validation of pass-through entries."""
from __future__ import annotations

import itertools
import warnings

import torch

import c20_lib as L
from common import Infra, err_class, parse_sx, time_limit

warnings.filterwarnings("ignore")


def _tensors(struct, ids_of, inner, n, d):
    """dense nested dict of tensors: leaf = stack over members i of full(inner, ids_of(i)[path]) along d"""
    out = {}

    def walk(s, pre, dst):
        for k, v in s.items():
            if isinstance(v, dict):
                dst[k] = {}
                walk(v, pre + (k,), dst[k])
            else:
                dst[k] = torch.stack([torch.full(inner, ids_of(i)[pre + (k,)], dtype=torch.int64) for i in range(n)], d)
    walk(struct, (), out)
    return out


def _td_from(d, batch):
    from tensordict import TensorDict
    td = TensorDict({}, batch_size=list(batch))
    for k, v in d.items():
        td[k] = _td_from(v, batch) if isinstance(v, dict) else v
    return td


def _flat_ids(struct, start):
    """{path: id} for a structure, ids counted from start in the structure's own order"""
    out, c = {}, itertools.count(start)

    def walk(s, pre):
        for k, v in s.items():
            if isinstance(v, dict):
                walk(v, pre + (k,))
            else:
                out[pre + (k,)] = next(c)
    walk(struct, ())
    return out


def _with_ids(struct, ids):
    def walk(s, pre):
        return {k: (walk(v, pre + (k,)) if isinstance(v, dict) else ids[pre + (k,)]) for k, v in s.items()}
    return walk(struct, ())


def run_lazy_lattice(run, drv, rng, npoints):
    from tensordict import LazyStackedTensorDict, TensorDict, lazy_stack
    for it in range(npoints):
        n, inner = 2, (2,)
        d = rng.choice([0, 1])
        s = L.gen_struct(rng, 0, itertools.count(1), allow_empty=False)
        if not L.flat_ids(s):
            continue
        mem_ids = [_flat_ids(s, 100 * i + 1) for i in range(n)]
        members = [L.build(_with_ids(L.permute(rng, s), mem_ids[i]), inner) for i in range(n)]
        lz = lazy_stack(members, d)
        nothers = rng.choice([0, 1, 1, 2])
        others, others_model, omodes = [], [[] for _ in range(n)], []
        default = rng.random() < 0.5
        for j in range(nothers):
            mode = rng.choice(["perm", "perm", "missing", "extra"]) if default else rng.choice(["perm", "perm", "extra"])
            o = L.derive_other(rng, s, itertools.count(1), mode)
            o_ids = [_flat_ids(o, 1000 * (j + 1) + 100 * i + 1) for i in range(n)]
            dense = _td_from(_tensors(o, lambda i: o_ids[i], inner, n, d), (2, 2))
            okind = rng.choice(["dense", "lazy_same", "lazy_other"])
            if okind == "dense":
                oth = dense
            else:
                dd = d if okind == "lazy_same" else 1 - d
                oth = lazy_stack([m.clone() for m in dense.unbind(dd)], dd)
            others.append(oth)
            omodes.append(f"{okind}:{mode}")
            for i in range(n):
                others_model[i].append(L.canon(L.build(_with_ids(o, o_ids[i]), inner)))
        front, named, nested_keys, nthreads = rng.choice([("apply", False, False, 0), ("named_apply", True, False, 0), ("named_apply", True, True, 0),
                                                         ("fast", False, False, 0), ("fast", True, True, 0), ("fast", False, False, 2), ("fast", True, True, 2)])
        target = rng.choice(["new", "new", "inplace", "out"])
        fe = rng.choice([None, True, False])
        all_ids = [v for ids in mem_ids for v in ids.values()]
        drop = [i for i in all_ids if rng.random() < 0.3]
        out_lz = None
        if target == "out":
            out_lz = lazy_stack([TensorDict({}, batch_size=list(inner)) for _ in range(n)], d)
        case = {"front": front, "named": named, "nested_keys": nested_keys, "num_threads": nthreads, "target": target, "default": default,
                "filter_empty": fe, "stack_dim": d, "self": s, "others": omodes, "drop": drop}
        run.case(("lazy_lattice", front, named, nested_keys, nthreads, target, default, str(fe), d, str(s), str(omodes), str(drop)), nontrivial=True)
        run.count("lazy_lattice.others", "+".join(omodes) or "none")
        run.count("lazy_lattice.target", target)
        run.count("lazy_lattice.front", f"{front}:t{nthreads}")
        o_sx = ["o", target == "inplace", default, fe, False, named, nested_keys, None, "nodef", "nodef", front == "fast", False, False]
        outs_c = [L.canon(m) for m in out_lz.tensordicts] if out_lz is not None else "none"
        req = L.to_sx(["c20.lazy_apply", o_sx, drop, [], [L.canon(m) for m in lz.tensordicts], others_model, outs_c])
        model = L.norm(parse_sx(drv.ask(req)))
        rec = L.Recorder(drop, named)
        kw = dict(inplace=target == "inplace", filter_empty=fe)
        if default:
            kw["default"] = None
        if out_lz is not None:
            kw["out"] = out_lz
        try:
            with time_limit(240):
                if front == "apply":
                    res = lz.apply(rec, *others, **kw)
                elif front == "named_apply":
                    res = lz.named_apply(rec, *others, nested_keys=nested_keys, **kw)
                else:
                    res = lz._fast_apply(rec, *others, named=named, nested_keys=nested_keys, num_threads=nthreads, **kw)
            if res is None:
                impl = ["none"]
            elif isinstance(res, LazyStackedTensorDict):
                impl = ["ok"] + [L.norm(L.canon(m, rec)) for m in res.tensordicts]
            else:
                impl = ["not-a-lazy-stack", type(res).__name__]
        except TimeoutError as e:
            raise Infra(f"implementation call timed out: {e}")
        except Exception as e:  # noqa: BLE001
            impl = ["err", err_class(e)]
        run.corr("lazy_lattice", case, impl, model)


def run_validation_oracle(run, rng, n):
    """entries the function hands back untouched must be validated like any other written entry (device / batch size)"""
    from tensordict import TensorDict
    site = "apply"
    for it in range(n):
        batch = (2, 3)
        td = TensorDict({"a": torch.zeros(2, 3), "b": torch.ones(2, 3, 2), "n": {"c": torch.ones(2, 3), "d": torch.zeros(2, 3)}}, [2, 3])
        passthrough = set(rng.sample(["a", "b", "c", "d"], rng.randint(1, 4)))
        named = True

        def fn(key, x):
            return x if key in passthrough else x + 1
        mode = rng.choice(["device", "out_device", "batch_size"])
        front = rng.choice(["apply", "named_apply"])
        call = (lambda **kw: td.named_apply(fn, **kw)) if True else None
        case = {"front": "named_apply", "mode": mode, "untouched": sorted(passthrough)}
        run.case(("validation", mode, tuple(sorted(passthrough)), it))
        try:
            with time_limit(240):
                if mode == "device":
                    res = td.named_apply(fn, device="meta")
                elif mode == "out_device":
                    out = TensorDict({}, [2, 3], device="meta")
                    res = td.named_apply(fn, out=out, device="meta") if rng.random() < 0.5 else td.named_apply(fn, out=out)
                else:
                    res = td.named_apply(fn, batch_size=[5])
            err = None
        except TimeoutError as e:
            raise Infra(f"implementation call timed out: {e}")
        except Exception as e:  # noqa: BLE001
            res, err = None, e
        fp = f"validation:{mode}"
        if mode == "batch_size":
            # [5] does not describe leaves of shape [2, 3, ...]: apply (validated path) must raise
            run.oracle_ok(site) if err is not None else run.oracle_fail(
                site, case, "batch_size=[5] was accepted although no leaf has a leading dim of 5", fp + ":accepted")
            continue
        if err is not None:
            run.oracle_fail(site, case, f"raised {type(err).__name__}: {str(err)[:120]}", fp + ":raises")
            continue
        bad = [k for k, v in res.items(True, True) if v.device.type != "meta"]
        nodes_bad = res.device is None or res.device.type != "meta"
        if bad or nodes_bad:
            run.oracle_fail(site, case, f"result reports device {res.device} but the entries {bad[:4]} are on another device", fp + ":device")
        else:
            run.oracle_ok(site)


def run_subtd_writeback(run, rng, n):
    """in-place apply on a sub-tensordict with call_on_nested=True and a function returning a NEW container for a nested entry"""
    from tensordict import TensorDict
    site = "container"
    for it in range(n):
        base = rng.randint(1, 50)
        parent = TensorDict({"a": torch.arange(12.).reshape(4, 3) + base, "n": {"c": torch.arange(12.).reshape(4, 3) * 2 + base, "m": {"d": torch.ones(4, 3) * base}}}, [4, 3])
        before = parent.clone()
        idx = rng.choice([slice(0, 2), slice(1, 3), torch.tensor([0, 3])])
        sub = parent._get_sub_tensordict(idx)
        inc = rng.randint(1, 9)

        def fn(x):
            if isinstance(x, torch.Tensor):
                return x + inc
            return x.apply(lambda t: t + 100 * inc)       # a NEW container for the nested entry
        case = {"container": "sub_tensordict", "index": str(idx), "call_on_nested": True, "inplace": True}
        run.case(("subtd_writeback", str(idx), inc, it))
        run.count("container.kind", "sub_tensordict(call_on_nested, in place)")
        try:
            with time_limit(240):
                sub.apply_(fn, call_on_nested=True)
            err = None
        except TimeoutError as e:
            raise Infra(f"implementation call timed out: {e}")
        except Exception as e:  # noqa: BLE001
            err = e
        fp = "subtd:call_on_nested:inplace"
        if err is not None:
            run.oracle_fail(site, case, f"raised {type(err).__name__}: {str(err)[:150]}", fp + ":raises")
            continue
        mask = torch.zeros(4, dtype=torch.bool)
        mask[idx] = True
        ok = True
        for key, add in ((("a",), inc), (("n", "c"), 100 * inc), (("n", "m", "d"), 100 * inc)):
            k = key if len(key) > 1 else key[0]
            want = before.get(k).clone()
            want[mask] += add
            if not torch.equal(parent.get(k), want):
                ok = False
                bad = key
                break
        if not ok:
            run.oracle_fail(site, case, f"entry {bad} of the parent was not written through (or rows outside the index changed)", fp + ":values")
        else:
            run.oracle_ok(site)


def run_lazy_others_oracle(run, rng, n):
    """operands that are lazy stacks along ANOTHER dim (square batch), also for a lazy stack nested in a plain tensordict"""
    from tensordict import TensorDict, lazy_stack
    site = "container"
    for it in range(n):
        A = {"x": torch.arange(4.).reshape(2, 2) + rng.randint(0, 5), "deep": {"y": torch.arange(4.).reshape(2, 2) * 10}}
        B = {"x": torch.arange(4.).reshape(2, 2) * 100 + 7, "deep": {"y": torch.arange(4.).reshape(2, 2) * 1000 + 3}}
        d = rng.choice([0, 1])
        dense_a = TensorDict(A, [2, 2])
        dense_b = TensorDict(B, [2, 2])
        self_lz = lazy_stack([m.clone() for m in dense_a.unbind(d)], d)
        other = lazy_stack([m.clone() for m in dense_b.unbind(1 - d)], 1 - d)
        nested = rng.random() < 0.5
        variant = rng.choice(["apply", "named_apply", "out", "inplace", "fast2"])
        if nested:
            root = TensorDict({"w": torch.zeros(2, 2), "nest": {"stack": self_lz}}, [2, 2])
            oroot = TensorDict({"w": torch.ones(2, 2), "nest": {"stack": other}}, [2, 2])
            cont, oth, pre = root, oroot, ("nest", "stack")
        else:
            cont, oth, pre = self_lz, other, ()
        case = {"container": "lazy_stack" + ("(nested)" if nested else ""), "other": "lazy stack along the other dim", "variant": variant, "stack_dim": d}
        run.case(("lazy_other_dim", nested, variant, d, it))
        run.count("container.kind", "lazy vs lazy(other dim) " + variant)
        try:
            with time_limit(240):
                if variant == "apply":
                    res = cont.apply(lambda x, y: x + y, oth)
                elif variant == "named_apply":
                    res = cont.named_apply(lambda k, x, y: x + y, oth, nested_keys=True)
                elif variant == "out":
                    if nested:
                        res = cont.apply(lambda x, y: x + y, oth, out=TensorDict({}, [2, 2]))
                    else:
                        res = cont.apply(lambda x, y: x + y, oth, out=lazy_stack([TensorDict({}, [2]) for _ in range(2)], d))
                elif variant == "inplace":
                    cont.apply_(lambda x, y: x.add_(y), oth)
                    res = cont
                else:
                    res = cont._fast_apply(lambda x, y: x + y, oth, num_threads=2)
            err = None
        except TimeoutError as e:
            raise Infra(f"implementation call timed out: {e}")
        except Exception as e:  # noqa: BLE001
            res, err = None, e
        fp = f"lazy_other_dim:{'nested' if nested else 'root'}:{variant}"
        if err is not None:
            run.oracle_fail(site, case, f"raised {type(err).__name__}: {str(err)[:150]}", fp + ":raises")
            continue
        gx = res.get(pre + ("x",)) if pre else res.get("x")
        gy = res.get(pre + ("deep", "y"))
        if not (torch.equal(gx, A["x"] + B["x"]) and torch.equal(gy, A["deep"]["y"] + B["deep"]["y"])):
            run.oracle_fail(site, case, "the function received entries of the operand from other batch positions", fp + ":values")
        else:
            run.oracle_ok(site)
