"""C14 further streams: select_out_keys hook on a module, module/sequence options (inplace, tensordict_out,
selected out-keys, nested sequences, partial_tolerant), kwargs dispatch, probabilistic modules."""
from __future__ import annotations

import itertools

import torch

from common import parse_sx, time_limit

import c14_gen as G


def hook_stream(run, drv, ask):
    """one TensorDictModule with select_out_keys(*S) called on a tensordict holding unrelated entries"""
    from tensordict import TensorDict
    rng = run.rng
    n = 250 if run.tier == "quick" else 2500
    cases, reqs = [], []
    for _ in range(n):
        prog = G.gen_prog(rng, nmax=1, ssa_bias=0.0)
        m = prog[0]
        outs = []
        for k in m["outs"]:
            if k != G.SINK and k not in outs:
                outs.append(k)
        if not outs:
            continue
        sel = [k for k in outs if rng.random() < 0.5] or [rng.choice(outs)]
        env = list(dict.fromkeys(m["ins"] + [k for k in G.UNIVERSE if rng.random() < 0.5]))
        if rng.random() < 0.1 and m["ins"]:
            env.remove(m["ins"][0])
        cases.append((prog, sel, env))
        reqs.append(f"(c14.run_sel {G.prog_sx(prog)} {G.keys_sx('sel', sel)} {G.keys_sx('env', env)})")
    answers = ask(drv, reqs)
    for (prog, sel, env), ans in zip(cases, answers):
        psx = G.prog_sx(prog)
        m = prog[0]
        model_new, model_old = [G.model_env(a) for a in parse_sx(ans)]
        run.case(("hook", psx, str(sel), str(env)))
        run.count("hook.sel_size", len(sel))
        mod = G.build_mods(prog)[0]
        td = G.make_input(env)
        before = {k: v for k, v in td.items(True, True)}
        try:
            with time_limit(60):
                mod.select_out_keys(*sel)
                out = mod(td)
            impl = G.td_items(out)
        except TimeoutError:
            raise
        except Exception:  # noqa: BLE001
            out, impl = None, "err"
        run.corr("select_out_keys_hook", [psx, str(sel), str(env)], impl, model_new)
        if out is None:
            continue
        outs = set(m["outs"]) - {G.SINK}
        lost = [k for k, v in before.items() if k not in outs and out.get(k, None) is not v]
        missing = [k for k in sel if k not in out.keys(True, True)]
        leaked = [k for k in outs if k not in sel and k not in m["ins"] and k in out.keys(True, True)]
        if lost:
            run.oracle_fail("hook", [psx, str(sel), str(env)], f"select_out_keys({sel}): entries that are not out_keys were removed/replaced: {lost}", "hook:unrelated-entry-lost")
        elif missing or leaked:
            run.oracle_fail("hook", [psx, str(sel), str(env)], f"select_out_keys({sel}): selected keys missing {missing} / unselected out_keys present {leaked}", "hook:selection")
        else:
            run.oracle_ok("hook")
        # reset_out_keys gives the module its full out_keys back
        try:
            with time_limit(60):
                mod.reset_out_keys()
                out2 = mod(G.make_input(env))
            ref = G.reference_run(prog, env)
            if ref is None or G.td_items(out2) != ref:
                run.oracle_fail("hook", [psx, str(sel), str(env)], "after reset_out_keys() the module does not write all its out_keys again", "hook:reset")
            else:
                run.oracle_ok("hook_reset")
        except TimeoutError:
            raise
        except Exception as e:  # noqa: BLE001
            run.oracle_fail("hook", [psx, str(sel), str(env)], f"reset_out_keys()/call raised {type(e).__name__}", "hook:reset")


# --------------------------------------------------------------------------- nested nodes with options
def flat(k):
    return k if isinstance(k, str) else "".join(k)


def gen_node(rng, depth, counter, plain=False):
    """('mod', m, inplace, sel) | ('seq', kids, inplace, sel, pt, container)"""
    if depth == 0 or rng.random() < 0.55:
        m = G.gen_prog(rng, nmax=1, ssa_bias=0.0)[0]
        m = dict(m, f=counter[0])
        counter[0] += 1
        ip = "yes" if plain or rng.random() < 0.8 else rng.choice(["no", "empty"])
        outs = list(dict.fromkeys(k for k in m["outs"] if k != G.SINK))
        sel = None
        if not plain and outs and rng.random() < 0.12:
            sel = [k for k in outs if rng.random() < 0.6] or [outs[0]]
        return ("mod", m, ip, sel)
    kids = [gen_node(rng, depth - 1, counter, plain) for _ in range(rng.randint(1, 3))]
    ip = None if plain or rng.random() < 0.55 else rng.choice(["yes", "no", "empty"])
    pt = (not plain) and rng.random() < 0.15
    sel = None
    if not plain and rng.random() < 0.2:
        outs = node_keys(("seq", kids, None, None, False, "list"))[1]
        outs = [k for k in outs if k != G.SINK]
        if outs:
            sel = [k for k in outs if rng.random() < 0.5] or [outs[-1]]
    return ("seq", kids, ip, sel, pt, rng.choice(["list", "list", "dict"]))


def node_keys(n):
    """python twin of the advertised keys (only used to draw valid selections)"""
    if n[0] == "mod":
        return list(n[1]["ins"]), list(n[3] if n[3] is not None else n[1]["outs"])
    ins, outs = [], []
    for kid in n[1]:
        ki, ko = node_keys(kid)
        for k in ki:
            if k not in outs + ins:
                ins.append(k)
        outs += ko
    outs = [k for i, k in enumerate(outs) if k not in outs[i + 1:]]
    return ins, (list(n[3]) if n[3] is not None else outs)


def okeys_sx(ks):
    return "none" if ks is None else G.keys_sx("sel", ks)


def node_sx(n):
    if n[0] == "mod":
        m = n[1]
        return f"(mod (m {G.keys_sx('ins', m['ins'])} {G.keys_sx('outs', m['outs'])} {m['f']}) {n[2]} {okeys_sx(n[3])})"
    return f"(seq (kids{''.join(' ' + node_sx(k) for k in n[1])}) {n[2] or 'none'} {okeys_sx(n[3])} {'true' if n[4] else 'false'})"


def build_node(n):
    import collections
    from tensordict.nn import TensorDictModule, TensorDictSequential
    if n[0] == "mod":
        m = n[1]
        ip = {"yes": True, "no": False, "empty": "empty"}[n[2]]
        tm = TensorDictModule(G.make_fn(m["f"], len(m["outs"])), in_keys=list(m["ins"]), out_keys=list(m["outs"]), inplace=ip)
        tm.fid = m["f"]
        if n[3] is not None:
            tm.select_out_keys(*n[3])
        return tm
    kids = [build_node(k) for k in n[1]]
    kw = {"partial_tolerant": n[4]}
    if n[2] is not None:
        kw["inplace"] = {"yes": True, "no": False, "empty": "empty"}[n[2]]
    via_method = n[3] is not None and (sum(map(ord, str(n[3]))) % 2 == 0)   # deterministic choice: constructor argument or method
    if n[3] is not None and not via_method:
        kw["selected_out_keys"] = list(n[3])
    if n[5] == "dict":
        seq = TensorDictSequential(collections.OrderedDict((f"l{i}", k) for i, k in enumerate(kids)), **kw)
    else:
        seq = TensorDictSequential(*kids, **kw)
    if via_method:
        seq.select_out_keys(*n[3])
    return seq


def shape_of(mod):
    from tensordict.nn import TensorDictSequential
    if isinstance(mod, TensorDictSequential):
        return [shape_of(m) for m in mod._module_iter()]
    return mod.fid


def envv(keys, prefix):
    return "(envv" + "".join(f" ({G.key_sx(k)} {prefix}{flat(k)})" for k in keys) + ")"


def make_td(keys, prefix):
    from tensordict import TensorDict
    td = TensorDict({}, batch_size=[])
    for k in keys:
        td.set(k, torch.tensor(G.input_val(prefix + flat(k)), dtype=torch.int64))
    return td


def canon_keys(ks):
    return [G.parse_key(parse_sx(G.key_sx(k))) for k in ks]


def options_stream(run, drv, ask):
    rng = run.rng
    n = 500 if run.tier == "quick" else 5000
    cases, reqs = [], []
    for _ in range(n):
        counter = [0]
        node = gen_node(rng, 2, counter)
        ins, _ = node_keys(node)
        arg = list(dict.fromkeys(ins + [k for k in G.UNIVERSE if rng.random() < 0.35]))
        if rng.random() < 0.12 and ins:
            arg.remove(rng.choice(ins))
        rng.shuffle(arg)
        out = [k for k in G.UNIVERSE if rng.random() < 0.3] if rng.random() < 0.3 else None
        nsx = node_sx(node)
        skip = rng.random() < 0.25
        if skip and rng.random() < 0.6:
            # make it likely that the out_keys already exist
            arg = list(dict.fromkeys(arg + [k for k in node_keys(node)[1] if k != G.SINK]))
        cases.append((node, arg, out, nsx, skip))
        reqs.append(f"(c14.node_keys {nsx})")
        if out is None:
            reqs.append(f"(c14.fwd {nsx} {envv(arg, 'i')} {'true' if skip else 'false'})")
        else:
            reqs.append(f"(c14.fwd_out {nsx} {envv(arg, 'i')} {envv(out, 'o')} {'true' if skip else 'false'})")
    answers = ask(drv, reqs)
    for i, (node, arg, out, nsx, skip) in enumerate(cases):
        m_keys, m_fwd = parse_sx(answers[2 * i]), parse_sx(answers[2 * i + 1])
        run.case(("fwd", nsx, str(arg), str(out)))
        run.count("fwd.top", node[0])
        run.count("fwd.tensordict_out", out is not None)
        try:
            with time_limit(90):
                mod = build_node(node)
        except ValueError:
            run.count("fwd.build", "ValueError")
            continue
        run.corr("node_keys", nsx, [canon_keys(mod.in_keys), canon_keys(mod.out_keys)],
                 [[G.parse_key(k) for k in m_keys[0]], [G.parse_key(k) for k in m_keys[1]]])
        td = make_td(arg, "i")
        before = {k: v for k, v in td.items(True, True)}
        otd = make_td(out, "o") if out is not None else None
        from tensordict.nn import set_skip_existing
        run.count("fwd.skip_existing", skip)
        try:
            with time_limit(90), set_skip_existing(True if skip else False):
                r = mod(td) if otd is None else mod(td, tensordict_out=otd)
            which = "arg" if r is td else "out" if r is otd else "new"
            impl = ["ok", which, G.td_items(r), G.td_items(td)]
        except TimeoutError:
            raise
        except Exception:  # noqa: BLE001
            r = None
            impl = ["err", G.td_items(td)]
        run.count("fwd.outcome", impl[0] if impl[0] == "err" else impl[1])
        if m_fwd[0] == "alias":
            # an update handed a whole nested tensordict of one object to another (shared nested object):
            # outside the model's domain (it tracks contents, not identities of nested nodes); oracle only
            run.count("fwd.model", "alias-skipped")
        else:
            run.count("fwd.model", "compared")
            model = [m_fwd[0]] + ([m_fwd[1]] if m_fwd[0] == "ok" else []) + [G.model_env(["ok", e]) for e in m_fwd[(2 if m_fwd[0] == "ok" else 1):]]
            run.corr("forward_options", [nsx, str(arg), str(out), skip], impl, model)
        if i < 2:
            run.sample({"stream": "forward_options", "node": nsx, "arg": str(arg), "tensordict_out": str(out), "model": answers[2 * i + 1][:400]})
        if r is None:
            continue
        # oracle: under set_skip_existing(True) a module whose out_keys all exist (and none of whose in_keys is an out_key)
        # hands back its input untouched
        if skip:
            oks, iks = canon_keys(mod.out_keys), canon_keys(mod.in_keys)
            present = set(before) | {k[:j] if j > 1 else k[0] for k in before if isinstance(k, tuple) for j in range(1, len(k))}
            if all(k in present for k in oks) and not any(k in oks for k in iks):
                # (also the entries under the module's own out_keys: a select_out_keys hook must not touch what a skipped module hands back)
                changed = [k for k, v in before.items() if td.get(k, None) is not v] + [k for k in td.keys(True, True) if k not in before]
                if r is not td or changed:
                    run.oracle_fail("skip_existing", [nsx, str(arg), str(out)], f"all out_keys exist, yet the module ran (returned input: {r is td}, changed {changed})", "skip_existing")
                else:
                    run.oracle_ok("skip_existing")
        # oracle: skip_existing is deactivated for a module whose out_keys are also in_keys: it computes as without the mode
        if skip and node[0] == "mod" and otd is None and any(k in canon_keys(mod.out_keys) for k in canon_keys(mod.in_keys)):
            td2 = make_td(arg, "i")
            try:
                with time_limit(90), set_skip_existing(False):
                    r2 = build_node(node)(td2)
                if G.td_items(r2) != G.td_items(r):
                    run.oracle_fail("skip_existing", [nsx, str(arg), str(out)], "a module whose out_keys are also in_keys must not be skipped, but its result differs from the run without skip_existing", "skip_existing:in-is-out")
                else:
                    run.oracle_ok("skip_existing")
            except TimeoutError:
                raise
            except Exception:  # noqa: BLE001
                pass
        # oracle: entries of the *input* that are not out_keys of any module in the tree are untouched (same object)
        written = all_written(node)
        lost = [k for k, v in before.items() if k not in written and td.get(k, None) is not v]
        if lost:
            run.oracle_fail("frame_options", [nsx, str(arg), str(out)], f"input entries that no module writes were removed/replaced: {lost}", "frame_options")
        else:
            run.oracle_ok("frame_options")
        # oracle: a sequence with inplace=False / "empty" (and a module with inplace=False / "empty") leaves its input as it is
        if node[2] in ("no", "empty") and otd is None and not (skip and r is td):
            diff_in = [k for k, v in before.items() if td.get(k, None) is not v] + [k for k in td.keys(True, True) if k not in before]
            if diff_in or r is td:
                run.oracle_fail("inplace_false", [nsx, str(arg), str(out)], f"inplace={node[2]}: the input tensordict was modified ({diff_in[:6]}) / returned: {r is td}",
                                "inplace_false:input-modified" if diff_in else "inplace_false:returned-input")
            else:
                run.oracle_ok("inplace_false")
        # oracle: a sequence with selected out-keys adds no unselected out-key to what it returns
        if node[0] == "seq" and node[3] is not None:
            sel_top = set(canon_keys(node[3]))
            pre = set(before) if r is td else (set(out) if (otd is not None and r is otd) else set())
            leaked = [k for k in r.keys(True, True) if k in written and k not in sel_top and k not in pre]
            if leaked:
                nested_only = all(isinstance(k, tuple) for k in leaked)
                run.oracle_fail("seq_selection" if not nested_only else "tensordict_out", [nsx, str(arg), str(out)],
                                f"selected_out_keys={sorted(map(str, sel_top))} but the result also gained {leaked}",
                                "tensordict_out:extra-nested-siblings" if nested_only else "seq_selection:leaked")
            else:
                run.oracle_ok("seq_selection")
        # oracle: with tensordict_out, the returned object is tensordict_out and it gains nothing but out_keys
        if otd is not None:
            okeys = set(canon_keys(mod.out_keys))
            # (out_keys dropped by a selection are the business of the hook / select streams: only entries that *no* module writes count here)
            extra = [k for k in r.keys(True, True) if k not in okeys and k not in written and k not in out]
            if r is not otd and skip:
                run.count("fwd.skip_existing_returned_input", 1)   # the skip test of the decorator returns the input
            elif r is not otd:
                run.oracle_fail("tensordict_out", [nsx, str(arg), str(out)], "tensordict_out was given but another object was returned", "tensordict_out:identity")
            elif extra:
                nested = all(isinstance(k, tuple) for k in extra)
                run.oracle_fail("tensordict_out", [nsx, str(arg), str(out)], f"tensordict_out received entries that are not out_keys: {extra}",
                                "tensordict_out:extra-" + ("nested-siblings" if nested else "keys"))
            else:
                run.oracle_ok("tensordict_out")


def all_written(n):
    if n[0] == "mod":
        return {k for k in n[1]["outs"] if k != G.SINK}
    out = set()
    for k in n[1]:
        out |= all_written(k)
    return out


def nested_select_stream(run, drv, ask):
    rng = run.rng
    n = 200 if run.tier == "quick" else 2000
    cases, reqs = [], []
    for _ in range(n):
        counter = [0]
        node = gen_node(rng, 2, counter, plain=True)
        if node[0] != "seq":
            node = ("seq", [node], None, None, False, "list")
        nsx = node_sx(node)
        _, outs = node_keys(node)
        for _ in range(4):
            ik = [k for k in G.UNIVERSE if rng.random() < 0.5] if rng.random() < 0.6 else None
            ok = [k for k in outs if rng.random() < 0.5] if rng.random() < 0.6 else None
            cases.append((node, nsx, ik, ok))
            reqs.append(f"(c14.select_node {nsx} {'none' if ik is None else G.keys_sx('in', ik)} {'none' if ok is None else G.keys_sx('out', ok)})")
    answers = ask(drv, reqs)
    built = {}
    for (node, nsx, ik, ok), ans in zip(cases, answers):
        model = parse_sx(ans)
        run.case(("select_nested", nsx, str(ik), str(ok)))
        if nsx not in built:
            built[nsx] = build_node(node)
        seq = built[nsx]
        try:
            with time_limit(90):
                sub = seq.select_subsequence(in_keys=None if ik is None else list(ik), out_keys=None if ok is None else list(ok))
            impl = ["ok", shape_of(sub), canon_keys(sub.in_keys), canon_keys(sub.out_keys)]
        except ValueError:
            impl = ["err"]
        run.count("select_nested.outcome", impl[0])
        # oracle: selecting on out_keys only (or nothing) must succeed when a retained key is written, and give the values of the full sequence
        if ik is None and ((ok is None and len(seq.out_keys)) or (ok is not None and any(k in canon_keys(seq.out_keys) for k in canon_keys(ok)))):
            full_in = make_td(list(seq.in_keys), "i")
            try:
                with time_limit(90):
                    full = seq(full_in.clone())
            except TimeoutError:
                raise
            except Exception:  # noqa: BLE001
                full = None
            if full is not None:
                if impl[0] == "err":
                    run.oracle_fail("select_nested", [nsx, str(ik), str(ok)], "select_subsequence raised ValueError although modules writing the requested out_keys exist",
                                    "select_nested:raised")
                else:
                    try:
                        with time_limit(90):
                            r = sub(full_in.clone())
                        want = canon_keys(seq.out_keys) if ok is None else [k for k in canon_keys(ok) if k in canon_keys(seq.out_keys)]
                        bad = [k for k in want if k != G.SINK and int(r.get(k).item()) != int(full.get(k).item())]
                    except TimeoutError:
                        raise
                    except Exception as ex:  # noqa: BLE001
                        bad = [f"raised {type(ex).__name__}"]
                    if bad:
                        run.oracle_fail("select_nested", [nsx, str(ik), str(ok)], f"nested selection differs from the full sequence on {bad}", "select_nested:values")
                    else:
                        run.oracle_ok("select_nested")
        if model[0] == "ok":
            model = ["ok", model[1], [G.parse_key(k) for k in model[2]], [G.parse_key(k) for k in model[3]]]
        run.corr("select_nested", [nsx, str(ik), str(ok)], impl, model)


def dispatch_oracle(run):
    """kwargs / positional dispatch returns, in out_keys order, the values the tensordict call writes"""
    rng = run.rng
    n = 120 if run.tier == "quick" else 1200
    for _ in range(n):
        prog = G.gen_prog(rng)
        if any(k == G.SINK for m in prog for k in m["outs"]):
            continue
        seq = G.build_seq(prog)
        ins, outs = list(seq.in_keys), list(seq.out_keys)
        if not outs:
            continue
        psx = G.prog_sx(prog)
        run.case(("dispatch", psx))
        ref = G.reference_run(prog, ins)
        if ref is None:
            continue
        ref = dict(ref)
        vals = {k: torch.tensor(G.input_val(k), dtype=torch.int64) for k in ins}
        mode = rng.choice(["kwargs", "args", "mixed"])
        args, kwargs = [], {}
        for i, k in enumerate(ins):
            if mode == "args" or (mode == "mixed" and i < len(ins) // 2):
                args.append(vals[k])
            else:
                kwargs["_".join(k) if isinstance(k, tuple) else k] = vals[k]
        try:
            with time_limit(90):
                out = seq(*args, **kwargs)
        except TimeoutError:
            raise
        except Exception as e:  # noqa: BLE001
            run.oracle_fail("dispatch", [psx, mode], f"dispatched call raised {type(e).__name__}: {str(e)[:120]}", "dispatch:raised")
            continue
        out = out if isinstance(out, tuple) else (out,)
        got = [int(o.item()) for o in out]
        want = [ref[k] for k in canon_keys(outs)]
        run.count("dispatch.mode", mode)
        if got != want:
            run.oracle_fail("dispatch", [psx, mode], f"dispatched call returned {got}, tensordict call computes {want} for out_keys {outs}", "dispatch:values")
        else:
            run.oracle_ok("dispatch")


def lazy_partial_oracle(run):
    """partial_tolerant on a lazy stack of heterogeneous members: a module runs on exactly the members holding all its in_keys"""
    from tensordict import LazyStackedTensorDict
    from tensordict.nn import TensorDictSequential
    rng = run.rng
    n = 80 if run.tier == "quick" else 800
    flat_univ = [k for k in G.UNIVERSE if isinstance(k, str)]
    for _ in range(n):
        prog = [m for m in G.gen_prog(rng) if all(isinstance(k, str) for k in m["ins"] + m["outs"]) and m["ins"]]
        if not prog:
            continue
        mods = G.build_mods(prog)
        seq = TensorDictSequential(*mods, partial_tolerant=True)
        members = [[k for k in flat_univ if rng.random() < 0.6] for _ in range(rng.randint(2, 3))]
        if len({tuple(sorted(m)) for m in members}) < 2:
            continue  # homogeneous: not the case of interest
        psx = G.prog_sx(prog)
        run.case(("lazy", psx, str(members)))
        # members with 0-2 batch dims, stacked along any dim (stack_dim != 0: iterating the lazy stack does NOT yield the members)
        shape = rng.choice([(), (2,), (2,), (2, 1), (3, 2)])
        stack_dim = rng.randrange(0, len(shape) + 1)
        if rng.random() < 0.25:
            stack_dim -= len(shape) + 1          # the same dim, spelled negatively
        run.count("lazy.member_rank", len(shape))
        run.count("lazy.stack_dim", stack_dim)
        tds = [G.make_input(m).expand(*shape).clone() if shape else G.make_input(m) for m in members]
        lazy = LazyStackedTensorDict(*tds, stack_dim=stack_dim)
        try:
            with time_limit(90):
                out = seq(lazy)
        except TimeoutError:
            raise
        except Exception as e:  # noqa: BLE001
            run.count("lazy.error", type(e).__name__)
            run.oracle_fail("partial_tolerant", [str(members), stack_dim], f"a partial_tolerant sequence raised {type(e).__name__} on a lazy stack: {str(e)[:100]}",
                            f"partial_tolerant:raised:{type(e).__name__}")
            continue
        bad = []
        for mem, td in zip(members, out.tensordicts):
            env = {k: G.input_val(k) for k in mem}
            for m in prog:
                if all(k in env for k in m["ins"]):
                    a = [env[k] for k in m["ins"]]
                    for i, k in enumerate(m["outs"]):
                        if k != G.SINK:
                            env[k] = G.app_val(m["f"], a, i)
            got = []
            for k, v in td.items():
                flatv = v.reshape(-1)
                got.append((k, int(flatv[0].item()) if bool((flatv == flatv[0]).all()) and tuple(v.shape) == tuple(shape) else "non-uniform-or-misshaped"))
            if sorted(env.items()) != sorted(got):
                bad.append(mem)
        if bad:
            run.oracle_fail("partial_tolerant", [psx, str(members), list(shape), stack_dim], f"members {bad} differ from running, on each member, the modules whose in_keys it holds", "lazy_partial")
        else:
            run.oracle_ok("partial_tolerant")


def module_variants_oracle(run):
    """the other ways a TensorDictModule feeds / reads its function: in_keys given as a {key: kwarg} dict, outputs returned as
    a dict / a TensorDict / a bare tensor / None — the out_keys receive the function's outputs by name (dict) or position,
    everything else is untouched"""
    from tensordict import TensorDict
    from tensordict.nn import TensorDictModule
    rng = run.rng
    n = 80 if run.tier == "quick" else 800
    flat_univ = [k for k in G.UNIVERSE]
    for _ in range(n):
        nin, nout = rng.randint(1, 3), rng.randint(0, 3)
        ins = rng.sample(flat_univ, nin)
        outs = rng.sample(flat_univ, nout)
        style_in = rng.choice(["list", "dict"])
        style_out = rng.choice(["tuple", "dict", "td", "bare"]) if nout else "none"
        if style_out == "bare" and nout != 1:
            style_out = "tuple"
        names = [f"arg{i}" for i in range(nin)]
        fid = rng.randrange(100)

        def compute(vals, _fid=fid, _nout=nout):
            return [G.app_val(_fid, vals, i) for i in range(_nout)]

        def fn(*args, **kwargs):
            vs = list(args) + [kwargs[nm] for nm in names if nm in kwargs]
            vals = [int(v.item()) for v in vs]
            res = [torch.tensor(v, dtype=torch.int64) for v in compute(vals)]
            if style_out == "tuple":
                return tuple(res)
            if style_out == "bare":
                return res[0]
            if style_out == "none":
                return None
            d = dict(zip(outs, res))
            d_shuffled = dict(sorted(d.items(), key=lambda kv: str(kv[0]), reverse=True))
            return d_shuffled if style_out == "dict" else TensorDict(d_shuffled, batch_size=[])
        case = [str(ins), str(outs), style_in, style_out]
        run.case(("variant",) + tuple(case) + (fid,))
        run.count("variant.in", style_in)
        run.count("variant.out", style_out)
        try:
            if style_in == "dict":
                mod = TensorDictModule(fn, in_keys=dict(zip(ins, names)), out_keys=outs, out_to_in_map=False)
            else:
                mod = TensorDictModule(fn, in_keys=ins, out_keys=outs)
            env = list(dict.fromkeys(ins + [k for k in flat_univ if rng.random() < 0.4]))
            td = G.make_input(env)
            before = {k: v for k, v in td.items(True, True)}
            with time_limit(90):
                out = mod(td)
        except TimeoutError:
            raise
        except Exception as e:  # noqa: BLE001
            run.oracle_fail("module_variants", case, f"raised {type(e).__name__}: {str(e)[:100]}", "variants:raised")
            continue
        want = dict(zip(outs, compute([G.input_val(k) for k in ins])))
        bad = [k for k in outs if int(out.get(k).item()) != want[k]]
        lost = [k for k, v in before.items() if k not in outs and out.get(k, None) is not v]
        extra = [k for k in out.keys(True, True) if k not in before and k not in outs]
        if bad or lost or extra or out is not td:
            run.oracle_fail("module_variants", case, f"wrong values under {bad}; untouched entries changed {lost}; unexpected {extra}", "variants:values")
        else:
            run.oracle_ok("module_variants")


def selftest(run):
    """harness self-test: with the pinned `_OutKeysSelect` hook (select(*in_keys, *out_keys, inplace=True)) monkey-patched in,
    the `hook` oracle's criterion must notice the lost entry; otherwise the run is an infrastructure failure"""
    import unittest.mock as mock
    from common import Infra
    from tensordict.nn.common import _OutKeysSelect
    from tensordict.nn import TensorDictModule

    def old_call(self, module, tensordict_in, kwargs, tensordict_out):
        return tensordict_out.select(*module.in_keys, *self.out_keys, inplace=True, strict=False)
    with mock.patch.object(_OutKeysSelect, "__call__", old_call):
        mod = TensorDictModule(G.make_fn(0, 2), in_keys=["a"], out_keys=["c", "d"])
        mod.select_out_keys("d")
        td = G.make_input(["a", "b"])
        keep = td.get("b")
        out = mod(td)
    lost = out.get("b", None) is not keep
    run.count("selftest.pinned_hook_detected", int(lost))
    if not lost:
        raise Infra("harness self-test: the pinned select_out_keys hook was not noticed")


def batched_oracle(run):
    """the same sequence on a batched tensordict and on a lazy stack of homogeneous members computes, row by row, what the
    reference interpreter computes on each row"""
    from tensordict import LazyStackedTensorDict
    rng = run.rng
    n = 60 if run.tier == "quick" else 600
    for _ in range(n):
        prog = G.gen_prog(rng)
        if any(not m["ins"] for m in prog):
            continue   # a function without inputs cannot know the batch size: not a case for this oracle
        env = G.gen_env(rng, prog, "good")
        psx = G.prog_sx(prog)
        run.case(("batched", psx, str(env)))
        rows = [G.make_input(env, salt=s) for s in (0, 17, 4242)]
        kind = rng.choice(["dense", "lazy"])
        td = torch.stack(rows, 0) if kind == "dense" else LazyStackedTensorDict(*rows, stack_dim=0)
        seq = G.build_seq(prog)
        try:
            with time_limit(60):
                out = seq(td)
        except TimeoutError:
            raise
        except Exception:  # noqa: BLE001
            out = None
        # reference per row: same interpreter, inputs shifted by the salt
        want = []
        for s in (0, 17, 4242):
            e = {k: (G.input_val(k) + s) % G.P for k in env}
            ok = True
            for m in prog:
                if any(k not in e for k in m["ins"]):
                    ok = False
                    break
                a = [e[k] for k in m["ins"]]
                for i, k in enumerate(m["outs"]):
                    if k != G.SINK:
                        e[k] = G.app_val(m["f"], a, i)
            want.append(sorted(e.items(), key=lambda kv: str(kv[0])) if ok else None)
        run.count("batched.kind", kind)
        if out is None:
            if any(w is not None for w in want):
                run.oracle_fail("batched", [psx, str(env), kind], "the sequence raised on a batched input although every row holds the in_keys", "batched:raised")
            else:
                run.oracle_ok("batched")
            continue
        got = [G.td_items(out[i]) for i in range(3)]
        if got != want:
            run.oracle_fail("batched", [psx, str(env), kind], "rows of the batched result differ from the per-row reference", "batched:values")
        else:
            run.oracle_ok("batched")


def mutation_stream(run, drv, ask):
    """item assignment / deletion / slicing on a TensorDictSequential (list- and ModuleDict-based): afterwards the advertised
    in_keys / out_keys are those the model computes for the *current* list of modules, feeding exactly the advertised in_keys runs,
    and the result is what the current modules compute one after another."""
    rng = run.rng
    n = 150 if run.tier == "quick" else 1500
    cases, reqs = [], []
    for ci in range(n):
        prog = G.gen_prog(rng)
        donor = G.gen_prog(rng)
        # function ids of the donor must differ from the program's (values identify the dataflow)
        donor = [dict(m, f=m["f"] + 1000) for m in donor]
        container = "dict" if ci % 3 == 0 else "list"
        cur = [(f"layer{i}", m) for i, m in enumerate(prog)]
        ops = []
        for _ in range(rng.randint(1, 3)):
            if container == "list" and rng.random() < 0.3:
                # append / insert / extend (list-based sequences)
                kind = rng.choice(["append", "insert", "extend"])
                i = rng.randrange(len(cur) + 1) if kind == "insert" else len(cur)
                ms = [rng.choice(donor) for _ in range(2 if kind == "extend" else 1)]
                ops.append((kind, i, None, ms))
                cur = cur[:i] + [(f"new{len(ops)}_{j}", mm) for j, mm in enumerate(ms)] + cur[i:]
            elif len(cur) > 1 and rng.random() < 0.45:
                i = rng.randrange(len(cur))
                ops.append(("del", i, cur[i][0]))
                cur = cur[:i] + cur[i + 1:]
            else:
                i = rng.randrange(len(cur))
                m = rng.choice(donor)
                ops.append(("set", i, cur[i][0], m))
                cur = cur[:i] + [(cur[i][0], m)] + cur[i + 1:]
        lo = rng.randrange(0, len(cur))
        hi = rng.randrange(lo + 1, len(cur) + 1)
        cases.append((prog, container, ops, [m for _, m in cur], lo, hi))
        csx = G.prog_sx([m for _, m in cur])
        reqs += [f"(c14.keys {csx})", f"(c14.keys {G.prog_sx([m for _, m in cur][lo:hi])})"]
    answers = ask(drv, reqs)
    for ci, (prog, container, ops, cur, lo, hi) in enumerate(cases):
        m_keys, m_slice = parse_sx(answers[2 * ci]), parse_sx(answers[2 * ci + 1])
        psx, csx = G.prog_sx(prog), G.prog_sx(cur)
        desc = [psx, container, [(o[0], o[1]) + ((G.prog_sx([o[3]]),) if o[0] == "set" else (G.prog_sx(o[3]),) if o[0] in ("append", "insert", "extend") else ())
                                 for o in ops]]
        run.case(("mutation", psx, container, str(desc[2])))
        try:
            with time_limit(90):
                seq = G.build_seq(prog, container)
                for o in ops:
                    idx = o[2] if container == "dict" else o[1]
                    if o[0] == "del":
                        del seq[idx]
                    elif o[0] == "append":
                        seq.append(G.build_mods(o[3])[0])
                    elif o[0] == "insert":
                        seq.insert(o[1], G.build_mods(o[3])[0])
                    elif o[0] == "extend":
                        seq.extend(G.build_mods(o[3]))
                    else:
                        seq[idx] = G.build_mods([o[3]])[0]
                impl_keys = [canon_keys(seq.in_keys), canon_keys(seq.out_keys)]
                sub = seq[lo:hi] if container == "list" else None
        except TimeoutError:
            raise
        except Exception as e:  # noqa: BLE001
            run.oracle_fail("sequence_mutation", desc, f"item assignment / deletion raised {type(e).__name__}: {str(e)[:100]}", f"mutation:raised:{type(e).__name__}")
            continue
        model_keys = [[G.parse_key(k) for k in m_keys[0]], [G.parse_key(k) for k in m_keys[1]]]
        run.corr("keys_after_mutation", desc, impl_keys, model_keys)
        if sub is not None:
            run.corr("keys_of_slice", desc + [lo, hi], [canon_keys(sub.in_keys), canon_keys(sub.out_keys)],
                     [[G.parse_key(k) for k in m_slice[0]], [G.parse_key(k) for k in m_slice[1]]])
        if any(G.SINK in m["ins"] for m in cur):
            continue
        env = list(seq.in_keys)
        ref = G.reference_run(cur, canon_keys(env))
        try:
            with time_limit(90):
                out = seq(G.make_input(env))
            impl = G.td_items(out)
        except TimeoutError:
            raise
        except Exception as e:  # noqa: BLE001
            impl = f"raised {type(e).__name__}"
        if ref is None or impl != ref:
            run.oracle_fail("sequence_mutation", desc, f"after the mutation, the sequence fed with its advertised in_keys {canon_keys(env)} gives {str(impl)[:160]}; "
                            f"the current modules one after another give {str(ref)[:160]}", "mutation:" + ("insufficient-in-keys" if isinstance(impl, str) else "values"))
        else:
            run.oracle_ok("sequence_mutation")


def mappings_oracle(run):
    """the positive mappings of tensordict/nn/utils.py used to build distribution parameters: defining identities"""
    import torch
    from tensordict.nn.utils import biased_softplus, expln, inv_softplus, mappings
    x = torch.linspace(-6, 6, 49, dtype=torch.float64)
    checks = []
    sp = torch.nn.functional.softplus
    checks.append(("inv_softplus(softplus(x)) == x", torch.allclose(inv_softplus(sp(x)), x, atol=1e-5)))
    for bias, mn in ((1.0, 0.01), (2.5, 0.1), (0.3, 0.05)):
        f = biased_softplus(bias, mn)
        y = f(x)
        checks.append((f"biased_softplus({bias},{mn})(0) == bias", abs(float(f(torch.zeros((), dtype=torch.float64))) - bias) < 1e-5))
        checks.append((f"biased_softplus({bias},{mn}) >= min_val, increasing", bool((y >= mn).all()) and bool((y[1:] > y[:-1]).all())))
        g = mappings(f"biased_softplus_{bias}_{mn}")
        checks.append((f"mappings('biased_softplus_{bias}_{mn}') is that function", torch.allclose(g(x), y)))
    checks.append(("mappings('biased_softplus_2.0')(0) == 2", abs(float(mappings("biased_softplus_2.0")(torch.zeros(()))) - 2.0) < 1e-5))
    e = expln(x)
    want = torch.where(x <= 0, x.exp(), x.clamp_min(0).log1p() + 1)
    checks.append(("expln = exp on x<=0, 1+log1p on x>0, positive, increasing", torch.allclose(e, want) and bool((e > 0).all()) and bool((e[1:] > e[:-1]).all())))
    for name, ref in (("softplus", sp), ("exp", torch.exp), ("relu", torch.relu), ("none", lambda t: t), ("expln", expln)):
        checks.append((f"mappings('{name}')", torch.allclose(mappings(name)(x), ref(x))))
    for what, ok in checks:
        run.case(("mappings", what))
        if ok:
            run.oracle_ok("mappings")
        else:
            run.oracle_fail("mappings", ["mappings", what], "identity does not hold: " + what, "mappings:" + what.split("(")[0].strip())


def run_more(run, drv, ask):
    selftest(run)
    batched_oracle(run)
    module_variants_oracle(run)
    dispatch_oracle(run)
    lazy_partial_oracle(run)
    hook_stream(run, drv, ask)
    options_stream(run, drv, ask)
    nested_select_stream(run, drv, ask)
    mutation_stream(run, drv, ask)
    mappings_oracle(run)
    import c14_prob
    c14_prob.run_prob(run, drv, ask)
