"""C15 — the tensorclass zoo (module level so that instances pickle).

Every class is described by a `Spec` (body, bases, options) so that the harness can build
  * the real class (decorator or `TensorClass` subclass), and
  * the *pre-class* `_tensorclass` starts from (same body, plain `dataclass`), from which the
    model's `ClassCfg` (fields / own / inherited) is read by reflection.
"""
from __future__ import annotations

import dataclasses
import warnings
from typing import Any, Optional

import torch
from tensordict import TensorClass, tensorclass

warnings.filterwarnings("ignore")


# --------------------------------------------------------------------------- nested member
@tensorclass
class Nest:
    y: torch.Tensor
    t: str = "nested"


# --------------------------------------------------------------------------- decorator-declared
@tensorclass
class D1:
    x: torch.Tensor
    n: Nest
    s: str
    o: Optional[torch.Tensor] = None
    d: str = "dflt"


class S1(TensorClass):
    x: torch.Tensor
    n: Nest
    s: str
    o: Optional[torch.Tensor] = None
    d: str = "dflt"


@tensorclass(frozen=True)
class Fz:
    x: torch.Tensor
    n: Nest
    s: str
    o: Optional[torch.Tensor] = None
    d: str = "dflt"


class FzS(TensorClass["frozen"]):
    x: torch.Tensor
    n: Nest
    s: str
    o: Optional[torch.Tensor] = None
    d: str = "dflt"


@tensorclass(autocast=True)
class Ac:
    x: torch.Tensor
    n: Nest
    s: str
    o: Optional[torch.Tensor] = None
    d: str = "dflt"


class AcS(TensorClass["autocast"]):
    x: torch.Tensor
    n: Nest
    s: str
    o: Optional[torch.Tensor] = None
    d: str = "dflt"


@tensorclass(nocast=True)
class Nc:
    x: torch.Tensor
    n: Nest
    s: str
    o: Optional[torch.Tensor] = None
    d: str = "dflt"


class NcS(TensorClass["nocast"]):
    x: torch.Tensor
    n: Nest
    s: str
    o: Optional[torch.Tensor] = None
    d: str = "dflt"


@tensorclass(shadow=True)
class Sh:
    x: torch.Tensor
    n: Nest
    s: str
    o: Optional[torch.Tensor] = None
    d: str = "dflt"


# a subclass of a tensorclass (everything is inherited from D1)
class D2(S1):
    z: Optional[torch.Tensor] = None


# tensor-only fields of one shape (what cat_from_tensordict / stack_from_tensordict / to_struct_array need to succeed)
@tensorclass
class T1:
    x: torch.Tensor
    y: torch.Tensor


# --------------------------------------------------------------------------- user methods colliding with the lists
def _user(tag):
    def f(self, *a, **k):
        return ("user", tag)
    f.__name__ = tag
    f._c15_user = True
    return f


USER_NAMES = ["reshape", "keys", "__ge__", "__eq__", "clone", "memmap", "get", "to_dict", "__len__", "__getitem__",
              "__add__", "batch_size", "from_module", "device", "_set_str", "unbind", "__lt__", "__repr__", "__bool__",
              "load_memmap", "_clone", "__contains__", "__delitem__", "where"]


def _user_body():
    body = {"__annotations__": {"x": torch.Tensor, "s": str}, "s": "u", "__module__": __name__}
    for n in USER_NAMES:
        body[n] = _user(n)
    return body


U1 = tensorclass(type("U1", (), _user_body()))

# shadow class whose fields are named like API members of each list
SHADOW_FIELDS = {
    "exp": "wrap", "batch_dims": "nowrap", "keys": "nowrap", "clone": "copy", "memmap": "fromTD", "get": "explicit-guarded",
    "to_dict": "explicit-guarded", "from_module": "classmethod", "device": "explicit-guarded",
    "load_memmap": "fromTD-assign",
}


def _shadow_body():
    return {"__annotations__": {k: str for k in SHADOW_FIELDS}, "__module__": __name__}


ShF = tensorclass(type("ShF", (), _shadow_body()), shadow=True)


# --------------------------------------------------------------------------- specs for the dispatch tie
@dataclasses.dataclass
class Spec:
    name: str
    cls: type
    body: Any               # callable returning the class body dict
    base_for_inherited: Any  # class whose attributes are visible through the bases (object / TensorClass / parent)
    frozen: bool = False
    shadow: bool = False


def _std_body():
    return {"__annotations__": {"x": torch.Tensor, "n": Nest, "s": str, "o": Optional[torch.Tensor], "d": str},
            "o": None, "d": "dflt"}


SPECS = [
    Spec("D1", D1, _std_body, object),
    Spec("S1", S1, _std_body, TensorClass),
    Spec("Fz", Fz, _std_body, object, frozen=True),
    Spec("FzS", FzS, _std_body, TensorClass["frozen"], frozen=True),
    Spec("Nc", Nc, _std_body, object),
    Spec("Ac", Ac, _std_body, object),
    Spec("Sh", Sh, _std_body, object, shadow=True),
    Spec("U1", U1, _user_body, object),
    Spec("ShF", ShF, _shadow_body, object, shadow=True),
    Spec("D2", D2, lambda: {"__annotations__": {"z": Optional[torch.Tensor]}, "z": None}, S1),
]

BEHAVIOUR_CLASSES = {"D1": D1, "S1": S1, "Fz": Fz, "FzS": FzS, "Ac": Ac, "AcS": AcS, "Nc": Nc, "NcS": NcS, "Sh": Sh, "D2": D2, "T1": T1}


def make(cls, batch=(2, 3), seed=0, lock=None, strings=None, flavour="float"):
    """deterministic instance: integer-valued float leaves, nested tensorclass, strings, None.
    `seed` changes the tensor values only; the non-tensor payloads are the same for every seed (binary
    operations between instances with *different* payloads have no defined non-tensor result)."""
    n = 1
    for b in batch:
        n *= b
    g = seed * 1000
    strings = "0" if strings is None else strings
    x = (torch.arange(n * 4, dtype=torch.float32).reshape(*batch, 4) + g) / 8 + 0.25
    y = torch.arange(n, dtype=torch.float32).reshape(tuple(batch)) + 100 + g
    if flavour == "bool":
        x, y = (x * 8).long() % 3 == seed % 3, y.long() % 2 == seed % 2
    if cls is T1:
        kw = dict(x=x, y=(~x if flavour == "bool" else x * 2 + 1), batch_size=list(batch))
        if lock is not None:
            kw["lock"] = lock
        return cls(**kw)
    nest = Nest(y=y, t=f"nested{strings}", batch_size=list(batch))
    kw = dict(x=x, n=nest, s=f"hi{strings}", batch_size=list(batch))
    if lock is not None:
        kw["lock"] = lock
    return cls(**kw)


def make_lazy(cls, seed=0, flavour="float"):
    """the same content as `make(cls, batch=(2, 3))`-shaped data, but LAZILY stacked: a tensorclass around a
    LazyStackedTensorDict of two batch-(3,) members (stack dim 0)"""
    from tensordict import LazyStackedTensorDict
    members = [make(cls, batch=(3,), seed=seed * 10 + i, flavour=flavour) for i in range(2)]
    return LazyStackedTensorDict.lazy_stack(members, 0)
