"""C16 — streams of the check: representation correspondence (model vs real objects) + property oracle
(numpy object array of payload ids indexed through a torch index proxy)."""
from __future__ import annotations

import os
import warnings

import numpy as np
import torch
from tensordict import LazyStackedTensorDict, TensorDict
from tensordict.tensorclass import NonTensorData, NonTensorStack

import c16_nt as N
from common import err_class, parse_sx, sx, time_limit

warnings.filterwarnings("ignore")


def nested(a):
    return a.tolist() if a.shape else a.item()


def ask(drv, reqs, size=40):
    """requests and answers here are long (nested representations): keep every round trip well below the pipe buffers"""
    out = []
    for i in range(0, len(reqs), size):
        out += drv.ask_many(reqs[i:i + size])
    return out


def nest_from_parsed(p):
    """driver `(l a (l b c))` -> python nested list"""
    if isinstance(p, list):
        return [nest_from_parsed(x) for x in p[1:]]
    return p


def has_stack(spec):
    return spec[0] == "st"


def gen_case(run, max_rank=3):
    shape = N.gen_shape(run.rng, max_rank)
    a = N.gen_array(run.rng, shape)
    spec = N.represent(a, run.rng)
    return shape, a, spec


def impl_err(e):
    c = err_class(e)
    return {"index": "index", "runtime": "runtime", "value": "value", "type": "type", "key": "key"}.get(c, c)


# --------------------------------------------------------------------------- shape / tolist / abstraction
def info_stream(run, drv):
    n = 1500 if run.tier == "quick" else 8000
    cases = [gen_case(run) for _ in range(n)]
    answers = ask(drv, [sx("c16.info", N.to_sx(spec)) for _, _, spec in cases])
    for (shape, a, spec), ans in zip(cases, answers):
        m = parse_sx(ans)
        obj = N.build(spec)
        run.case(("info", str(spec)), nontrivial=has_stack(spec))
        run.count("info.rank", len(shape))
        run.count("info.repr", "stack" if has_stack(spec) else "shared")
        impl = [list(obj.batch_size), "wf", N.read(obj) == spec]
        run.corr("shape(batch_size)", str(spec), impl, [m[0], m[1], True])
        # tolist: model (representation walk) vs implementation
        try:
            tl = N.tolist_ids(obj)
        except Exception as e:  # noqa: BLE001
            tl = ["raises", err_class(e)]
        run.corr("tolist", str(spec), tl, nest_from_parsed(m[3]))
        # oracle: tolist() returns the payloads in batch order
        want = nested(a)
        if tl == want:
            run.oracle_ok("tolist")
        else:
            run.oracle_fail("tolist", {"spec": str(spec)}, f"tolist()={tl} expected {want}", fingerprint="tolist")
        # abstraction of the model vs ground truth (validates getAt/absNT itself)
        flat = m[2]
        run.corr("abstraction(getAt)", str(spec), list(a.reshape(-1)), flat)
    run.sample({"stream": "info", "spec": str(cases[0][2]), "model": answers[0]})


# --------------------------------------------------------------------------- reads
def getitem_stream(run, drv):
    n = 5000 if run.tier == "quick" else 40000
    reqs, pend = [], []
    for k in range(n):
        shape, a, spec = gen_case(run)
        advanced = run.rng.random() < 0.35
        idx, proto = N.gen_index(run.rng, shape, advanced)
        td = N.holder(spec, shape)
        case = {"spec": str(spec), "index": repr(idx)}
        try:
            with time_limit(10):
                r = td[idx]
                e = r.get("a")
            impl = ["ok", N.read(e)]
            tl = N.tolist_ids(e)
        except TimeoutError:
            raise
        except Exception as ex:  # noqa: BLE001
            impl = ["err", impl_err(ex), type(ex).__name__ + ": " + str(ex)[:80]]
            tl = None
        run.case(("getitem", str(spec), repr(idx)), nontrivial=has_stack(spec))
        run.count("getitem.items", ",".join(sorted({("none" if p is None else p if isinstance(p, str) else p[0]) for p in proto})) or "empty")
        run.count("getitem.outcome", impl[0] if impl[0] == "ok" else impl[1])
        reqs.append(sx("c16.getitem", N.to_sx(spec), proto))
        pend.append((case, impl, tl, shape, a, idx, spec))
    for (case, impl, tl, shape, a, idx, spec), ans in zip(pend, ask(drv, reqs)):
        m = parse_sx(ans)
        if m[0] == "ok":
            model = ["ok", N.from_parsed(m[1])]
            cmp_impl = impl[:2] if impl[0] == "ok" else ["err", impl[1]]
        else:
            model = ["err", {"index": "index", "empty": "runtime", "shape": "index"}.get(m[1], m[1])]
            cmp_impl = impl[:2]
        run.corr("getitem(representation)", case, cmp_impl, model)
        # oracle: the payload list indexed through a torch index proxy
        try:
            pos = N.positions(shape, idx)
            want = nested(a.reshape(-1)[pos.numpy()]) if pos.ndim else a.reshape(-1)[int(pos)]
            torch_ok = True
        except Exception:  # noqa: BLE001
            torch_ok = False
        if not torch_ok:
            run.count("getitem.oracle", "torch-rejects")
            if impl[0] == "ok":
                run.count("getitem.oracle", "impl-accepts-what-torch-rejects")
            continue
        if impl[0] != "ok":
            why = "empty-selection-of-stack" if "cannot be empty" in impl[2] else _fp(idx)
            run.oracle_fail("getitem", case, f"torch accepts the index, td[idx] raises {impl[2]}", fingerprint=f"getitem:raises:{impl[1]}:{why}")
        elif tl != want:
            run.oracle_fail("getitem", case, f"td[idx].get('a').tolist()={tl} expected {want}", fingerprint=f"getitem:content:{_fp(idx)}")
        else:
            run.oracle_ok("getitem")


def _fp(idx):
    its = idx if isinstance(idx, tuple) else (idx,)
    kinds = []
    for i in its:
        kinds.append("none" if i is None else "ell" if i is Ellipsis else "int" if isinstance(i, int) else "slice" if isinstance(i, slice)
                     else "list" if isinstance(i, list) else "mask" if getattr(i, "dtype", None) == torch.bool else "tensor")
    return "+".join(sorted(set(kinds)))


# --------------------------------------------------------------------------- unbind / stack / shape ops on the representation
def structure_stream(run, drv):
    n = 2000 if run.tier == "quick" else 15000
    reqs, pend = [], []
    for _ in range(n):
        shape, a, spec = gen_case(run)
        rank = len(shape)
        td = N.holder(spec, shape)
        ops = []
        if rank:
            d = run.rng.randrange(rank)
            ds = N.spell(run.rng, d, rank)
            ops.append(("unbind", ds, lambda t, ds=ds: list(t.unbind(ds)), sx("c16.unbind", N.to_sx(spec), d),
                        lambda d=d, a=a, shape=shape: [N.take(a, i, d) for i in range(shape[d])]))
            ones = [i for i, s in enumerate(shape) if s == 1]
            if ones:
                d1 = run.rng.choice(ones)
                d1s = N.spell(run.rng, d1, rank)
                ops.append(("squeeze", d1s, lambda t, d1s=d1s: t.squeeze(d1s), sx("c16.squeeze", N.to_sx(spec), d1), lambda d1=d1, a=a: np.squeeze(a, axis=d1)))
            p = list(range(rank))
            run.rng.shuffle(p)
            ops.append(("permute", tuple(p), lambda t, p=p: t.permute(*p), sx("c16.permute", N.to_sx(spec), p), lambda p=p, a=a: np.transpose(a, p)))
        du = run.rng.randint(0, rank)
        dus = N.spell(run.rng, du, rank + 1)
        ops.append(("unsqueeze", dus, lambda t, dus=dus: t.unsqueeze(dus), sx("c16.unsqueeze", N.to_sx(spec), du), lambda du=du, a=a: np.expand_dims(a, du)))
        ops.append(("maybe_to_stack", None, None, sx("c16.tostack", N.to_sx(spec)), lambda a=a: a))
        name, arg, f, req, want_fn = run.rng.choice(ops)
        # the holder may realise an op by other means than the entry's own method (e.g. indexing): half of the time the entry is asked
        entry_level = name != "maybe_to_stack" and run.rng.random() < 0.5
        case = {"op": name + ("(entry)" if entry_level else ""), "arg": arg, "spec": str(spec)}
        try:
            with time_limit(10):
                if name == "maybe_to_stack":
                    if spec[0] == "sh" and run.rng.random() < 0.5:
                        # the other public spelling of the promotion (what `_set_item` uses for shared / memory-mapped holders)
                        case["op"] = "from_nontensordata"
                        res = NonTensorStack.from_nontensordata(td.get("a"))
                    else:
                        res = td.get("a").maybe_to_stack()
                    impl = ["ok", N.read(res)]
                    tl = N.tolist_ids(res)
                elif name == "unbind":
                    res = list(f(td.get("a"))) if entry_level else [t.get("a") for t in f(td)]
                    impl = ["ok", [N.read(x) for x in res]]
                    tl = [N.tolist_ids(x) for x in res]
                else:
                    res = f(td.get("a")) if entry_level else f(td).get("a")
                    impl = ["ok", N.read(res)]
                    tl = N.tolist_ids(res)
        except TimeoutError:
            raise
        except Exception as ex:  # noqa: BLE001
            impl = ["err", impl_err(ex), str(ex)[:80]]
            tl = None
        run.case(("structure", name, str(arg), str(spec)), nontrivial=has_stack(spec))
        run.count("structure.op", name)
        reqs.append(req)
        pend.append((case, name, impl, tl, want_fn))
    for (case, name, impl, tl, want_fn), ans in zip(pend, ask(drv, reqs)):
        m = parse_sx(ans)
        if name == "unbind":
            model = ["ok", [N.from_parsed(x) for x in m]]
        else:
            model = ["ok", N.from_parsed(m)]
        run.corr(f"{name}(representation)", case, impl[:2], model)
        want = want_fn()
        want = [nested(w) for w in want] if name == "unbind" else nested(want)
        if impl[0] != "ok":
            run.oracle_fail(name, case, f"raises {impl[2]}", fingerprint=f"{name}:raises:{impl[1]}")
        elif tl != want:
            run.oracle_fail(name, case, f"content {tl} expected {want}", fingerprint=f"{name}:content")
        else:
            run.oracle_ok(name)
    # stacking: _stack_non_tensor through torch.stack / lazy_stack of holders
    n = 1500 if run.tier == "quick" else 10000
    reqs, pend = [], []
    for _ in range(n):
        shape = N.gen_shape(run.rng, 2)
        k = run.rng.randint(1, 3)
        same = run.rng.random() < 0.4
        arrays = []
        base = N.gen_array(run.rng, shape, constant=True if run.rng.random() < 0.6 else None)
        for i in range(k):
            arrays.append(base.copy() if same else N.gen_array(run.rng, shape, constant=True if run.rng.random() < 0.6 else None))
        specs = [N.represent(x, run.rng, p_shared=0.8) for x in arrays]
        dim = run.rng.randint(0, len(shape))
        tds = [N.holder(s, shape) for s in specs]
        dims = N.spell(run.rng, dim, len(shape) + 1)
        case = {"op": "stack", "dim": dims, "specs": [str(s) for s in specs]}
        try:
            with time_limit(10):
                res = torch.stack(tds, dims).get("a")
            impl = ["ok", N.read(res)]
            tl = N.tolist_ids(res)
        except TimeoutError:
            raise
        except Exception as ex:  # noqa: BLE001
            impl = ["err", impl_err(ex), str(ex)[:80]]
            tl = None
        run.case(("stack", dim, tuple(map(str, specs))), nontrivial=len(specs) > 1)
        reqs.append(sx("c16.stack", True, [N.to_sx(s) for s in specs], dim))
        pend.append((case, impl, tl, np.stack(arrays, axis=dim)))
    for (case, impl, tl, want_a), ans in zip(pend, ask(drv, reqs)):
        model = ["ok", N.from_parsed(parse_sx(ans))]
        run.corr("stack(_stack_non_tensor)", case, impl[:2], model)
        want = nested(want_a)
        if impl[0] != "ok":
            run.oracle_fail("stack", case, f"raises {impl[2]}", fingerprint=f"stack:raises:{impl[1]}")
        elif tl != want:
            run.oracle_fail("stack", case, f"content {tl} expected {want}", fingerprint="stack:content")
        else:
            run.oracle_ok("stack")
            # representation half of the property: one shared object iff all positions agree (capture mode)
            flat = list(want_a.reshape(-1))
            all_eq = all(v == flat[0] for v in flat) if flat else True
            all_shared = all(s[0] == "sh" for s in [eval(x) for x in case["specs"]])
            if all_shared:
                is_shared = impl[1][0] == "sh"
                if is_shared == all_eq:
                    run.oracle_ok("stack.shared_iff_all_equal")
                else:
                    run.oracle_fail("stack.shared_iff_all_equal", case, f"all equal={all_eq} but result is {'shared' if is_shared else 'a stack'}",
                                    fingerprint="stack:shared_iff")


# --------------------------------------------------------------------------- writes (modelled: ints, slices, Ellipsis, one index list)
def setitem_stream(run, drv):
    n = 1500 if run.tier == "quick" else 12000
    reqs, pend = [], []
    for _ in range(n):
        shape = N.gen_shape(run.rng, 3)
        a = N.gen_array(run.rng, shape, constant=True if run.rng.random() < 0.5 else None)
        spec = N.represent(a, run.rng, p_shared=0.85)
        history = []
        td = N.holder(spec, shape)
        cur_spec = spec
        for step in range(run.rng.randint(1, 3)):
            idx, proto = N.gen_index(run.rng, shape, advanced=run.rng.random() < 0.3, allow_none=False, unique_list=run.rng.random() < 0.7, in_range=True)
            try:
                pos = N.positions(shape, idx)
            except Exception:  # noqa: BLE001
                break
            if pos.numel() == 0:
                break
            vshape = list(pos.shape)
            mode = run.rng.random()
            if mode < 0.35:
                v = N.gen_array(run.rng, vshape, constant=True)
            elif mode < 0.5:
                v = np.empty(vshape, dtype=object)
                v[...] = a.reshape(-1)[0] if a.size else "o0"
            else:
                v = N.gen_array(run.rng, vshape)
            vspec = N.represent(v, run.rng, p_shared=0.7)
            tv = N.holder(vspec, vshape)
            history.append({"index": repr(idx), "value": str(vspec)})
            case = {"start": str(spec), "history": list(history)}
            try:
                with time_limit(10):
                    td[idx] = tv
                impl = ["ok", N.read(td.get("a"))]
                tl = N.tolist_ids(td.get("a"))
            except TimeoutError:
                raise
            except Exception as ex:  # noqa: BLE001
                impl = ["err", impl_err(ex), str(ex)[:100]]
                tl = None
            flat = a.reshape(-1).copy()
            flat[pos.numpy().reshape(-1)] = v.reshape(-1)      # numpy: with duplicate positions the last write wins, as sequential assignment does
            a = flat.reshape(shape)
            run.case(("setitem", str(spec), str(history)), nontrivial=True)
            run.count("setitem.step", step)
            reqs.append(sx("c16.setitem", N.to_sx(cur_spec), proto, N.to_sx(vspec)))
            pend.append((case, impl, tl, nested(a)))
            if impl[0] != "ok":
                break
            cur_spec = impl[1]
    for (case, impl, tl, want), ans in zip(pend, ask(drv, reqs)):
        m = parse_sx(ans)
        model = ["ok", N.from_parsed(m[1])] if m[0] == "ok" else ["err", {"shape": "value", "index": "index", "empty": "runtime"}.get(m[1], m[1])]
        run.corr("setitem(representation)", case, impl[:2], model)
        if impl[0] != "ok":
            run.oracle_fail("setitem", case, f"raises {impl[2]}", fingerprint=f"write:modelled:raises:{impl[1]}")
        elif tl != want:
            run.oracle_fail("setitem", case, f"content {str(tl)[:150]} expected {str(want)[:150]}", fingerprint="write:modelled:content")
        else:
            run.oracle_ok("setitem")


# --------------------------------------------------------------------------- reshape / view / flatten / unflatten / split / chunk
def _factorisations(n, rng, max_rank=3):
    """a random shape (dims >= 1) with `n` elements"""
    dims = []
    rest = n
    for _ in range(rng.randint(1, max_rank) - 1):
        divs = [d for d in range(1, rest + 1) if rest % d == 0]
        d = rng.choice(divs)
        dims.append(d)
        rest //= d
    dims.append(rest)
    rng.shuffle(dims)
    return dims


def reshape_stream(run, drv):
    """`td.reshape(shape)` / `entry.view(shape)` / `td.flatten` / `td.unflatten` / `td.split` / `td.chunk` on holders: the
    REPRESENTATION of the resulting entry against the model (`reshapeNT`, `viewNT`, `splitNT`, `chunk`), the content
    against numpy (row-major)."""
    n = 1500 if run.tier == "quick" else 10000
    reqs, pend = [], []
    for _ in range(n):
        shape, a, spec = gen_case(run)
        rank = len(shape)
        if not rank:
            continue
        numel = int(np.prod(shape))
        td = N.holder(spec, shape, N.pick_device(run.rng))
        r = run.rng.random()
        if r < 0.45:
            target = _factorisations(numel, run.rng) if run.rng.random() < 0.8 else list(shape)
            name, arg = "reshape", target
            # (TensorDict.reshape returns the holder itself for its own shape: that case is asked of the entry, which is what the model is)
            f = (lambda t, target=target: t.get("a").reshape(*target)) if target == list(shape) else (lambda t, target=target: t.reshape(*target).get("a"))  # noqa: E731
            req = sx("c16.reshape", N.to_sx(spec), target)
            want_fn = lambda a=a, target=target: nested(a.reshape(target))     # noqa: E731
        elif r < 0.6:
            target = _factorisations(numel, run.rng)
            name, arg = "view", target
            f = lambda t, target=target: t.get("a").view(*target)              # noqa: E731
            req = sx("c16.view", N.to_sx(spec), target)
            want_fn = lambda a=a, target=target: nested(a.reshape(target))     # noqa: E731
        elif r < 0.7 and rank >= 2:
            i = run.rng.randrange(rank - 1)
            j = run.rng.randrange(i + 1, rank)
            target = shape[:i] + [int(np.prod(shape[i:j + 1]))] + shape[j + 1:]
            i_s, j_s = N.spell(run.rng, i, rank), N.spell(run.rng, j, rank)
            name, arg = "flatten", (i_s, j_s)
            f = lambda t, i=i_s, j=j_s: t.flatten(i, j).get("a")                    # noqa: E731
            req = sx("c16.reshape", N.to_sx(spec), target)
            want_fn = lambda a=a, target=target: nested(a.reshape(target))     # noqa: E731
        elif r < 0.8:
            d = run.rng.randrange(rank)
            sizes = _factorisations(shape[d], run.rng)
            target = shape[:d] + sizes + shape[d + 1:]
            ds = N.spell(run.rng, d, rank)
            name, arg = "unflatten", (ds, tuple(sizes))
            f = lambda t, d=ds, sizes=sizes: t.unflatten(d, sizes).get("a")      # noqa: E731
            req = sx("c16.reshape", N.to_sx(spec), target)
            want_fn = lambda a=a, target=target: nested(a.reshape(target))     # noqa: E731
        elif r < 0.9:
            d = run.rng.randrange(rank)
            size = run.rng.randint(1, shape[d] + 1)
            ds = N.spell(run.rng, d, rank)
            name, arg = "split", (size, ds)
            # (the holder slices its entries by indexing; the entry's own `split` — `_lazy.py:split` for a stack — is asked directly half of the time)
            if run.rng.random() < 0.5:
                name = "split(entry)"
                f = lambda t, size=size, d=ds: list(t.get("a").split(size, d))       # noqa: E731
            else:
                f = lambda t, size=size, d=ds: [x.get("a") for x in t.split(size, d)]   # noqa: E731
            req = sx("c16.split", N.to_sx(spec), size, d)
            want_fn = lambda a=a, size=size, d=d: [nested(x) for x in np.split(a, list(range(size, a.shape[d], size)), axis=d)]  # noqa: E731
        else:
            d = run.rng.randrange(rank)
            k = run.rng.randint(1, shape[d] + 1)
            ds = N.spell(run.rng, d, rank)
            name, arg = "chunk", (k, ds)
            if run.rng.random() < 0.5:
                name = "chunk(entry)"
                f = lambda t, k=k, d=ds: list(t.get("a").chunk(k, d))                # noqa: E731
            else:
                f = lambda t, k=k, d=ds: [x.get("a") for x in t.chunk(k, d)]          # noqa: E731
            req = sx("c16.chunk", N.to_sx(spec), k, d)

            def want_fn(a=a, k=k, d=d):
                size = -(-a.shape[d] // k)
                return [nested(x) for x in np.split(a, list(range(size, a.shape[d], size)), axis=d)]
        case = {"op": name, "arg": str(arg), "spec": str(spec)}
        try:
            with time_limit(10):
                res = f(td)
                if isinstance(res, list):
                    impl = ["ok", [N.read(x) for x in res]]
                    tl = [N.tolist_ids(x) for x in res]
                else:
                    impl = ["ok", N.read(res)]
                    tl = N.tolist_ids(res)
        except TimeoutError:
            raise
        except Exception as ex:  # noqa: BLE001
            impl = ["err", impl_err(ex), str(ex)[:80]]
            tl = None
        run.case(("reshape-family", name, str(arg), str(spec)), nontrivial=has_stack(spec))
        run.count("reshape.op", name)
        reqs.append(req)
        pend.append((case, name, impl, tl, want_fn))
    for (case, name, impl, tl, want_fn), ans in zip(pend, ask(drv, reqs)):
        m = parse_sx(ans)
        if name.startswith(("split", "chunk")):
            model = ["ok", [N.from_parsed(x) for x in m]]
        elif m[0] == "ok":
            model = ["ok", N.from_parsed(m[1])]
        else:
            model = ["err"]
        got = impl[:2] if impl[0] == "ok" else ["err"]
        run.corr(f"{name}(representation)", case, got, model)
        if impl[0] != "ok":
            if name == "view":
                run.count("reshape.view_raises", impl[1])          # view may refuse (not a view of a lazy stack): the model says when
                continue
            run.oracle_fail(name, case, f"raises {impl[2]}", fingerprint=f"{name}:raises:{impl[1]}")
            continue
        want = want_fn()
        if tl != want:
            run.oracle_fail(name, case, f"content {str(tl)[:150]} expected {str(want)[:150]}", fingerprint=f"{name}:content")
        else:
            run.oracle_ok(name)


# --------------------------------------------------------------------------- nested lists: _from_list, _cat_non_tensor, to_dict
def _nest_sx(x, depth=None):
    """python data -> protocol nest: a python list is a list level `(l …)`, anything else a payload atom (its id)"""
    from common import Raw
    if isinstance(x, list):
        return Raw("(l" + "".join(" " + _nest_sx(y).s for y in x) + ")")
    return Raw(N.id_of(x))


def _nest_of_parsed(p):
    """parse_sx of a nest -> python structure with payload ids at the leaves"""
    if isinstance(p, list) and p and p[0] == "l":
        return [_nest_of_parsed(y) for y in p[1:]]
    if p == ["l"]:
        return []
    return p


def _read_nested(obj):
    """a real entry -> spec whose payloads are nests of ids (a list payload shows as a list)"""
    def pay(x):
        return [pay(y) for y in x] if isinstance(x, list) else N.id_of(x)
    if isinstance(obj, NonTensorData):
        return ["sh", pay(obj.data), [int(b) for b in obj.batch_size]]
    if isinstance(obj, NonTensorStack):
        return ["st", int(obj.stack_dim), [_read_nested(m) for m in obj.tensordicts]]
    return ["other", type(obj).__name__]


def _spec_of_parsed_nested(p):
    if p[0] == "sh":
        return ["sh", _nest_of_parsed(p[1]), list(p[2])]
    return ["st", p[1], [_spec_of_parsed_nested(m) for m in p[2:]]]


def nested_stream(run, drv):
    """`NonTensorStack._from_list(entry.tolist(), ndim)` (what memmap / pickle loading rebuilds an entry with), `_cat_non_tensor`
    (torch.cat of holders) and `to_dict`: representation against the model (`fromListN`, `catNT`, `toDictNT`).  For `_from_list` the
    payload pool keeps its python LIST payload (o3 = [1, 'a']): the data is sent to the model with its JSON structure, and with
    `ndim=None` the code takes the list payload for a batch level — the model predicts exactly that.  `cat` / `to_dict` carry payloads
    as atoms (no list payload drawn)."""
    n = 1200 if run.tier == "quick" else 8000
    reqs, pend = [], []

    def no_list_payload(arr):
        arr = arr.copy()
        arr[arr == "o3"] = "o0"
        return arr
    for _ in range(n):
        shape = N.gen_shape(run.rng, 3)
        rank = len(shape)
        if not rank:
            continue
        a = N.gen_array(run.rng, shape)
        r = run.rng.random()
        tl = want = None
        if r < 0.4:
            spec = N.represent(a, run.rng)
            try:
                entry = N.build(spec)
                data = entry.tolist()                       # real payloads (a list payload is a python list)
            except Exception as ex:  # noqa: BLE001
                run.oracle_fail("tolist", {"op": "tolist (preparing from_list)", "spec": str(spec)}, f"raises {str(ex)[:120]}", fingerprint=f"tolist:raises:{impl_err(ex)}")
                continue
            with_ndim = run.rng.random() < 0.5
            name = "from_list(ndim)" if with_ndim else "from_list"
            f = lambda data=data, with_ndim=with_ndim, rank=rank: NonTensorStack._from_list(data, device=None, ndim=rank if with_ndim else None)   # noqa: E731
            req = sx("c16.fromlist", rank - 1 if with_ndim else 9, *[_nest_sx(x) for x in data])
            case = {"op": name, "spec": str(spec)}
        elif r < 0.8:
            a = no_list_payload(a)
            spec = N.represent(a, run.rng)
            d = run.rng.randrange(rank)
            others = []
            for _j in range(run.rng.randint(1, 3)):
                sh2 = list(shape)
                sh2[d] = run.rng.choice([1, 2, 3])
                a2 = no_list_payload(N.gen_array(run.rng, sh2, constant=True if run.rng.random() < 0.4 else None))
                if run.rng.random() < 0.3:                     # the same constant as the first item: the shared branch
                    a2 = np.empty(sh2, dtype=object)
                    a2[...] = a.reshape(-1)[0]
                others.append((sh2, a2, N.represent(a2, run.rng)))
            specs = [spec] + [o[2] for o in others]
            shapes = [shape] + [o[0] for o in others]
            holder_level = run.rng.random() < 0.5
            dev = N.pick_device(run.rng)
            name = "cat(holders)" if holder_level else "cat"
            ds = N.spell(run.rng, d, len(shape))
            if holder_level:
                f = lambda specs=specs, d=ds, dev=dev, shapes=shapes: torch.cat([N.holder(sp, shp, dev) for sp, shp in zip(specs, shapes)], d).get("a")  # noqa: E731
            else:
                f = lambda specs=specs, d=ds: NonTensorData._cat_non_tensor([N.build(sp) for sp in specs], d)   # noqa: E731
            req = sx("c16.cat", d, *[N.to_sx(sp) for sp in specs])
            case = {"op": name, "dim": ds, "specs": [str(sp) for sp in specs]}
            want = nested(np.concatenate([a] + [o[1] for o in others], axis=d))
        else:
            a = no_list_payload(a)
            spec = N.represent(a, run.rng)
            name = "to_dict"
            f = None
            req = sx("c16.todict", N.to_sx(spec))
            case = {"op": name, "spec": str(spec)}

        def pay(x):
            return [pay(y) for y in x] if isinstance(x, list) else N.id_of(x)
        try:
            with time_limit(10):
                if name == "to_dict":
                    impl = ["ok", pay(N.holder(spec, shape).to_dict()["a"])]
                else:
                    res = f()
                    impl = ["ok", _read_nested(res)]
                    if name.startswith("cat"):
                        tl = N.tolist_ids(res)
        except TimeoutError:
            raise
        except Exception as ex:  # noqa: BLE001
            impl = ["err", impl_err(ex), str(ex)[:80]]
        run.case(("nested", name, str(case)), nontrivial=True)
        run.count("nested.op", name)
        reqs.append(req)
        pend.append((case, name, impl, tl, want))
    for (case, name, impl, tl, want), ans in zip(pend, ask(drv, reqs)):
        m = parse_sx(ans)
        if name == "to_dict":
            run.corr("to_dict(representation)", case, impl[:2], ["ok", _nest_of_parsed(m)])
            continue
        if name.startswith("from_list"):
            model = ["ok", _spec_of_parsed_nested(m[1])] if m[0] == "ok" else ["err"]
        else:
            model = ["ok", _spec_of_parsed_nested(m)]
        run.corr(f"{name}(representation)", case, impl[:2] if impl[0] == "ok" else ["err"], model)
        if name.startswith("cat"):
            if impl[0] != "ok":
                run.oracle_fail("cat", case, f"raises {impl[2]}", fingerprint=f"cat:raises:{impl[1]}")
            elif tl != want:
                run.oracle_fail("cat", case, f"content {str(tl)[:150]} expected {str(want)[:150]}", fingerprint="cat:content")
            else:
                run.oracle_ok("cat")


# --------------------------------------------------------------------------- in-place update of an entry
def update_entry_stream(run, drv):
    """in-place update of a non-tensor entry by another of the same batch shape, random representations on both sides: entry level
    (`dest.update_(src)`, `dest.update(src, inplace=True)`) and through the holder (`td.set("a", src, inplace=True)`): the REPRESENTATION
    of the updated entry (or the refusal) against the model `updateNT`; when it succeeds the content must be the source's."""
    n = 700 if run.tier == "quick" else 5000
    reqs, pend = [], []
    for _ in range(n):
        shape = N.gen_shape(run.rng, 3)
        a = N.gen_array(run.rng, shape, constant=True if run.rng.random() < 0.4 else None)
        a2 = N.gen_array(run.rng, shape, constant=True if run.rng.random() < 0.4 else None)
        spec, spec2 = N.represent(a, run.rng), N.represent(a2, run.rng)
        how = run.rng.choice(["update_", "update(inplace)", "set(inplace)"])
        if how == "set(inplace)" and nested(a) == nested(a2):
            how = "update_"          # (the holder leaves an entry alone when the new content equals the old: nothing reaches the entry)
        case = {"op": how, "dest": str(spec), "src": str(spec2)}
        try:
            with time_limit(10):
                dest, src = N.build(spec), N.build(spec2)
                if how == "update_":
                    dest.update_(src)
                elif how == "update(inplace)":
                    dest.update(src, inplace=True)
                else:
                    td = N.holder(dest, shape)
                    td.set("a", src, inplace=True)
                    dest = td.get("a")
            impl = ["ok", N.read(dest)]
            tl = N.tolist_ids(dest) if shape else N.id_of(dest.data)
        except TimeoutError:
            raise
        except Exception as ex:  # noqa: BLE001
            impl = ["err", impl_err(ex), str(ex)[:80]]
            tl = None
        run.case(("update-entry", how, str(spec), str(spec2)), nontrivial=has_stack(spec) or has_stack(spec2))
        run.count("update_entry.outcome", f"{how}:{impl[0]}")
        reqs.append(sx("c16.update", N.to_sx(spec), N.to_sx(spec2)))
        pend.append((case, impl, tl, nested(a2) if shape else a2.item()))
    for (case, impl, tl, want), ans in zip(pend, ask(drv, reqs)):
        m = parse_sx(ans)
        model = ["ok", N.from_parsed(m[1])] if m[0] == "ok" else ["err"]
        run.corr("update(entry, in place)(representation)", case, impl[:2] if impl[0] == "ok" else ["err"], model)
        if impl[0] == "ok":
            if tl != want:
                run.oracle_fail("update-entry", case, f"content {str(tl)[:150]} expected {str(want)[:150]}", fingerprint=f"update-entry:{case['op']}:content")
            else:
                run.oracle_ok("update-entry")
        else:
            # an array of objects can always be overwritten by another of the same shape: a refusal depends on how the two entries
            # happen to be represented (a shared node of the destination facing a stacked part of the source)
            run.oracle_fail("update-entry", case, f"same batch shape, yet the in-place update is refused: {impl[2]}", fingerprint=f"update-entry:{case['op']}:refused")


def update_at_entry_stream(run):
    """`entry.update_at_(value, index)` on the entry itself (oracle only): an entry may refuse a partial update (a shared node cannot
    take a part: explicit error, counted); when it accepts, exactly the selected positions hold the new object."""
    n = 300 if run.tier == "quick" else 2500
    for _ in range(n):
        shape = N.gen_shape(run.rng, 3)
        if not shape:
            continue
        a = N.gen_array(run.rng, shape, constant=True if run.rng.random() < 0.4 else None)
        spec = N.represent(a, run.rng)
        idx, _ = N.gen_index(run.rng, shape, allow_none=False, in_range=True)
        try:
            pos = N.positions(shape, idx if isinstance(idx, tuple) else (idx,))
        except Exception:  # noqa: BLE001
            continue
        if pos.numel() == 0:
            continue
        used = set(a.reshape(-1))
        fresh = run.rng.choice([i for i in N.IDS if i not in used] or N.IDS)
        case = {"op": "update_at_(entry)", "spec": str(spec), "index": repr(idx), "value": fresh}
        run.case(("update-at-entry", str(spec), repr(idx)), nontrivial=has_stack(spec))
        try:
            with time_limit(10):
                e = N.build(spec)
                e.update_at_(NonTensorData(N.payload(fresh), batch_size=list(pos.shape)), idx)
                got = N.tolist_ids(e)
        except TimeoutError:
            raise
        except Exception as ex:  # noqa: BLE001
            run.count("update_at_entry.outcome", "refused:" + impl_err(ex))
            continue
        flat = a.reshape(-1).copy()
        flat[pos.numpy().reshape(-1)] = fresh
        want = nested(flat.reshape(shape))
        run.count("update_at_entry.outcome", "written")
        if got != want:
            run.oracle_fail("update-at-entry", case, f"content {str(got)[:150]} expected {str(want)[:150]}",
                            fingerprint=f"update-at-entry:{'stack' if has_stack(spec) else 'shared'}:content")
        else:
            run.oracle_ok("update-at-entry")


def storage_setitem_stream(run, drv):
    """CORRESPONDENCE for the finding C16-storage-holder-write-dropped: `td[idx] = value` on a memory-mapped / shared-memory holder.
    Whenever the real write is ACCEPTED, the representation of the entry afterwards must be what the model `storageSet`
    (no promotion; shared nodes swallow the write) computes.  Refusals are counted (the model is not asked to predict them: they
    depend on the storage kind).  Shared-memory holders get str payloads only (another finding: a shared slot is refilled by type)."""
    import shutil
    import tempfile
    from common import BUILD
    n = 250 if run.tier == "quick" else 2000
    reqs, pend = [], []
    scratch = tempfile.mkdtemp(prefix="c16s_", dir=str(BUILD))
    try:
        for it in range(n):
            shape = N.gen_shape(run.rng, 3)
            if not shape:
                continue
            kind = run.rng.choice(["memmap", "shared"])
            pool = ["o0", "o8"] if kind == "shared" else N.IDS
            a = np.empty(shape, dtype=object)
            flat = a.reshape(-1)
            const = run.rng.choice(pool) if run.rng.random() < 0.4 else None
            for i in range(flat.size):
                flat[i] = const or run.rng.choice(pool)
            a = flat.reshape(shape)
            spec = N.represent(a, run.rng, p_shared=0.6)
            if spec[0] != "st":
                continue
            idx, proto = N.gen_index(run.rng, shape, advanced=run.rng.random() < 0.2, allow_none=False, unique_list=True, in_range=True)
            try:
                pos = N.positions(shape, idx)
            except Exception:  # noqa: BLE001
                continue
            if pos.numel() == 0:
                continue
            vshape = list(pos.shape)
            v = np.empty(vshape, dtype=object)
            v[...] = run.rng.choice([p for p in pool if p not in set(a.reshape(-1))] or pool)
            vspec = N.represent(v, run.rng, p_shared=0.8)
            case = {"holder": kind, "spec": str(spec), "index": repr(idx), "value": str(vspec)}
            try:
                with time_limit(20):
                    td = N.holder(spec, shape)
                    if kind == "memmap":
                        td.memmap_(os.path.join(scratch, f"s{it}"))
                    else:
                        td.share_memory_()
                    td[idx] = N.holder(vspec, vshape)
                    impl = N.read(td.get("a"))
            except TimeoutError:
                raise
            except Exception as ex:  # noqa: BLE001
                run.count("storage_setitem.outcome", f"{kind}:refused:{impl_err(ex)}")
                continue
            run.case(("storage-setitem", kind, str(spec), repr(idx)), nontrivial=True)
            run.count("storage_setitem.outcome", f"{kind}:accepted")
            # k = how many dims the WRITTEN index addresses (an Ellipsis is expanded into explicit full slices by the library)
            k = len(shape) if "ell" in proto else sum(1 for p in proto if p is not None)
            reqs.append(sx("c16.storageset", N.to_sx(spec), proto, k, N.to_sx(vspec)))
            pend.append((case, impl))
    finally:
        shutil.rmtree(scratch, ignore_errors=True)
    for (case, impl), ans in zip(pend, ask(drv, reqs)):
        m = parse_sx(ans)
        model = ["ok", N.from_parsed(m[1])] if m[0] == "ok" else ["err", m[1]]
        run.corr("setitem on a shared / memory-mapped holder(representation)", case, ["ok", impl], model)
