"""C03 — two-step histories (property oracle only): `r = td[idx1]; r[idx2] = v` and `td[idx1][idx2]`.

The first checks the aliasing clause behaviourally: writing through the result of a read must change the source exactly when
writing through torch's result changes the source tensor (basic idx1: view; advanced idx1: copy), and change exactly the same
elements. The second checks that an indexed result is itself a well-formed tensordict for the next index (batch size, leaves)."""
from __future__ import annotations

import json

import torch

import c03_gen as G
import c03_streams as S
from common import err_class, time_limit

TL = S.TL


def histories(run, drv):
    rng = run.rng
    n = 1500 if run.tier == "quick" else 12000
    for _ in range(n):
        bs = G.gen_bs(rng)
        idx1 = G.gen_index(rng, bs, p_bad=0.0, p_overrun=0.0)
        if sum(1 for t in G.items_of(idx1) if t == G.ELL) > 1:
            continue
        try:
            bs2 = list(torch.zeros(bs)[G.index_py(idx1)].shape)
        except Exception:
            continue
        idx2 = G.gen_index_adv(rng, bs2) if rng.random() < 0.2 else G.gen_index(rng, bs2, p_bad=0.03, p_overrun=0.03)
        if sum(1 for t in G.items_of(idx2) if t == G.ELL) > 1:
            continue
        spec = S.gen_td_spec(rng, bs)
        spec["nested"], spec["names"] = [], None
        mode = rng.choice(["read-read", "read-write"])
        run.count("hist.mode", mode + ":" + G.stage_of(idx1) + "/" + G.stage_of(idx2))
        run.case(("hist", mode, json.dumps(spec, sort_keys=True), G.index_sx(idx1), G.index_sx(idx2)))
        case = {"mode": "history-" + mode, "td": spec, "idx": idx1, "idx_str": G.index_json(idx1), "idx2": idx2, "idx2_str": G.index_json(idx2)}
        td = S.build_td(spec)
        p1, p2 = G.index_py(idx1), G.index_py(idx2)
        # torch reference on every leaf (clones), feature dims protected from the Ellipsis
        ref, terr = {}, None
        for k, f in enumerate(spec["feats"]):
            x = td.get(f"l{k}").clone()
            try:
                r = x[S.pad_for_leaf(idx1, len(f))]
                if mode == "read-read":
                    ref[k] = r[S.pad_for_leaf(idx2, len(f))]
                else:
                    r[S.pad_for_leaf(idx2, len(f))] = -1
                    ref[k] = x
            except Exception as e:
                terr = err_class(e)
                break
        try:
            proxy2 = torch.zeros(bs2)[p2]
        except Exception:
            proxy2 = None
        try:
            with time_limit(TL):
                r = td[p1]
                if mode == "read-read":
                    out = r[p2]
                    got = {k: out.get(f"l{k}") for k in range(len(spec["feats"]))}
                    got_bs = list(out.batch_size)
                else:
                    r[p2] = -1
                    got = {k: td.get(f"l{k}") for k in range(len(spec["feats"]))}
            ok = True
        except TimeoutError:
            raise
        except Exception as e:
            ok, what = False, f"{type(e).__name__}: {str(e)[:100]}"
        if proxy2 is None:
            if ok:
                run.oracle_fail("history", case, "torch rejects the second index on the batch shape of the first result; the tensordict accepted it", "history:" + S.classify_accept({"bs": bs2}, idx2))
            else:
                run.oracle_ok("history")
            continue
        if terr is not None:
            # torch accepts on the batch shape but not on some leaf (value / feature interplay): nothing to judge
            run.oracle_ok("history")
            continue
        if not ok:
            run.oracle_fail("history", case, f"torch accepts both steps on every entry; the tensordict raised {what}", "history:raises:" + G.stage_of(idx1) + "/" + G.stage_of(idx2))
            continue
        probs = []
        if mode == "read-read" and got_bs != list(proxy2.shape):
            probs.append(f"batch_size {got_bs} but torch gives {list(proxy2.shape)}")
        for k in range(len(spec["feats"])):
            if got[k].shape != ref[k].shape or not torch.equal(got[k], ref[k]):
                probs.append(f"l{k}: {got[k].reshape(-1).tolist()[:12]} expected {ref[k].reshape(-1).tolist()[:12]}")
        if probs:
            run.oracle_fail("history", case, "; ".join(probs)[:400], "history:values:" + mode + ":" + G.stage_of(idx1) + "/" + G.stage_of(idx2))
        else:
            run.oracle_ok("history")
