"""C03 — two-step histories (property oracle only): `r = td[idx1]; r[idx2] = v` and `td[idx1][idx2]`.

The first checks the aliasing clause behaviourally: writing through the result of a read must change the source exactly when
writing through torch's result changes the source tensor (basic idx1: view; advanced idx1: copy), and change exactly the same
elements. The second checks that an indexed result is itself a well-formed tensordict for the next index (batch size, leaves)."""
from __future__ import annotations

import json

import torch

import c03_gen as G
import c03_streams as S
from common import err_class, time_limit

TL = S.TL


def histories(run, drv):
    rng = run.rng
    n = 1500 if run.tier == "quick" else 12000
    for _ in range(n):
        bs = G.gen_bs(rng)
        idx1 = G.gen_index(rng, bs, p_bad=0.0, p_overrun=0.0)
        if sum(1 for t in G.items_of(idx1) if t == G.ELL) > 1:
            continue
        try:
            bs2 = list(torch.zeros(bs)[G.index_py(idx1)].shape)
        except Exception:
            continue
        idx2 = G.gen_index_adv(rng, bs2) if rng.random() < 0.2 else G.gen_index(rng, bs2, p_bad=0.03, p_overrun=0.03)
        if sum(1 for t in G.items_of(idx2) if t == G.ELL) > 1:
            continue
        spec = S.gen_td_spec(rng, bs)
        spec["nested"], spec["names"] = [], None
        mode = rng.choice(["read-read", "read-write"])
        run.count("hist.mode", mode + ":" + G.stage_of(idx1) + "/" + G.stage_of(idx2))
        run.case(("hist", mode, json.dumps(spec, sort_keys=True), G.index_sx(idx1), G.index_sx(idx2)))
        case = {"mode": "history-" + mode, "td": spec, "idx": idx1, "idx_str": G.index_json(idx1), "idx2": idx2, "idx2_str": G.index_json(idx2)}
        td = S.build_td(spec)
        p1, p2 = G.index_py(idx1), G.index_py(idx2)
        # torch reference on every leaf (clones), feature dims protected from the Ellipsis
        ref, terr = {}, None
        for k, f in enumerate(spec["feats"]):
            x = td.get(f"l{k}").clone()
            try:
                r = x[S.pad_for_leaf(idx1, len(f))]
                if mode == "read-read":
                    ref[k] = r[S.pad_for_leaf(idx2, len(f))]
                else:
                    r[S.pad_for_leaf(idx2, len(f))] = -1
                    ref[k] = x
            except Exception as e:
                terr = err_class(e)
                break
        try:
            proxy2 = torch.zeros(bs2)[p2]
        except Exception:
            proxy2 = None
        try:
            with time_limit(TL):
                r = td[p1]
                if mode == "read-read":
                    out = r[p2]
                    got = {k: out.get(f"l{k}") for k in range(len(spec["feats"]))}
                    got_bs = list(out.batch_size)
                else:
                    r[p2] = -1
                    got = {k: td.get(f"l{k}") for k in range(len(spec["feats"]))}
            ok = True
        except TimeoutError:
            raise
        except Exception as e:
            ok, what = False, f"{type(e).__name__}: {str(e)[:100]}"
        if proxy2 is None:
            if ok:
                run.oracle_fail("history", case, "torch rejects the second index on the batch shape of the first result; the tensordict accepted it", "history:" + S.classify_accept({"bs": bs2}, idx2))
            else:
                run.oracle_ok("history")
            continue
        if terr is not None:
            # torch accepts on the batch shape but not on some leaf (value / feature interplay): nothing to judge
            run.oracle_ok("history")
            continue
        if not ok:
            run.oracle_fail("history", case, f"torch accepts both steps on every entry; the tensordict raised {what}", "history:raises:" + G.stage_of(idx1) + "/" + G.stage_of(idx2))
            continue
        probs = []
        if mode == "read-read" and got_bs != list(proxy2.shape):
            probs.append(f"batch_size {got_bs} but torch gives {list(proxy2.shape)}")
        for k in range(len(spec["feats"])):
            if got[k].shape != ref[k].shape or not torch.equal(got[k], ref[k]):
                probs.append(f"l{k}: {got[k].reshape(-1).tolist()[:12]} expected {ref[k].reshape(-1).tolist()[:12]}")
        if probs:
            run.oracle_fail("history", case, "; ".join(probs)[:400], "history:values:" + mode + ":" + G.stage_of(idx1) + "/" + G.stage_of(idx2))
        else:
            run.oracle_ok("history")


# ----------------------------------------------------------------------------- re-reads with a mutated index object
def _mutable_index(rng, bs):
    """an index holding ONE mutable object (mask tensor / numpy mask / int tensor / numpy ints / list) on dim 0, two contents for it"""
    n = bs[0]
    kind = rng.choice(["mask", "npmask", "tensor", "nparray", "list"])
    if kind in ("mask", "npmask"):
        a = [rng.random() < 0.5 for _ in range(n)]
        b = [rng.random() < 0.5 for _ in range(n)]
        if sum(a) == sum(b):
            b = [not x for x in a] if n % 2 or sum(a) * 2 != n else [True] * n
        obj = torch.tensor(a, dtype=torch.bool) if kind == "mask" else __import__("numpy").array(a, dtype=bool)
        new = torch.tensor(b, dtype=torch.bool) if kind == "mask" else __import__("numpy").array(b, dtype=bool)
    else:
        L1, L2 = rng.randint(1, 3), rng.randint(1, 3)
        a = [rng.randrange(-n, n) for _ in range(L1)]
        b = [rng.randrange(-n, n) for _ in range(L1 if kind != "list" else L2)]
        if kind == "tensor":
            obj, new = torch.tensor(a), torch.tensor(b)
        elif kind == "nparray":
            np = __import__("numpy")
            obj, new = np.array(a), np.array(b)
        else:
            obj, new = list(a), list(b)
    rest = []
    for d in bs[1:]:
        r = rng.random()
        rest.append(slice(None) if r < 0.5 else (rng.randrange(-d, d) if d else slice(None)) if r < 0.8 else slice(0, d, 2))
    tail = rng.choice([len(rest), len(rest), 0])
    form = rng.choice(["bare", "tuple"]) if tail == 0 else "tuple"
    items = [obj] + rest[:tail]
    if rng.random() < 0.3:
        items.insert(1, None)
    index = obj if form == "bare" else tuple(items)
    return kind, obj, new, index


def _mutate(obj, new):
    if isinstance(obj, list):
        obj[:] = new
    else:
        obj[...] = new


def rereads(run, drv):
    """a (locked or unlocked) tensordict read twice with the SAME index object whose CONTENT was changed in place in between:
    each read must give what torch gives for the index as it is at the time of the read (nothing about an index may be
    remembered by identity). Property oracle only."""
    rng = run.rng
    n = 600 if run.tier == "quick" else 5000
    for _ in range(n):
        bs = [b for b in G.gen_bs(rng) if b > 0] or [3]
        spec = S.gen_td_spec(rng, bs)
        spec["names"] = None
        locked = rng.random() < 0.7
        kind, obj, new, index = _mutable_index(rng, bs)
        run.count("hist.reread", f"{kind}:{'locked' if locked else 'unlocked'}")
        run.case(("reread", json.dumps(spec, sort_keys=True), kind, repr(index)[:80], locked))
        td = S.build_td(spec)
        if locked:
            td.lock_()
        case = {"mode": "reread", "td": spec, "idx": ["single", ["none"]], "idx_str": repr(index)[:200], "index_kind": kind, "locked": locked,
                "new_content": new.tolist() if hasattr(new, "tolist") else list(new)}
        probs = []
        for step in (0, 1):
            if step == 1:
                _mutate(obj, new)
            try:
                ref = torch.zeros(bs)[index]
            except Exception:
                break
            try:
                with time_limit(TL):
                    r = td[index]
            except TimeoutError:
                raise
            except Exception as e:
                probs.append(f"read {step + 1}: torch accepts the index (result {list(ref.shape)}); the tensordict raised {type(e).__name__}: {str(e)[:80]}")
                break
            if list(r.batch_size) != list(ref.shape):
                probs.append(f"read {step + 1}: batch_size {list(r.batch_size)} but torch gives {list(ref.shape)} for the index as it is now")
                continue
            for k, f in enumerate(spec["feats"]):
                want = td.get(f"l{k}")[index]
                got = r.get(f"l{k}")
                if got.shape != want.shape or not torch.equal(got, want):
                    probs.append(f"read {step + 1}: l{k} shape {list(got.shape)} {got.reshape(-1).tolist()[:8]} expected shape {list(want.shape)} {want.reshape(-1).tolist()[:8]}")
            for j, (extra, feats) in enumerate(spec["nested"]):
                sub = r.get(f"n{j}")
                if list(sub.batch_size) != list(ref.shape) + list(extra):
                    probs.append(f"read {step + 1}: nested n{j} batch_size {list(sub.batch_size)} expected {list(ref.shape) + list(extra)}")
        if probs:
            run.oracle_fail("history-reread", case, "; ".join(probs)[:400], f"reread:{kind}:{'locked' if locked else 'unlocked'}")
        else:
            run.oracle_ok("history-reread")


# ----------------------------------------------------------------------------- two-level sub-tensordicts, judged on the root
def _simple_index(rng, n, allow_adv=True):
    """an index for ONE dim of size n (n > 0): (python object, kind)"""
    import numpy as np
    r = rng.random()
    if r < 0.25:
        return rng.randrange(-n, n), "int"
    if r < 0.5:
        a = rng.randrange(0, n)
        return slice(a, rng.randint(a, n), rng.choice([None, 1, 2])), "slice"
    if not allow_adv:
        return slice(None), "slice"
    L = rng.randint(1, 3)
    vals = [rng.randrange(-n, n) for _ in range(L)]
    vals = list(dict.fromkeys(v % n for v in vals))          # distinct rows: the write is then independent of the write order
    k = rng.choice(["tensor", "list", "nparray", "range", "mask"])
    if k == "tensor":
        return torch.tensor(vals), k
    if k == "list":
        return list(vals), k
    if k == "nparray":
        return np.array(vals), k
    if k == "range":
        return range(0, n, 2), k
    m = [i in vals for i in range(n)]
    return torch.tensor(m, dtype=torch.bool), k


def subsub(run, drv):
    """`outer = source._get_sub_tensordict(i1); inner = outer._get_sub_tensordict(i2); inner[i3] = value` (also `inner.set_` and
    a lazy stack as source): a sub-tensordict is a write-through window, so the ROOT source must end up with exactly the
    elements `[i1][i2][i3]` of every entry replaced (computed by composing the three indices on a provenance tensor) and
    nothing else changed. Property oracle only."""
    from tensordict import LazyStackedTensorDict, TensorDict
    rng = run.rng
    n = 700 if run.tier == "quick" else 6000
    for _ in range(n):
        bs = [rng.randint(2, 4) for _ in range(rng.choice([2, 3]))]
        feats = [[], [2]] if rng.random() < 0.6 else [[]]
        source_kind = "td" if rng.random() < 0.8 else "lazy"
        i1, k1 = _simple_index(rng, bs[0])
        try:
            s1 = list(torch.zeros(bs)[i1].shape)
        except Exception:
            continue
        if not s1 or s1[0] == 0:
            continue
        i2, k2 = _simple_index(rng, s1[0])
        try:
            s2 = list(torch.zeros(s1)[i2].shape)
        except Exception:
            continue
        if not s2 or s2[0] == 0:
            continue
        i3, k3 = _simple_index(rng, s2[0])
        try:
            s3 = list(torch.zeros(s2)[i3].shape)
        except Exception:
            continue
        vkind = rng.choice(["scalar", "tensor", "tensordict", "dict", "set_"])
        run.count("hist.subsub", f"{source_kind}:{k1}/{k2}/{k3}:{vkind}")
        run.case(("subsub", source_kind, json.dumps(bs), repr((i1, i2, i3))[:120], vkind))
        case = {"mode": "sub-of-sub-write", "td": {"bs": bs, "feats": feats}, "idx": ["single", ["none"]],
                "idx_str": f"source={source_kind} outer={i1!r} inner={i2!r} write={i3!r} value={vkind}"[:300]}
        leaves = {f"l{k}": S.prov(bs + f).clone() for k, f in enumerate(feats)}
        td = TensorDict({k: v.clone() for k, v in leaves.items()}, batch_size=bs)
        root = td
        if source_kind == "lazy":
            root = LazyStackedTensorDict.lazy_stack(list(td.unbind(0)), 0)
        # expected content of every entry of the root
        expected = {}
        for k, f in enumerate(feats):
            e = leaves[f"l{k}"].clone()
            offs = S.prov(bs + f)[i1][i2][i3].reshape(-1)
            e.view(-1)[offs] = -1
            expected[f"l{k}"] = e
        try:
            with time_limit(TL):
                outer = root._get_sub_tensordict(i1)
                inner = outer._get_sub_tensordict(i2)
                if vkind == "scalar":
                    inner[i3] = -1
                elif vkind == "tensor":
                    inner[i3] = torch.tensor(-1)
                elif vkind == "tensordict":
                    inner[i3] = TensorDict({f"l{k}": torch.full(s3 + f, -1) for k, f in enumerate(feats)}, batch_size=s3)
                elif vkind == "dict":
                    inner[i3] = {f"l{k}": torch.full(s3 + f, -1) for k, f in enumerate(feats)}
                else:
                    for k, f in enumerate(feats):
                        cur = inner.get(f"l{k}").clone()
                        cur[i3] = -1
                        inner.set_(f"l{k}", cur)
                got = {f"l{k}": (root.get(f"l{k}") if source_kind == "td" else root.to_tensordict().get(f"l{k}")) for k in range(len(feats))}
            ok = True
        except TimeoutError:
            raise
        except Exception as e:
            ok, what = False, f"{type(e).__name__}: {str(e)[:120]}"
        site = "history-subsub" if source_kind == "td" else "history-subsub-lazy"
        judge = run
        if not ok:
            judge.oracle_fail(site, case, f"the three indices are valid for torch; the write through the sub-tensordict raised {what}", f"subsub:raises:{source_kind}:{vkind}")
            continue
        probs = []
        for key, e in expected.items():
            if got[key].shape != e.shape or not torch.equal(got[key], e):
                changed = int((got[key] != leaves[key]).sum())
                probs.append(f"{key} of the root: {changed} elements changed, expected {int((e != leaves[key]).sum())} ({got[key].reshape(-1).tolist()[:12]} vs {e.reshape(-1).tolist()[:12]})")
        if probs:
            judge.oracle_fail(site, case, "; ".join(probs)[:400], f"subsub:root-content:{source_kind}:{'adv' if k1 not in ('int', 'slice') else 'basic'}-outer")
        else:
            judge.oracle_ok(site)


class _CountOnly:
    """outside the verdict domain (lazy-stack sources): failures are counted in the evidence, not judged"""
    def __init__(self, run):
        self.run = run

    def oracle_fail(self, site, case, what, fingerprint=None):
        self.run.count("hist.subsub.lazy.observed", fingerprint or site)

    def oracle_ok(self, site):
        self.run.count("hist.subsub.lazy.observed", "ok")


# ----------------------------------------------------------------------------- locked / shared / memory-mapped tensordicts
def flagged(run, drv):
    """the same reads and scalar writes on a locked, a shared (`share_memory_`) and a memory-mapped (`memmap_`) tensordict:
    `_index_tensordict` and `_set_at_str` have branches for them. Property oracle only."""
    import shutil
    import tempfile
    from common import BUILD
    rng = run.rng
    n = 300 if run.tier == "quick" else 2500
    BUILD.mkdir(exist_ok=True)
    tmp = tempfile.mkdtemp(prefix="c03_memmap_", dir=str(BUILD))
    try:
        for i in range(n):
            bs = G.gen_bs(rng)
            idx = G.gen_index_adv(rng, bs) if rng.random() < 0.2 else G.gen_index(rng, bs, p_bad=0.04, p_overrun=0.04)
            if sum(1 for t in G.items_of(idx) if t == G.ELL) > 1:
                continue
            spec = S.gen_td_spec(rng, bs)
            spec["names"], spec["nested"] = None, []
            flag = rng.choice(["locked", "shared", "memmap"])
            mode = rng.choice(["read", "write"])
            run.count("hist.flagged", f"{flag}:{mode}")
            run.case(("flagged", flag, mode, json.dumps(spec, sort_keys=True), G.index_sx(idx)))
            case = {"mode": f"{flag}-{mode}", "td": spec, "idx": idx, "idx_str": G.index_json(idx)}
            py = G.index_py(idx)
            td = S.build_td(spec)
            before = {k: td.get(f"l{k}").clone() for k in range(len(spec["feats"]))}
            try:
                if flag == "locked":
                    td.lock_()
                elif flag == "shared":
                    td.share_memory_()
                else:
                    td.memmap_(f"{tmp}/{i}")
            except Exception:
                run.count("hist.flagged", f"{flag}:unbuildable")
                continue
            try:
                proxy = list(torch.zeros(bs)[py].shape)
            except Exception:
                proxy = None
            try:
                with time_limit(TL):
                    if mode == "read":
                        r = td[py]
                        got = [r.get(f"l{k}") for k in range(len(spec["feats"]))]
                        got_bs = list(r.batch_size)
                    else:
                        td[py] = -1
                        got = [td.get(f"l{k}").clone() for k in range(len(spec["feats"]))]
                ok = True
            except TimeoutError:
                raise
            except Exception as e:
                ok, what = False, f"{type(e).__name__}: {str(e)[:100]}"
            if proxy is None:
                if ok:
                    run.oracle_fail("history-flagged", case, f"torch rejects this index on the batch shape; the {flag} tensordict accepted it", f"flagged:{flag}:" + S.classify_accept(spec, idx))
                else:
                    run.oracle_ok("history-flagged")
                continue
            if not ok:
                run.oracle_fail("history-flagged", case, f"torch accepts this index; the {flag} tensordict raised {what}", f"flagged:{flag}:{mode}:raises")
                continue
            probs = []
            if mode == "read" and got_bs != proxy:
                probs.append(f"batch_size {got_bs} but torch gives {proxy}")
            for k, f in enumerate(spec["feats"]):
                if mode == "read":
                    want = before[k][S.pad_for_leaf(idx, len(f))]
                else:
                    want = before[k].clone()
                    want[S.pad_for_leaf(idx, len(f))] = -1
                if got[k].shape != want.shape or not torch.equal(torch.as_tensor(got[k]), want):
                    probs.append(f"l{k}: {torch.as_tensor(got[k]).reshape(-1).tolist()[:10]} expected {want.reshape(-1).tolist()[:10]}")
            if probs:
                run.oracle_fail("history-flagged", case, "; ".join(probs)[:400], f"flagged:{flag}:{mode}:values")
            else:
                run.oracle_ok("history-flagged")
    finally:
        shutil.rmtree(tmp, ignore_errors=True)
