"""C18: `TensorDict._new_unsafe` — the unchecked constructor every op uses for its result (eager) vs its
`is_compiling()` branch, which falls back to the checked constructor `TensorDict(...)`.

Both branches are forced by patching `tensordict._td.is_compiling`.  Model = Model/NewUnsafe.lean.
Streams  new_unsafe_eager / new_unsafe_compile : observable state (batch size, names, lock, entries) or exception class
oracle   new_unsafe : on inputs that satisfy the callers' contract `Pre` (entries carry the batch dims, one name per
         batch dim, distinct non-None names) the two branches build the same tensordict (theorem
         new_unsafe_branches_agree_partial); outside `Pre` they are only compared with the model (the three proved
         counter-witnesses are replayed on the implementation on every run).
"""
from __future__ import annotations

import unittest.mock as mock

import torch

from common import parse_sx, sx


def _obs(td):
    return ["ok", [int(b) for b in td.batch_size], ["none" if n is None else n for n in td.names],
            "true" if td.is_locked else "false", [[k, list(v.shape)] for k, v in td.items()]]


def _canon_model(m):
    if isinstance(m, list) and m and m[0] == "ok":
        return ["ok", list(m[1]), [str(x) for x in m[2]], str(m[3]), [[e[0], list(e[1])] for e in m[4]]]
    return m


def new_unsafe(run):
    import tensordict._td as TD
    from tensordict import TensorDict

    drv = run._drv
    rng = run.rng
    witnesses = [
        ([("a", [2, 3])], [3], None, False),                       # theorem new_unsafe_shape_counterexample
        ([("a", [2, 3])], [2, 3], ["x", "x"], False),              # theorem new_unsafe_names_counterexample
        ([], [2, 3], ["x", None, None], False),                    # theorem new_unsafe_names_erased_counterexample
        ([("a", [2, 3]), ("b", [2])], [2], ["t"], True),           # the `example : Pre …`
    ]
    cases = list(witnesses)
    batches = [[], [2], [2, 3], [0], [1, 2]]
    n = 400 if run.tier == "quick" else 6000
    for _ in range(n):
        batch = rng.choice(batches)
        src = []
        for k in rng.sample(["a", "b", "c", "d"], rng.randint(0, 3)):
            kind = rng.choice(["ok", "ok", "ok", "longer", "short", "other"])
            if kind == "ok":
                shape = list(batch)
            elif kind == "longer":
                shape = list(batch) + [rng.choice([1, 4])]
            elif kind == "short":
                shape = list(batch[:-1]) if batch else [5]
            else:
                shape = [rng.choice([2, 3, 7]) for _ in range(rng.randint(0, 3))]
            src.append((k, shape))
        nk = rng.choice(["none", "none", "valid", "valid", "allnone", "repeat", "short", "long", "partial", "lax"])
        bd = len(batch)
        pool = ["x", "y", "z", "w"]
        if nk == "none":
            names = None
        elif nk == "valid":
            names = rng.sample(pool, bd)
        elif nk == "allnone":
            names = [None] * bd
        elif nk == "repeat":
            names = ["x"] * max(bd, 2)
        elif nk == "short":
            names = rng.sample(pool, max(bd - 1, 0))
        elif nk == "long":
            names = rng.sample(pool, min(bd + 1, 4))
        elif nk == "partial":
            names = [rng.choice([None, p]) for p in rng.sample(pool, bd)]
        else:
            names = ["x"] + [None] * bd
        cases.append((src, batch, names, rng.random() < 0.3))
    reqs = []
    for src, batch, names, lock in cases:
        reqs.append(sx("c18.new_unsafe", [[k, shp] for k, shp in src], batch, names if names is not None else None, lock))
    answers = drv.ask_many(reqs)
    for (src, batch, names, lock), req, ans in zip(cases, reqs, answers):
        m = parse_sx(ans)
        outs = []
        for comp in (False, True):
            source = {k: torch.zeros(shp) for k, shp in src}
            with mock.patch.object(TD, "is_compiling", lambda c=comp: c):
                try:
                    outs.append(_obs(TensorDict._new_unsafe(source, batch_size=torch.Size(batch), names=None if names is None else list(names), lock=lock)))
                except ValueError:
                    outs.append("ValueError")
                except RuntimeError:
                    outs.append("RuntimeError")
                except Exception as e:
                    outs.append("err:" + type(e).__name__)
        pre = all(shp[:len(batch)] == batch for _, shp in src) and (
            names is None or (len(names) == len(batch) and len({x for x in names if x is not None}) == len([x for x in names if x is not None])))
        run.case(("new_unsafe", req))
        run.count("new_unsafe.pre", pre)
        run.count("new_unsafe.compile_outcome", outs[1] if isinstance(outs[1], str) else "ok")
        run.corr("new_unsafe_eager", req, outs[0], _canon_model(m[0]))
        run.corr("new_unsafe_compile", req, outs[1], _canon_model(m[1]))
        if pre:
            if outs[0] != outs[1]:
                run.oracle_fail("new_unsafe", req, f"eager branch={outs[0]} compile branch={outs[1]}", "new_unsafe")
            else:
                run.oracle_ok("new_unsafe")
    run.sample({"stream": "new_unsafe", "case": reqs[0], "model": answers[0]})
