"""C05 sweep: run every public callable on (locked subject, unlocked twin), compare with the model's table.

Prediction of the model for (class, method), read through the Lean driver from Gen.LockTable (`c05.predict`):
  structural + guard blocks  -> on a locked subject: raises, tree as it was          (`locked_frame_api`)
  structural + no guard      -> the model lets the mutation through (and `mutators_guarded` is broken)
  writer / frame             -> tree as it was (bindings, lock flags); writers may change values
  exempt                     -> storage conversion / metadata assignment: nothing predicted
  lockapi                    -> the lock flags may change, the entries may not
  absent / unknown           -> broken correspondence (a public method the model's table does not know)
Observation on the implementation (snapshot = key paths, identity of every bound object, data_ptr, is_locked):
  changedL / changedU  : did the snapshot of the locked subject / the unlocked twin change
  outL                 : outcome class of the call on the locked subject
Oracle (the property itself, independent of the table): on a locked subject only exempt calls may change the
bindings, only the lock API may change is_locked; and a call that restructures the unlocked twin must raise on the
locked subject.
"""
from __future__ import annotations

import gc

import c05_sweep as S
from common import parse_sx, sx

CLASS_OF_KIND = {"td": "TensorDict", "lazy": "LazyStackedTensorDict", "sub": "_SubTensorDict",
                 "params": "TensorDictParams", "tc": "tensorclass", "nts": "NonTensorStack",
                 "shared": "TensorDict", "lazymix": "LazyStackedTensorDict"}


def strip_locks(snap):
    """snapshot without the is_locked / _is_locked fields (bindings only)"""
    if not isinstance(snap, tuple):
        return snap
    tag = snap[0] if snap else None
    if tag in ("params", "sub"):
        return (tag, None, strip_locks(snap[2]))
    if tag == "lazy":
        return (tag, None, None, tuple((i, strip_locks(m)) for i, m in snap[3]))
    if tag == "td":
        return (tag, None, tuple((k, (v[0], v[1], strip_locks(v[2])) if v[0] == "n" else v) for k, v in snap[2]))
    if tag == "tc":
        return (tag, None, snap[2], strip_locks(snap[3]), snap[4])
    return snap


def lock_bits(snap, path=""):
    """[(key path, is_locked)] for every tensor collection of a snapshot"""
    if not isinstance(snap, tuple) or not snap:
        return []
    tag = snap[0]
    if tag in ("params", "sub"):
        return [(path, snap[1])] + lock_bits(snap[2], path + "/inner")
    if tag == "lazy":
        out = [(path, snap[1])]
        for k, (_, m) in enumerate(snap[3]):
            out += lock_bits(m, f"{path}/{k}")
        return out
    if tag == "td":
        out = [(path, snap[1])]
        for k, v in snap[2]:
            if v[0] == "n":
                out += lock_bits(v[2], f"{path}/{k}")
        return out
    if tag == "tc":
        return [(path, snap[1])] + lock_bits(snap[3], path + "/td")
    return []


def lock_lost(before, after):
    a = dict(lock_bits(after))
    lost = [p for p, lk in lock_bits(before) if lk and a.get(p, True) is False]
    return lost or None


def one_call(kind, name, args, kwargs, tag):
    """-> dict with outcomes and changes on the locked subject and on the twin"""
    res = {}
    for lock in (True, False):
        s, root, keep = S.make(kind, lock)
        before = S.snapshot(root)
        mbefore = S.meta_snapshot(root)
        subject_locked = bool(getattr(s, "is_locked", False))
        out = S.invoke(s, name, args, kwargs, kind)
        after = S.snapshot(root)
        mafter = S.meta_snapshot(root)
        res["L" if lock else "U"] = {"out": out, "changed": before != after,
                                     # (only when the object the call is made on is itself locked: an unlocked stack over a locked member may rename it)
                                     "meta_diff": [f"{a} -> {b}" for a, b in zip(mbefore, mafter) if a != b][:2] if (mbefore != mafter and subject_locked) else None,
                                     "bind_changed": strip_locks(before) != strip_locks(after),
                                     "diff": S.diff_paths(before, after)[:2],
                                     "lock_lost": lock_lost(before, after) if lock else None}
        del s, root, keep
    return res


def judge(run, kind, cname, name, tag, pred, obs, info_row):
    """correspondence with the model's table + the property oracle, for one call"""
    klass, blocks, blocks_bp, kw = pred
    L, U = obs["L"], obs["U"]
    if "timeout" in (L["out"], U["out"]):
        # the call hit the per-call time limit (a loaded machine; a thread pool; …): interrupted half-way, no verdict either way
        run.count("sweep", "timeout:no-verdict")
        return
    case = {"class": cname, "method": name, "variant": tag}
    bypass = "inplace" in tag
    # ---- what the model predicts for the locked subject
    if klass in ("absent", "unknown"):
        model = "unclassified"
    elif klass == "structural":
        model = "frame" if (blocks_bp if (bypass and kw) else blocks) else "open"
    elif klass in ("writer", "frame"):
        model = "frame"
    elif klass == "lockapi":
        model = "bindings"
    else:
        model = "exempt"
    # ---- what the implementation did
    if model == "exempt":
        impl = "exempt"
    elif model == "bindings":
        impl = "bindings" if not L["bind_changed"] else "changed"
    elif model == "unclassified":
        impl = "frame" if not L["changed"] else "changed"
    elif model == "open":
        # the model lets the mutation through: agreement iff the locked subject changes whenever the twin does
        impl = "open" if (L["changed"] or not U["changed"]) else "frame"
    else:
        impl = "frame" if not L["changed"] else "changed"
    # misclassification of the table: a frame/writer method that restructures the unlocked twin
    if klass in ("frame", "writer") and U["bind_changed"]:
        impl = "structural-on-twin"
    ok = run.corr("sweep", case, impl, model)
    # ---- the oracle: the property text
    fp = f"{cname}.{name}[{tag}]"
    if (klass == "exempt" or model == "exempt") and L.get("lock_lost"):
        run.oracle_fail("sweep", case, f"{name}({tag}) is a storage conversion, but a node of the locked {cname} came out unlocked: {L['lock_lost']}", fp)
        return
    if L["out"] == "lock" and L.get("meta_diff"):
        run.oracle_fail("sweep", case, f"{name}({tag}) was refused on the locked {cname} (lock error), yet dimension names / batch size / device changed: {L['meta_diff']}", fp + ":meta")
        return
    if klass != "exempt" and model != "exempt":
        if L["bind_changed"]:
            run.oracle_fail("sweep", case, f"bindings of a locked {cname} changed through {name}({tag}) -> outcome {L['out']}; {L['diff']}", fp)
            return
        if klass != "lockapi" and L["changed"]:
            run.oracle_fail("sweep", case, f"is_locked of a node of a locked {cname} changed through {name}({tag}); {L['diff']}", fp)
            return
        if U["bind_changed"] and L["out"] == "ok" and klass != "lockapi":
            run.oracle_fail("sweep", case, f"{name}({tag}) restructures an unlocked {cname} but returned normally on the locked one", fp)
            return
    run.oracle_ok("sweep")


def replay_filter(run):
    """--replay <file>: the (class, method) pairs of the sweep failures recorded in a replay file (None = no restriction)"""
    if not run.replay:
        return None
    import json
    from pathlib import Path
    try:
        d = json.loads(Path(run.replay).read_text())
    except Exception:  # noqa
        return None
    pairs = set()
    for f in d.get("failures", []):
        c = f.get("case", {})
        if f.get("site") == "sweep" and isinstance(c, dict) and "class" in c:
            pairs.add((c["class"], c["method"]))
    for c in d.get("broken_correspondence", {}).get("sweep", []):
        c = c.get("case", {})
        if isinstance(c, dict) and "class" in c:
            pairs.add((c["class"], c["method"]))
    return pairs or None


def sweep(run, drv, info, scratch_dir, thorough):
    import os
    scratch = S.Scratch()
    only = replay_filter(run)
    cwd = os.getcwd()
    os.chdir(scratch.dir)          # some callables take a file name where the sweep passes a key ("a", "zz"): keep those files out of the tree
    try:
        preds = {}
        for kind in S.KINDS:
            cname = CLASS_OF_KIND[kind]
            subj, _, _ = S.make(kind, False)
            cls = type(subj)
            names = S.public_callables(cls)
            ans = drv.ask_many([sx("c05.predict", cname, n) for n, _ in names])
            for (n, what), a in zip(names, ans):
                p = parse_sx(a)
                preds[(cname, n)] = ("absent", False, False, False) if p == "absent" else (p[0], p[1] == "true", p[2] == "true", p[3] == "true")
            structural_seen = set()
            # 1. synthesised calls for every public method
            for name, what in names:
                if only is not None and (cname, name) not in only:
                    continue
                pred = preds[(cname, name)]
                run.count("sweep.klass", pred[0])
                if pred[0] in ("absent", "unknown"):
                    run.corr("sweep", {"class": cname, "method": name}, "public", "absent-from-table")
                    continue
                if what == "property":
                    import inspect
                    st = inspect.getattr_static(cls, name)
                    if getattr(st, "fset", None) is None:
                        run.count("sweep.skipped", "read-only property")
                        continue
                    # assignment through the property setter
                    vals = {"batch_size": list(subj.batch_size), "names": [None] * len(subj.batch_size), "is_locked": False,
                            "device": "cpu", "shape": list(subj.batch_size)}
                    v = vals.get(name, 1)
                    obs = one_call(kind, "__setattr__", (name, v), {}, "prop")
                    run.case((cname, name, "setattr"), nontrivial=True)
                    judge(run, kind, cname, name, "setattr", pred, obs, None)
                    continue
                if what != "method" or name in S.SKIP:
                    run.count("sweep.skipped", S.SKIP.get(name, what))
                    continue
                fn = getattr(cls, name)
                try:
                    cands = S.candidates(cls, name, fn, subj, kind, scratch)
                except Exception:  # noqa
                    cands = [("noargs", (), {})]
                for tag, a, k in cands:
                    obs = one_call(kind, name, a, k, tag)
                    run.case((cname, name, tag), nontrivial=True)
                    run.count("sweep.outcome_locked", obs["L"]["out"])
                    if obs["U"]["bind_changed"]:
                        structural_seen.add(name)
                    judge(run, kind, cname, name, "syn:" + tag, pred, obs, None)
            # 2. hand-written calls for the mutators (valid arguments)
            for name, a, k in S.hand_calls(kind, subj):
                if not hasattr(cls, name):
                    continue
                if only is not None and (cname, name) not in only:
                    continue
                k = dict(k)
                must_ok = k.pop("__must_ok__", False) and kind in ("td", "lazy", "tc", "shared")
                pred = preds.get((cname, name), ("absent", False, False, False))
                tag = "hand" + ("+inplace" if k.get("inplace") else "") + ":" + ",".join(str(x)[:12] if isinstance(x, (str, tuple, int)) else type(x).__name__ for x in a)
                obs = one_call(kind, name, a, k, tag)
                run.case((cname, name, tag), nontrivial=True)
                run.count("sweep.hand_outcome_locked", obs["L"]["out"])
                if obs["U"]["bind_changed"]:
                    structural_seen.add(name)
                if pred[0] == "writer" and obs["L"]["out"] == "ok":
                    run.count("sweep.writer_ok_under_lock", name)
                if must_ok:
                    # "in-place value writes stay possible": the write goes through on the unlocked twin, so it must on the locked subject
                    if obs["U"]["out"] == "ok" and obs["L"]["out"] not in ("ok", "timeout"):
                        run.oracle_fail("sweep", {"class": cname, "method": name, "variant": tag},
                                        f"in-place write {name}({tag}) returns normally on the unlocked twin but raises '{obs['L']['out']}' on the locked {cname}",
                                        f"inplace-refused:{cname}.{name}")
                    else:
                        run.oracle_ok("sweep")
                        run.count("sweep.inplace_must_ok", f"{name}:{obs['L']['out']}")
                judge(run, kind, cname, name, tag, pred, obs, None)
            # 3. every structural row of the table for this class was seen restructuring the twin at least once?
            for (c, n), p in preds.items():
                if only is not None:
                    break
                if c == cname and p[0] == "structural":
                    run.count("sweep.structural_validated", "yes" if n in structural_seen else "no")
                    if n not in structural_seen:
                        run.notes.append(f"structural row {c}.{n} never restructured the unlocked twin with the calls tried")
            gc.collect()
        run.sample({"stream": "sweep", "predict TensorDict.exclude": drv.ask("(c05.predict TensorDict exclude)"),
                    "predict TensorDict.get": drv.ask("(c05.predict TensorDict get)")})
    finally:
        os.chdir(cwd)
        scratch.close()
