"""C05 — a locked tensordict's structure and storage bindings cannot change (DESIGN §6 C05)."""
from __future__ import annotations

import gc
import json
import shutil
import tempfile
import warnings
from pathlib import Path

from common import BUILD, Infra, Run, main_guard, parse_sx, sx, time_limit

warnings.filterwarnings("ignore")


class RetryDriver:
    """the compiled Lean driver; restarted once if the pipe breaks (a loaded machine can kill the child)"""

    def __init__(self, run):
        self.run = run
        self.d = run.driver()

    def _retry(self, f):
        try:
            return f(self.d)
        except (BrokenPipeError, Infra, OSError):
            self.d = self.run.driver()
            return f(self.d)

    def ask(self, line):
        return self._retry(lambda d: d.ask(line))

    def ask_many(self, lines):
        return self._retry(lambda d: d.ask_many(lines))


def regen(run):
    import c05_gen
    import gen_tables
    try:
        text, info, dg = c05_gen.generate()
    except Exception as e:  # noqa
        run.proof_broken.append(f"translator:LockTable:{type(e).__name__}:{e}")
        return None
    gen_tables.write_if_changed("LockTable.lean", text)
    run.count("table", "direct_guards", len(dg))
    run.count("table", "api_rows", len(info))
    run.count("table", "structural_rows", sum(1 for v in info.values() if v["klass"] == "structural"))
    return info


# --------------------------------------------------------------------------- histories
def histories(run, drv, n_hist, n_events, scratch):
    import c05_hist as H
    for hno in range(n_hist):
        rng = run.rng
        try:
            evs, impl_ans, model_ans, labels = H.run_history(rng, drv, n_events, scratch / f"h{hno}")
        except Infra:
            raise
        gc.collect()
        if not isinstance(model_ans, list) or len(model_ans) != len(evs):
            run.corr("history", {"history": hno, "events": [H.ev_sx(e) for e in evs]}, "n/a", str(model_ans)[:200])
            continue
        bad = False
        for k, (ev, ia, ma) in enumerate(zip(evs, impl_ans, model_ans)):
            run.count("event.kind", ev[0])
            if ia is None:
                continue
            m = H.canon_model(ma)
            out_i = ia[0]
            run.count("event.outcome", out_i.split(":")[0])
            if ev[0] in ("unlock", "withunlock") and out_i == "lock":
                run.count("event.unlock", "refused")
            elif ev[0] in ("unlock", "withunlock"):
                run.count("event.unlock", "accepted")
            if ev[0] == "mut":
                run.count("event.mut", f"{ev[5][0]}:{out_i.split(':')[0]}")
            if ev[0] == "mutp":
                run.count("event.mut_nested", f"{ev[6][0]}:{out_i.split(':')[0]}")
            case = {"history": hno, "step": k, "event": H.ev_sx(ev), "prefix": [H.ev_sx(e) for e in evs[:k + 1]]}
            run.case(("hist", hno, k), nontrivial=True)
            # the property oracle runs on every real step (it does not look at the model)
            hist_oracle(run, case, evs[:k + 1], ia, impl_ans[:k])
            if not run.corr("history", case, ia, m):
                bad = True
                break
        if not bad:
            run.count("history", "agree")
        if hno < 2:
            run.sample({"stream": "history", "events": [H.ev_sx(e) for e in evs[:8]], "model_last": str(model_ans[min(7, len(evs) - 1)])[:300]})


def hist_oracle(run, case, evs, ia, before):
    """property oracle on one real step: a node that reported locked before the event and is not the target of a
    lock-API / exempt event must keep its entries; an `unlock` that is accepted on a node with a live locked
    container is the other forbidden thing."""
    prev = None
    for b in reversed(before):
        if b is not None:
            prev = b
            break
    ev = evs[-1]
    nv = {r[0]: r for r in ia[1] if r != "dead"}
    # (a) in every reachable state: an entry of a live container whose lock flag is set reports locked
    for j, r in nv.items():
        if r[2] == "t":
            for e in r[4]:
                if e[1] == "n" and e[2] in nv and nv[e[2]][1] != "L":
                    run.oracle_fail("history", case, f"node {e[2]} sits in the locked container {j} but reports is_locked=False after {ev[0]}", f"hist:unlocked-member:{ev[0]}")
                    return
    # (a') ... and lists that container among its lock parents (the half of `LockClosed` that makes a member unlock refuse: without it the
    #      defect only shows after the holders of the container are gone).  An empty lazy stack has no member to hold its parents (known finding).
    for j, r in nv.items():
        if r[2] == "t":
            for e in r[4]:
                if e[1] == "n" and e[2] in nv and j not in nv[e[2]][3] and not (nv[e[2]][2] == "n" or (not nv[e[2]][4] and nv[e[2]][3] == [])):
                    run.oracle_fail("history", case, f"node {e[2]} sits in the locked container {j} but does not list it among its lock parents {nv[e[2]][3]} after {ev[0]}: "
                                    f"it can be unlocked on its own once the other holders are gone", f"hist:unregistered-container:{ev[0]}")
                    return
    if prev is None:
        run.oracle_ok("history")
        return
    pv = {r[0]: r for r in prev[1] if r != "dead"}
    # (b) whatever the call (and whichever object it is made on): the entries of a node that reported locked before the event are
    # the same afterwards (storage conversions are the documented exception; `unlock_` changes flags, not entries)
    if ev[0] not in ("memmap", "share"):
        for i, r in pv.items():
            if r[1] == "L" and i in nv and [e[:3] for e in r[4]] != [e[:3] for e in nv[i][4]]:
                meth = ev[3] if ev[0] == "mut" else (ev[4] if ev[0] == "mutp" else ev[0])
                run.oracle_fail("history", case, f"entries of locked node {i} changed through {ev[0]} on node {ev[1] if len(ev) > 1 else '-'}: {r[4]} -> {nv[i][4]}", f"hist:{meth}")
                return
    if ev[0] in ("unlock", "withunlock") and ia[0] == "ok":
        i = ev[1]
        for j, r in pv.items():
            if r[1] == "L" and r[2] == "t" and any(e[1] == "n" and e[2] == i for e in r[4]):
                run.oracle_fail("history", case, f"member {i} of locked {j} was unlocked on its own", "hist:member-unlock")
                return
    run.oracle_ok("history")


def corpus(run, drv, scratch):
    """minimised past failures (and --replay files) first"""
    import c05_hist as H
    from common import VERIF
    files = sorted((VERIF / "corpus" / "C05").glob("*.json"))
    if run.replay:
        files = [Path(run.replay)] + files
    for f in files:
        try:
            d = json.loads(Path(f).read_text())
        except Exception:  # noqa
            continue
        evs = d.get("events")
        if not evs and d.get("broken_correspondence", {}).get("history"):
            evs = d["broken_correspondence"]["history"][0]["case"]["prefix"]
        if not evs and d.get("failures"):
            evs = d["failures"][0].get("case", {}).get("prefix")
        if not evs:
            continue
        rows = H.replay_events(drv, evs, scratch / ("corpus_" + Path(f).stem))
        prev = []
        for k, (t, ia, m) in enumerate(rows):
            case = {"file": Path(f).name, "step": k, "event": t, "prefix": evs[:k + 1]}
            run.case(("corpus", Path(f).name, k))
            if not run.corr("corpus", case, ia, m):
                hist_oracle(run, case, [H.sx_to_ev(x) for x in evs[:k + 1]], ia, prev)
                break
            prev.append(ia)


# --------------------------------------------------------------------------- witnesses of the Props file, replayed
def witnesses(run, drv):
    """the concrete states used by the `…_counterexample` theorems, replayed on the implementation"""
    import torch
    from tensordict import LazyStackedTensorDict, TensorDict
    T = lambda d, **kw: TensorDict(d, batch_size=[2], **kw)
    # 1. derived lock of a lazy stack over locked members
    m0, m1 = T({"a": torch.zeros(2)}, lock=True), T({"a": torch.zeros(2)}, lock=True)
    L = LazyStackedTensorDict(m0, m1, stack_dim=0)
    derived = bool(L.is_locked) and L._is_locked is None
    try:
        m0.unlock_()
        alone = True
    except RuntimeError:
        alone = False
    model = parse_sx(drv.ask("(c05.run (ctor () ((a 1 0)) true) (ctor () ((a 2 0)) true) (lazy (0 1) false) (unlock 0))"))
    m_derived = model[2][1][2][1] == "L" and model[2][1][2][2] == "n"
    m_alone = model[3][0] == "ok"
    run.corr("witness", "derived-lock", [derived, alone], [m_derived, m_alone])
    if derived and alone:
        run.oracle_fail("witness", {"program": "m0,m1 locked; L = LazyStackedTensorDict(m0, m1); L.is_locked -> True; m0.unlock_() -> accepted"},
                        "a member of a lazy stack that reports is_locked=True was unlocked on its own (the lock of a stack over already-locked members is only derived, no lock graph)",
                        "derived-lock-member-unlock")
    else:
        run.oracle_ok("witness")
    # 1b. the same stack locked through share_memory_ (members first): must be a real lock, not a derived one
    a0, a1 = T({"a": torch.zeros(2)}), T({"a": torch.zeros(2)})
    S_ = LazyStackedTensorDict(a0, a1, stack_dim=0)
    S_.share_memory_()
    try:
        a0.unlock_()
        alone = True
    except RuntimeError:
        alone = False
    model = parse_sx(drv.ask("(c05.run (ctor () ((a 1 0)) false) (ctor () ((a 2 0)) false) (lazy (0 1) false) (share 2) (unlock 0))"))
    run.corr("witness", "lazy-share", [bool(S_.is_locked), S_._is_locked, alone], [model[3][1][2][1] == "L", True if model[3][1][2][2] == "t" else None, model[4][0] == "ok"])
    if alone:
        run.oracle_fail("witness", {"program": "S = LazyStackedTensorDict(a0, a1); S.share_memory_(); a0.unlock_() -> accepted"},
                        "a member of a lazy stack locked by share_memory_() was unlocked on its own", "derived-lock-member-unlock:share_memory_")
    else:
        run.oracle_ok("witness")
    # 2. empty lazy stack inside a locked tree
    try:
        E = LazyStackedTensorDict(stack_dim=0)
        root = TensorDict({"L": E}, []).lock_()
        was = bool(root["L"].is_locked)
        try:
            root["L"].unlock_()
            alone = True
        except RuntimeError:
            alone = False
        model = parse_sx(drv.ask("(c05.run (lazy () false) (ctor ((L 0)) () true) (unlock 0))"))
        run.corr("witness", "empty-lazy", [was, alone, bool(root.is_locked)], [model[1][1][0][1] == "L", model[2][0] == "ok", model[2][1][1][1] == "L"])
        if was and alone and root.is_locked:
            run.oracle_fail("witness", {"program": "root = TensorDict({'L': LazyStackedTensorDict(stack_dim=0)}, []).lock_(); root['L'].unlock_() -> accepted"},
                            "an empty lazy stack nested in a locked tensordict was unlocked on its own (it has no member to derive its lock parents from); append() then changes the locked tree",
                            "empty-lazy-member-unlock")
        else:
            run.oracle_ok("witness")
    except Exception as e:  # noqa
        run.notes.append(f"empty-lazy witness not reproducible: {type(e).__name__}: {e}")
    # 3. root dropped from the lock parents after a refused unlock (not a violation: the direct container still holds)
    m, s = T({"a": torch.zeros(2)}), T({"a": torch.zeros(2)})
    x = T({"m": m, "s": s}); r = T({"x": x}); q = T({"s": s})
    q.lock_(); r.lock_()
    try:
        r.unlock_()
        refused = False
    except RuntimeError:
        refused = True
    names = {id(m): 0, id(s): 1, id(x): 2, id(r): 3, id(q): 4}
    ps = sorted(names.get(id(w()), -1) for w in m._lock_parents_weakrefs if w() is not None)
    try:
        m.unlock_()
        m_alone = True
    except RuntimeError:
        m_alone = False
    model = parse_sx(drv.ask("(c05.run (ctor () ((a 1 0)) false) (ctor () ((a 2 0)) false) (ctor ((m 0) (s 1)) () false) (ctor ((x 2)) () false) (ctor ((s 1)) () false) (lock 4) (lock 3) (unlock 3) (unlock 0))"))
    run.corr("witness", "root-dropped-from-parents", [refused, ps, m_alone], [model[7][0] == "lock", list(model[7][1][0][3]), model[8][0] == "ok"])
    if m_alone:
        run.oracle_fail("witness", "root-dropped", "node below a locked root unlocked on its own after a refused unlock", "root-dropped")
    else:
        run.oracle_ok("witness")


def witnesses_params(run, drv):
    """4. TensorDictParams is a container of one tensordict (`_param_td`); with `lock=True` that content is locked before the wrapper.
    `_propagate_lock` used to skip a content that was locked already: it never registered the wrapper among its lock parents, so the
    content could be unlocked (and then modified) on its own while the wrapper, or a tensordict that holds it, was locked."""
    import torch
    from tensordict import TensorDict
    from tensordict.nn import TensorDictParams
    model = parse_sx(drv.ask("(c05.run (ctor () ((a 1 0)) true) (ctor ((params 0)) () true) (unlock 0))"))
    # (a) the caller keeps the content (`no_convert='skip'`)
    td = TensorDict({"a": torch.nn.Parameter(torch.zeros(3))}, [])
    P = TensorDictParams(td, no_convert="skip", lock=True)
    P.lock_()
    ps = sorted(type(w()).__name__ for w in td._lock_parents_weakrefs if w() is not None)
    try:
        td.unlock_()
        alone = True
    except RuntimeError:
        alone = False
    run.corr("witness", "params-locked-content", [bool(P.is_locked), ps, alone], [model[1][1][1][1] == "L", ["TensorDictParams"] if list(model[1][1][0][3]) == [1] else [], model[2][0] == "ok"])
    if alone and P.is_locked:
        run.oracle_fail("witness", {"program": "td = TensorDict({'a': Parameter}); P = TensorDictParams(td, no_convert='skip', lock=True); P.lock_(); td.unlock_() -> accepted; td['new'] = ... changes the locked P"},
                        "the content of a locked TensorDictParams(lock=True) was unlocked on its own: it does not list the wrapper among its lock parents", "params-content-unlock")
    else:
        run.oracle_ok("witness")
    # (b) the wrapper inside a locked tree
    root = TensorDict({"p": TensorDictParams(TensorDict({"a": torch.zeros(3)}, []), lock=True)}, []).lock_()
    inner = root.get("p")._param_td
    try:
        inner.unlock_()
        alone = True
    except RuntimeError:
        alone = False
    model = parse_sx(drv.ask("(c05.run (ctor () ((a 1 0)) true) (ctor ((params 0)) () false) (ctor ((p 1)) () true) (unlock 0))"))
    run.corr("witness", "params-locked-content:nested", [alone], [model[3][0] == "ok"])
    if alone:
        run.oracle_fail("witness", {"program": "root = TensorDict({'p': TensorDictParams(TensorDict({'a': …}), lock=True)}).lock_(); root['p']._param_td.unlock_() -> accepted"},
                        "the content of a TensorDictParams(lock=True) held by a locked tensordict was unlocked on its own", "params-content-unlock:nested")
    else:
        run.oracle_ok("witness")


def witnesses_params_pinned(run):
    """(c) `TensorDictParams(lock=True)`: the content is locked on its own and `unlock_()` of the wrapper is shallow (real code only: the
    machine has no shallow unlock).  Expected from the class documentation: the wrapper's lock comes and goes, the content stays locked,
    a mutator of the unlocked wrapper goes through and leaves the content locked again."""
    import torch
    from tensordict import TensorDict
    from tensordict.nn import TensorDictParams
    P = TensorDictParams(TensorDict({"a": torch.zeros(3), "n": {"b": torch.zeros(3)}}, []), lock=True)
    inner = P._param_td
    facts = {"content locked at construction": bool(inner.is_locked) and not P.is_locked}
    P.lock_()
    try:
        P.set("zz", torch.zeros(3))
        facts["mutator refused while the wrapper is locked"] = False
    except RuntimeError:
        facts["mutator refused while the wrapper is locked"] = "zz" not in inner.keys()
    P.unlock_()
    facts["shallow unlock: wrapper unlocked, content and nested still locked"] = (not P.is_locked) and bool(inner.is_locked) and bool(inner.get("n").is_locked)
    try:
        inner.set("zz", torch.zeros(3))
        facts["content refuses a direct write"] = False
    except RuntimeError:
        facts["content refuses a direct write"] = True
    try:
        P.set("zz", torch.zeros(3))
        facts["mutator of the unlocked wrapper goes through, content locked again"] = "zz" in inner.keys() and bool(inner.is_locked) and bool(inner.get("n").is_locked)
    except Exception as e:  # noqa
        facts["mutator of the unlocked wrapper goes through, content locked again"] = False
    P.lock_()
    ps = sorted(type(w()).__name__ for w in inner._lock_parents_weakrefs if w() is not None and w()._is_locked)
    facts["relocked wrapper is a lock parent of its content"] = ps == ["TensorDictParams"]
    bad = [k for k, v in facts.items() if not v]
    if bad:
        run.oracle_fail("witness", {"program": "P = TensorDictParams(TensorDict({'a': …, 'n': {'b': …}}), lock=True); P.lock_(); P.set(…); P.unlock_(); P._param_td.set(…); P.set(…); P.lock_()"},
                        f"TensorDictParams(lock=True): {bad}", "params-pinned:" + bad[0][:30])
    else:
        run.oracle_ok("witness")


def witnesses_views(run, drv):
    """5. tensordicts without a lock state of their own (`Props.C05.view_lock_frame`): a `_SubTensorDict` reports the lock of its source and
    its lock_() / unlock_() return iff they are no-ops; a legacy lazy view (`_CustomOpTensorDict`) forwards both to its source."""
    import torch
    from tensordict import TensorDict, set_lazy_legacy

    def outcome(f):
        try:
            f()
            return "ok"
        except RuntimeError as e:
            return "lock" if "locked graph" in str(e) else "other"
    for locked in (False, True):
        td = TensorDict({"a": torch.zeros(2)}, batch_size=[2], lock=locked)
        sub = td._get_sub_tensordict(0)
        got = [bool(sub.is_locked), outcome(sub.lock_), bool(td.is_locked), outcome(sub.unlock_), bool(td.is_locked)]
        model = parse_sx(drv.ask(f"(c05.run (ctor () ((a 1 0)) {'true' if locked else 'false'}) (sublock 0) (subunlock 0))"))
        m = [model[0][1][0][1] == "L", model[1][0], model[1][1][0][1] == "L", model[2][0], model[2][1][0][1] == "L"]
        run.corr("witness", f"sub-view-lock:{locked}", got, m)
    # the legacy lazy views: lock / unlock through the view act on the source, and obey the lock graph of the source
    with set_lazy_legacy(True):
        td = TensorDict({"a": torch.zeros(2)}, batch_size=[2])
        root = TensorDict({"k": td}, batch_size=[2])
        v = td.unsqueeze(0)
        ok_type = type(v).__name__
        got = [outcome(v.lock_), bool(td.is_locked), bool(v.is_locked), outcome(v.unlock_), bool(td.is_locked)]
        root.lock_()
        got += [bool(v.is_locked), outcome(v.unlock_), bool(td.is_locked)]
    model = parse_sx(drv.ask("(c05.run (ctor () ((a 1 0)) false) (ctor ((k 0)) () false) (customlock 0) (customunlock 0) (lock 1) (customunlock 0))"))
    L = lambda row, i: row[1][i][1] == "L"
    m = [model[2][0], L(model[2], 0), L(model[2], 0), model[3][0], L(model[3], 0), L(model[4], 0), model[5][0], L(model[5], 0)]
    run.corr("witness", f"custom-view-lock:{ok_type}", got, m)
    if got[-2] == "ok":
        run.oracle_fail("witness", {"program": "td in a locked root; v = td.unsqueeze(0) (legacy lazy view); v.unlock_() -> accepted"},
                        "a tensordict held by a locked tensordict was unlocked through a lazy view of it", "view-unlock-member")
    else:
        run.oracle_ok("witness")


def witnesses_memmap_api(run, drv, scratch):
    """6. every way into a memory-mapped (hence locked) tensordict must build the lock graph (`memmap_establishes`): memmap_ / memmap / memmap_like
    x sequential / threaded / threaded + return_early (result through `TensorDictFuture.result()`).  Oracle: a nested tensordict refuses `unlock_()`."""
    import torch
    from tensordict import TensorDict
    model = parse_sx(drv.ask("(c05.run (ctor () ((c 1 0)) false) (ctor ((b 0)) ((a 2 0)) false) (memmap 1) (unlock 0))"))
    m = [model[2][1][1][1] == "L", model[2][1][0][1] == "L", list(model[2][1][0][3]) == [1], model[3][0] == "ok"]
    n = 0
    for api in ("memmap_", "memmap", "memmap_like"):
        for kw in ({}, {"num_threads": 2}, {"num_threads": 2, "return_early": True}):
            n += 1
            td = TensorDict({"a": torch.zeros(3), "b": TensorDict({"c": torch.ones(3)}, [3])}, [3])
            out = getattr(td, api)(str(scratch / f"wmm{n}"), **kw)
            if hasattr(out, "result") and not hasattr(out, "keys"):
                out = out.result()
            nested = out.get("b")
            ps = [w() is out for w in nested._lock_parents_weakrefs if w() is not None]
            try:
                nested.unlock_()
                alone = True
            except RuntimeError:
                alone = False
            tag = f"{api}({', '.join(f'{k}={v}' for k, v in kw.items())})"
            run.corr("witness", f"memmap-api:{tag}", [bool(out.is_locked), bool(nested.is_locked) or alone, ps == [True], alone], m)
            if alone:
                run.oracle_fail("witness", {"program": f"td = TensorDict({{'a': …, 'b': {{'c': …}}}}, [3]); out = td.{tag}" + (".result()" if kw.get("return_early") else "") + "; out['b'].unlock_() -> accepted; out['b'].set('new', …) then changes the locked memory-mapped tensordict"},
                                "a tensordict nested in a memory-mapped (locked) tensordict was unlocked on its own: it has no lock parent", f"memmap-nested-unlock:{tag}")
            else:
                run.oracle_ok("witness")


def witnesses_stack_through_holder(run, drv):
    """7. a lazy stack locked *through a holder* must list itself among the lock parents of its members (it holds them), so that they stay
    locked when the holder is gone: lock via holder, drop the holder + gc, member unlock."""
    import gc
    import torch
    from tensordict import LazyStackedTensorDict, TensorDict
    m0, m1 = TensorDict({"a": torch.zeros(2)}, [2]), TensorDict({"a": torch.zeros(2)}, [2])
    S = LazyStackedTensorDict(m0, m1, stack_dim=0)
    root = TensorDict({"stack": S}, [2])
    root.lock_()
    del root
    gc.collect()
    still = [bool(S.is_locked), S._is_locked]
    try:
        m0.unlock_()
        alone = True
    except RuntimeError:
        alone = False
    model = parse_sx(drv.ask("(c05.run (ctor () ((a 1 0)) false) (ctor () ((a 2 0)) false) (lazy (0 1) false) (ctor ((stack 2)) () true) (gc 3) (unlock 0))"))
    run.corr("witness", "stack-through-holder", [still[0], still[1] is True, alone], [model[4][1][2][1] == "L", model[4][1][2][2] == "t", model[5][0] == "ok"])
    if alone and S._is_locked:
        run.oracle_fail("witness", {"program": "S = LazyStackedTensorDict(m0, m1); root = TensorDict({'stack': S}); root.lock_(); del root; gc.collect(); m0.unlock_() -> accepted (S still locked)"},
                        "a member of a lazy stack that was locked through a holder was unlocked on its own once the holder was collected: the stack is not among its lock parents", "stack-through-holder-member-unlock")
    else:
        run.oracle_ok("witness")


def main():
    run = Run("C05")
    run.rule = ("histories: random event histories over TensorDict / lazy-stack / tensorclass / TensorDictParams-wrapper nodes (constructors over existing nodes incl. shared nodes, lock_/unlock_, context managers, "
                "pickle round trips, memmap_/share_memory_ (also on lazy roots), drop+gc, 9 mutator effects through 14 public methods, on the node itself or through a nested key given to an ancestor), "
                "every event a case; sweep: every public callable of 6 container classes on 8 subjects (incl. an unlocked holder of a node shared with a locked root, and a lazy stack over a locked and an "
                "unlocked member) x synthesised argument variants (+inplace=True where accepted) + hand-written calls for the mutators and the in-place writes that must succeed, on a locked subject and an "
                "unlocked twin (a call refused with the lock error must also leave dimension names / batch size / device as they were; values that carry dimension names are among the hand-written calls); "
                "a case is non-trivial if it is a distinct (history, step) or (class, method, variant)")
    run.trusted += [
        "Model/C05Lock.lean: hand transcription of the lock code (base.py _propagate_lock/_propagate_unlock/_check_unlock/lock_/unlock_/__setstate__, _lazy.py is_locked/_lock_parents_weakrefs/_propagate_*, _td.py share_memory_/_memmap_, utils.py lock_blocked/_as_context_manager), validated each run by the event-history correspondence",
        "harness/c05_shapes.py: ast fingerprints of the 35 transcribed lock functions (incl. TensorDictParams, _SubTensorDict, _CustomOpTensorDict, PersistentTensorDict), pinned by Props.C05.transcribed_lock_code: an edit of one of them breaks the obligation",
        "TensorDictParams is modelled as a container of one tensordict (its content, key `params`): after the repairs its `_propagate_lock` / `_propagate_unlock` are the plain container's; `lock=True` (content locked on its own, kept locked by unlock_) and the mutators of the wrapper (`_unlock_and_set`: unlock the content, call it, lock it again) are exercised by the witness scenarios and the sweep, not by the event machine",
        "harness/c05_gen.py: ast+reflection extraction of the guard table (may-analysis of the call graph: a guarded callee on some path counts); the behavioural sweep checks the paths actually taken",
        "harness/c05_api_classes.json: hand classification of the public API (structural / writer / exempt / lockapi / frame), checked behaviourally on every run",
        "CPython weakref/gc semantics are modelled by explicit liveness (the harness drops and collects deterministically); pickle is decomposed by the harness into constructor events in post-order",
    ]
    run.assumptions += [
        "modelled heaps are Ordered (a container only adopts older objects): no cycles; duplicated members of one lazy stack are not generated",
        "TensorDictParams, _SubTensorDict, tensorclass and NonTensorStack are covered by the sweep and the oracle, not by the heap model (tensorclass/sub delegate to a TensorDict)",
        "`ignore_lock=True` is a documented override and is never synthesised; distributed / process-pool methods are skipped (listed in c05_sweep.SKIP)",
    ]
    info = regen(run)
    run.build_and_audit(["TdVerif.Props.C05"])
    drv = RetryDriver(run)
    import tensordict  # noqa: F401
    import tensordict.nn  # noqa: F401
    gc.collect()
    gc.freeze()      # the interpreter's import-time heap is immortal: every later gc.collect() (ours and the one in _check_unlock) only walks the objects of the run
    scratch = Path(tempfile.mkdtemp(prefix="c05_", dir=str(BUILD) if BUILD.exists() else None))
    try:
        thorough = run.tier == "thorough"
        corpus(run, drv, scratch)
        witnesses(run, drv)
        witnesses_params(run, drv)
        witnesses_params_pinned(run)
        witnesses_views(run, drv)
        witnesses_memmap_api(run, drv, scratch)
        witnesses_stack_through_holder(run, drv)
        if not run.replay:
            histories(run, drv, 4000 if thorough else 300, 32 if thorough else 26, scratch)
        import c05_sweep_run
        c05_sweep_run.sweep(run, drv, info, scratch, thorough)
    finally:
        shutil.rmtree(scratch, ignore_errors=True)
    if thorough:
        run.leanchecker(["TdVerif.Props.C05"])
    run.finish("proof")


if __name__ == "__main__":
    main_guard(main)
