#!/bin/bash
# merge_from.sh <workspace letter> <regex on path, e.g. "C02|c02"> [--apply] : list (and with --apply copy) builder-owned files
# whose path matches the regex from /tmp/b_X/verif into /verif
X="$1"; RX="$2"; SRC=/tmp/b_$X/verif; [ -d /tmp/b_$X/snap ] && SRC=/tmp/b_$X/snap; shift
PROTECT='^(harness/common.py|harness/check_C18.py|harness/c18_programs.py|harness/gen_tables.py|harness/py2lean.py|harness/make_manifest.py|harness/regen_all.py|harness/cxx_build.py|harness/mk_workspace.sh|harness/merge_from.sh|harness/run_baseline.py|lean/Driver.lean|lean/TdVerif.lean|lean/TdVerif/Sexp.lean|lean/lakefile.toml|lean/lake-manifest.json|lean/TdVerif/Props/C18.lean|lean/TdVerif/Drive/C18.lean|lean/TdVerif/Gen/PyFuns.lean|MANIFEST.json|known_findings.json|DESIGN.md|BUILDER_GUIDE.md|properties.jsonl|check|setup.sh|.gitignore)$'
if [ "$X" = "K" ]; then  # builder K owns the C18 files and the translator
  PROTECT=$(echo "$PROTECT" | sed 's#harness/check_C18.py|harness/c18_programs.py|harness/gen_tables.py|harness/py2lean.py|##; s#lean/TdVerif/Props/C18.lean|lean/TdVerif/Drive/C18.lean|lean/TdVerif/Gen/PyFuns.lean|##')
fi
cd "$SRC" || exit 1
find . -type f \( -path './lean/.lake' -o -path './.build' -o -path './replays' -o -name '__pycache__' \) -prune -o -type f -print | sed 's|^\./||' | grep -v -E '^(lean/\.lake/|\.build/|replays/|evidence/)|__pycache__|\.pyc$' | grep -E "$RX" | sort | while read f; do
  if [ ! -e "/verif/$f" ] || ! cmp -s "$f" "/verif/$f"; then
    if echo "$f" | grep -qE "$PROTECT"; then echo "PROTECTED-DIFF $f"; else
      echo "COPY $f"
      if [ "$2" = "--apply" ]; then mkdir -p "/verif/$(dirname "$f")"; cp "$f" "/verif/$f"; fi
    fi
  fi
done
