"""C06 — regenerate lean/TdVerif/Gen/CacheTable.lean: every `@cache`d method of the working tree with the kind of each parameter.

`utils._make_cache_key` keys strings / ints (bools) / slices / Ellipsis by value, unfolds lists and tuples, and keys
everything else by `id()`.  The kind of a parameter is read off its annotation (and default):
  value    : bool, int, str, NestedKey, sequences of those, torch.Size
  callable : Callable[...]            (by address: the key survives the callable)
  other    : anything else            (by address)
"""
from __future__ import annotations

import ast

from common import REPO

FILES = ["tensordict/base.py", "tensordict/_td.py", "tensordict/_lazy.py", "tensordict/persistent.py",
         "tensordict/nn/params.py", "tensordict/tensorclass.py", "tensordict/_torch_func.py"]

VALUE_ANN = ("bool", "int", "str", "NestedKey", "torch.Size", "Size")


def _kind(arg: ast.arg, default):
    ann = ast.unparse(arg.annotation) if arg.annotation is not None else ""
    if "Callable" in ann:
        return "callable"
    core = ann.replace("Optional[", "").replace("List[", "").replace("Sequence[", "").replace("Tuple[", "").replace("]", "").replace(" | None", "").replace("None | ", "").strip()
    if core and all(part.strip() in VALUE_ANN for part in core.replace("|", ",").split(",")):
        return "value"
    if isinstance(default, ast.Constant) and isinstance(default.value, (bool, int, str)):
        return "value"
    if arg.arg in ("vmap_level", "in_dim", "out_dim", "funcname", "key", "batch_size"):
        return "value"        # ints / strings / torch.Size at every call site (private vmap helpers)
    return "other"


def cached_functions():
    rows = []
    for rel in FILES:
        tree = ast.parse((REPO / rel).read_text())
        for cls in [n for n in ast.walk(tree) if isinstance(n, ast.ClassDef)]:
            for fn in cls.body:
                if not isinstance(fn, ast.FunctionDef):
                    continue
                decos = [d.id if isinstance(d, ast.Name) else getattr(d, "attr", "") for d in fn.decorator_list]
                if "cache" not in decos:
                    continue
                a = fn.args
                pos = a.posonlyargs + a.args
                defaults = [None] * (len(pos) - len(a.defaults)) + list(a.defaults)
                params = []
                for arg, d in list(zip(pos, defaults)) + list(zip(a.kwonlyargs, a.kw_defaults)):
                    if arg.arg in ("self", "_self"):
                        continue
                    params.append((arg.arg, _kind(arg, d)))
                stub = len(fn.body) == 1 and isinstance(fn.body[0], ast.Expr) and isinstance(fn.body[0].value, ast.Constant) and fn.body[0].value.value is Ellipsis
                abstract = any(isinstance(n, ast.Raise) for n in fn.body) and len(fn.body) <= 2
                rows.append({"file": rel, "cls": cls.name, "name": fn.name, "params": params, "property": "property" in decos,
                             "abstract": bool(stub or abstract)})
    return rows


def lean_str(s):
    return '"' + s.replace("\\", "\\\\").replace('"', '\\"') + '"'


def generate():
    rows = cached_functions()
    lines = ["-- GENERATED from the tensordict working tree by harness/c06_gen.py on every run; do not edit",
             "namespace TdVerif.Gen.CacheTable", "",
             "inductive PKind | value | callable | other", "  deriving Repr, DecidableEq", "",
             "structure Cached where", "  file : String", "  cls : String", "  name : String", "  params : List (String × PKind)",
             "  isProperty : Bool", "  isAbstract : Bool", "  deriving Repr", "",
             "/-- every `@cache` site of the source -/", "def cached : List Cached := ["]
    out = []
    for r in rows:
        ps = ", ".join(f"({lean_str(n)}, .{k})" for n, k in r["params"])
        out.append(f"  ⟨{lean_str(r['file'])}, {lean_str(r['cls'])}, {lean_str(r['name'])}, [{ps}], {'true' if r['property'] else 'false'}, {'true' if r['abstract'] else 'false'}⟩")
    lines.append(",\n".join(out))
    import c05_shapes
    lines += ["]", "", c05_shapes.lean_def("cacheCode", c05_shapes.C06_FUNCS), "", "end TdVerif.Gen.CacheTable", ""]
    return "\n".join(lines), rows


if __name__ == "__main__":
    text, rows = generate()
    print(text)
