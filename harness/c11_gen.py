"""C11/C10: regenerate lean/TdVerif/Gen/Dtypes.lean from the working tree:
the two dtype-name tables of tensordict/utils.py (`_STRDTYPE2DTYPE`, `_DTYPE2STRDTYPE`) and the
element size of every dtype in them (reflection on the imported module, i.e. on what the code says now)."""
from __future__ import annotations

import torch

from gen_tables import HEADER, lean_str, write_if_changed


def gen_dtypes() -> str:
    import tensordict.utils as U

    s2d, d2s = U._STRDTYPE2DTYPE, U._DTYPE2STRDTYPE
    all_dtypes = sorted({str(d) for d in s2d.values()} | {str(d) for d in d2s.keys()})
    ident = {n: i for i, n in enumerate(all_dtypes)}
    sizes = {}
    for d in list(s2d.values()) + list(d2s.keys()):
        sizes[str(d)] = d.itemsize
    lines = [HEADER.replace("gen_tables.py", "c11_gen.py"), "namespace TdVerif.Gen\n"]
    lines.append("/-- (dtype id, str(dtype), element_size) for every dtype of the two tables; id = rank of str(dtype) -/")
    lines.append("def dtypes : List (Nat × String × Nat) := [" + ", ".join(f"({ident[n]}, {lean_str(n)}, {sizes[n]})" for n in all_dtypes) + "]\n")
    lines.append("/-- tensordict.utils._DTYPE2STRDTYPE as (dtype id, name), in dict order -/")
    lines.append("def dtype2str : List (Nat × String) := [" + ", ".join(f"({ident[str(d)]}, {lean_str(n)})" for d, n in d2s.items()) + "]\n")
    lines.append("/-- tensordict.utils._STRDTYPE2DTYPE as (name, dtype id), in dict order -/")
    lines.append("def str2dtype : List (String × Nat) := [" + ", ".join(f"({lean_str(n)}, {ident[str(d)]})" for n, d in s2d.items()) + "]\n")
    lines.append("end TdVerif.Gen\n")
    return "\n".join(lines)


def regen() -> bool:
    return write_if_changed("Dtypes.lean", gen_dtypes())


if __name__ == "__main__":
    print(regen())
