"""C10 stream L: the leaf level — MemoryMappedTensor.from_tensor / from_filename (what `_populate_memmap` does for every
leaf) against Model/C10Tensor.lean: ordinary tensors and tensors that are already memory-mapped elsewhere, as their whole
file or as an indexed view of it (row, slice, stride, column, reshape), copied to a new file, onto a shorter / longer
former file, or asked to be saved on their own file; copy_existing / copy_data / existsok on and off."""
from __future__ import annotations

import shutil

import torch

from common import BUILD, Infra, parse_sx, sx, time_limit


def run_leaf(run, drv):
    from tensordict import MemoryMappedTensor
    rng = run.rng
    quick = run.tier == "quick"
    root = BUILD / "tmp" / f"c10l_{run.seed}_{run.tier}"
    shutil.rmtree(root, ignore_errors=True)
    root.mkdir(parents=True, exist_ok=True)
    views = [("whole", lambda t: t), ("row 0", lambda t: t[0]), ("row 1", lambda t: t[1]), ("last row", lambda t: t[-1]), ("rows 1:", lambda t: t[1:]),
             ("rows :-1", lambda t: t[:-1]), ("rows ::2", lambda t: t[::2]), ("column 1", lambda t: t[:, 1]), ("columns 1:", lambda t: t[:, 1:]),
             ("flat", lambda t: t.view(-1)), ("rows [2, 0]", lambda t: t[torch.tensor([2, 0])]), ("transposed", lambda t: t.t())]
    try:
        for it in range(96 if quick else 720):
            d = root / f"l{it}"
            (d / "src").mkdir(parents=True)
            (d / "dst").mkdir(parents=True)
            m, k = rng.choice([3, 4]), rng.choice([2, 3])
            base = ((torch.arange(m * k) * 7 + it) % 251).to(torch.uint8).reshape(m, k)
            kind = "mem" if it % 6 == 5 else "file"
            vname, vf = views[it % len(views)]
            same = kind == "file" and it % 7 == 3
            ce = rng.random() < 0.75
            like = rng.random() < 0.2
            existsok = rng.random() < 0.8
            dstold = rng.choice([None, None, "short", "long"])
            srcfile = d / "src" / "x.memmap"
            dstfile = srcfile if same else d / "dst" / "x.memmap"
            if kind == "file":
                F = MemoryMappedTensor.from_tensor(base, filename=srcfile)
                value = vf(F)
            else:
                value = vf(base).clone() if vname != "transposed" else vf(base)
            is_mm = isinstance(value, MemoryMappedTensor) and value._filename is not None
            if value.numel() == 0:
                continue
            pos = vf(torch.arange(m * k).reshape(m, k)).reshape(-1).tolist()
            inp = ["file", base.reshape(-1).tolist(), pos] if is_mm else ["mem", value.reshape(-1).tolist()]
            old = None
            if dstold and not same:
                old = [(200 + j) % 256 for j in range(1 if dstold == "short" else value.numel() + 3)]
                dstfile.write_bytes(bytes(old))
            case = {"input": kind if is_mm or kind == "mem" else "file->copy", "view": vname, "shape": [m, k], "same_file": same, "copy_existing": ce, "like": like,
                    "existsok": existsok, "former_file": dstold if not same else None}
            run.case(("leaf", it, str(case)))
            run.count("leaf.view", vname)
            before_src = srcfile.read_bytes() if kind == "file" else None
            try:
                with time_limit(60):
                    r = MemoryMappedTensor.from_tensor(value, filename=dstfile, existsok=existsok, copy_existing=ce, copy_data=not like)
                    back = MemoryMappedTensor.from_filename(dstfile, dtype=torch.uint8, shape=value.shape)
                    impl = ["ok", list(dstfile.read_bytes()), r.reshape(-1).tolist(), back.reshape(-1).tolist()]
            except TimeoutError as e:
                raise Infra(f"from_tensor timed out: {e}")
            except RuntimeError as e:
                msg = str(e)
                impl = ["err", "existing" if "already has a file associated" in msg else "exists" if "already exists" in msg else
                        "partial-view" if "view of a part of the file" in msg else "runtime: " + msg[:80]]
            except Exception as e:  # noqa: BLE001
                impl = ["err", f"{type(e).__name__}: {str(e)[:80]}"]
            mdl = parse_sx(drv.ask(sx("c10.populate", inp, old, same and is_mm, ce, like, existsok)))
            model = ["ok", list(mdl[1]), list(mdl[2]), list(mdl[3])] if mdl[0] == "ok" else ["err", mdl[1]]
            if same and not is_mm:
                # an ordinary tensor (a gathered copy) saved over the file it was gathered from: the model runs it as a plain save over a former file
                mdl = parse_sx(drv.ask(sx("c10.populate", inp, base.reshape(-1).tolist(), False, ce, like, existsok)))
                model = ["ok", list(mdl[1]), list(mdl[2]), list(mdl[3])] if mdl[0] == "ok" else ["err", mdl[1]]
            run.corr("from_tensor(file, tensor handed back, from_filename)", case, impl, model)
            # the property on this input: whenever the save is accepted with copy_data, loading the file gives the content of the input,
            # and the source file is untouched (unless it is the destination)
            want = vf(base).reshape(-1).tolist()
            if impl[0] == "ok" and not like:
                ok = impl[2] == want and impl[3] == want and (same or before_src is None or srcfile.read_bytes() == before_src)
                if ok:
                    run.oracle_ok("leaf_saved_equals_input")
                else:
                    run.oracle_fail("leaf_saved_equals_input", case, f"saved {vname} of {base.tolist()}: file reads back {impl[3]}, handed back {impl[2]}, expected {want}", "leaf:values")
            shutil.rmtree(d, ignore_errors=True)
    finally:
        shutil.rmtree(root, ignore_errors=True)
