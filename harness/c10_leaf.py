"""C10 stream L: the leaf level — MemoryMappedTensor.from_tensor / from_filename (what `_populate_memmap` does for every
leaf) against Model/C10Tensor.lean: ordinary tensors and tensors that are already memory-mapped elsewhere, as their whole
file or as an indexed view of it (row, slice, stride, column, reshape), copied to a new file, onto a shorter / longer
former file, or asked to be saved on their own file; copy_existing / copy_data / existsok on and off."""
from __future__ import annotations

import shutil

import torch

from common import BUILD, Infra, parse_sx, sx, time_limit


def run_leaf(run, drv):
    from tensordict import MemoryMappedTensor
    rng = run.rng
    quick = run.tier == "quick"
    root = BUILD / "tmp" / f"c10l_{run.seed}_{run.tier}"
    shutil.rmtree(root, ignore_errors=True)
    root.mkdir(parents=True, exist_ok=True)
    views = [("whole", lambda t: t), ("row 0", lambda t: t[0]), ("row 1", lambda t: t[1]), ("last row", lambda t: t[-1]), ("rows 1:", lambda t: t[1:]),
             ("rows :-1", lambda t: t[:-1]), ("rows ::2", lambda t: t[::2]), ("column 1", lambda t: t[:, 1]), ("columns 1:", lambda t: t[:, 1:]),
             ("flat", lambda t: t.view(-1)), ("rows [2, 0]", lambda t: t[torch.tensor([2, 0])]), ("transposed", lambda t: t.t())]
    try:
        for it in range(96 if quick else 720):
            d = root / f"l{it}"
            (d / "src").mkdir(parents=True)
            (d / "dst").mkdir(parents=True)
            m, k = rng.choice([3, 4]), rng.choice([2, 3])
            base = ((torch.arange(m * k) * 7 + it) % 251).to(torch.uint8).reshape(m, k)
            kind = "mem" if it % 6 == 5 else "file"
            vname, vf = views[it % len(views)]
            same = kind == "file" and it % 7 == 3
            ce = rng.random() < 0.75
            like = rng.random() < 0.2
            existsok = rng.random() < 0.8
            dstold = rng.choice([None, None, "short", "long"])
            srcfile = d / "src" / "x.memmap"
            dstfile = srcfile if same else d / "dst" / "x.memmap"
            if kind == "file":
                F = MemoryMappedTensor.from_tensor(base, filename=srcfile)
                value = vf(F)
            else:
                value = vf(base).clone() if vname != "transposed" else vf(base)
            is_mm = isinstance(value, MemoryMappedTensor) and value._filename is not None
            if value.numel() == 0:
                continue
            pos = vf(torch.arange(m * k).reshape(m, k)).reshape(-1).tolist()
            inp = ["file", base.reshape(-1).tolist(), pos] if is_mm else ["mem", value.reshape(-1).tolist()]
            old = None
            if dstold and not same:
                old = [(200 + j) % 256 for j in range(1 if dstold == "short" else value.numel() + 3)]
                dstfile.write_bytes(bytes(old))
            case = {"input": kind if is_mm or kind == "mem" else "file->copy", "view": vname, "shape": [m, k], "same_file": same, "copy_existing": ce, "like": like,
                    "existsok": existsok, "former_file": dstold if not same else None}
            run.case(("leaf", it, str(case)))
            run.count("leaf.view", vname)
            before_src = srcfile.read_bytes() if kind == "file" else None
            try:
                with time_limit(60):
                    r = MemoryMappedTensor.from_tensor(value, filename=dstfile, existsok=existsok, copy_existing=ce, copy_data=not like)
                    back = MemoryMappedTensor.from_filename(dstfile, dtype=torch.uint8, shape=value.shape)
                    impl = ["ok", list(dstfile.read_bytes()), r.reshape(-1).tolist(), back.reshape(-1).tolist()]
            except TimeoutError as e:
                raise Infra(f"from_tensor timed out: {e}")
            except RuntimeError as e:
                msg = str(e)
                impl = ["err", "existing" if "already has a file associated" in msg else "exists" if "already exists" in msg else
                        "partial-view" if "view of a part of the file" in msg else "runtime: " + msg[:80]]
            except Exception as e:  # noqa: BLE001
                impl = ["err", f"{type(e).__name__}: {str(e)[:80]}"]
            mdl = parse_sx(drv.ask(sx("c10.populate", inp, old, same and is_mm, ce, like, existsok)))
            model = ["ok", list(mdl[1]), list(mdl[2]), list(mdl[3])] if mdl[0] == "ok" else ["err", mdl[1]]
            if same and not is_mm:
                # an ordinary tensor (a gathered copy) saved over the file it was gathered from: the model runs it as a plain save over a former file
                mdl = parse_sx(drv.ask(sx("c10.populate", inp, base.reshape(-1).tolist(), False, ce, like, existsok)))
                model = ["ok", list(mdl[1]), list(mdl[2]), list(mdl[3])] if mdl[0] == "ok" else ["err", mdl[1]]
            run.corr("from_tensor(file, tensor handed back, from_filename)", case, impl, model)
            # the property on this input: whenever the save is accepted with copy_data, loading the file gives the content of the input,
            # and the source file is untouched (unless it is the destination)
            want = vf(base).reshape(-1).tolist()
            if impl[0] == "ok" and not like:
                ok = impl[2] == want and impl[3] == want and (same or before_src is None or srcfile.read_bytes() == before_src)
                if ok:
                    run.oracle_ok("leaf_saved_equals_input")
                else:
                    run.oracle_fail("leaf_saved_equals_input", case, f"saved {vname} of {base.tolist()}: file reads back {impl[3]}, handed back {impl[2]}, expected {want}", "leaf:values")
            shutil.rmtree(d, ignore_errors=True)
    finally:
        shutil.rmtree(root, ignore_errors=True)


def _child_fill(blob, value):
    """run in a worker process: rebuild the MemoryMappedTensor that crossed the process boundary and write through it"""
    import pickle
    try:
        t = pickle.loads(blob)
        seen = t.reshape(-1).to(torch.float64).tolist()
        t.fill_(value)
        return ["ok", seen]
    except Exception as e:  # noqa: BLE001
        return ["err", f"{type(e).__name__}: {str(e)[:160]}"]


def run_ctors(run, drv, pools):
    """The constructors of MemoryMappedTensor — zeros / ones / full / empty and their *_like forms — on a new file, over a former (shorter /
    longer) file with existsok on / off / default, or without a file (shared-memory handler): they are `from_tensor` of an expanded
    scalar (+ `fill_`), so the uint8 cases are compared with `populate` of the model; oracle: shape, dtype, values, file size and content read
    back with from_filename, the recorded absolute file name; a refusal leaves the former file alone; the tensor sent to another process (with
    or without a file) is a view of the same memory: the child sees the values and its write is seen here."""
    from multiprocessing.reduction import ForkingPickler
    from tensordict import MemoryMappedTensor as M
    rng = run.rng
    quick = run.tier == "quick"
    root = BUILD / "tmp" / f"c10c_{run.seed}_{run.tier}"
    shutil.rmtree(root, ignore_errors=True)
    root.mkdir(parents=True, exist_ok=True)
    ctors = ["zeros", "ones", "full", "empty", "zeros_like", "ones_like", "full_like", "empty_like"]
    dtypes = [torch.uint8, torch.float32, torch.uint8, torch.int64, torch.uint8, torch.bool, torch.uint8, torch.float64, torch.uint8, torch.int16]
    try:
        for it in range(64 if quick else 480):
            ctor = ctors[it % len(ctors)]
            dt = dtypes[(it // len(ctors)) % len(dtypes)]
            shape = rng.choice([[3], [2, 3], [4, 1, 2], [1], [2, 2]])
            n = 1
            for s in shape:
                n *= s
            item = torch.zeros((), dtype=dt).element_size()
            fill = 1 if dt == torch.bool else rng.randint(2, 9)
            where = rng.choice(["none", "new", "new", "short", "long"])
            eo = rng.choice(["default", True, False]) if not ctor.endswith("_like") else "default"
            how_shape = rng.choice(["args", "tuple", "size", "kw"])
            d = root / f"c{it}"
            d.mkdir()
            f = d / "x.memmap"
            old = None
            if where in ("short", "long"):
                old = [(200 + j) % 256 for j in range(item if where == "short" else n * item + 3)]
                f.write_bytes(bytes(old))
            kw = {} if where == "none" else {"filename": f if it % 2 else str(f)}
            if eo != "default":
                kw["existsok"] = eo
            case = {"ctor": ctor, "dtype": str(dt), "shape": shape, "file": where, "existsok": eo, "shape_given_as": how_shape}
            run.case(("ctor", it, str(case)))
            run.count("ctor.kind", ctor)
            want_v = {"zeros": 0, "ones": 1, "full": fill, "empty": None}[ctor.replace("_like", "")]
            try:
                with time_limit(60):
                    if ctor.endswith("_like"):
                        ex = torch.empty(shape, dtype=dt)
                        r = getattr(M, ctor)(ex, fill, **kw) if ctor == "full_like" else getattr(M, ctor)(ex, **kw)
                    else:
                        if ctor == "full":
                            kw["fill_value"] = fill
                        if how_shape == "args":
                            r = getattr(M, ctor)(*shape, dtype=dt, **kw)
                        elif how_shape == "tuple":
                            r = getattr(M, ctor)(tuple(shape), dtype=dt, **kw)
                        elif how_shape == "size":
                            r = getattr(M, ctor)(torch.Size(shape), dtype=dt, **kw)
                        else:
                            r = getattr(M, ctor)(shape=shape, dtype=dt, **kw)
                outcome = "ok"
            except TimeoutError as e:
                raise Infra(f"constructor timed out: {e}")
            except RuntimeError as e:
                outcome = "exists" if "already exists" in str(e) else "RuntimeError: " + str(e)[:100]
            except Exception as e:  # noqa: BLE001
                outcome = f"{type(e).__name__}: {str(e)[:100]}"
            problems = []
            refuse = where in ("short", "long") and eo is not True
            if refuse:
                if outcome != "exists":
                    problems.append(f"a file was there and existsok={eo}: expected a refusal, got {outcome}")
                elif list(f.read_bytes()) != old:
                    problems.append("the refused call changed the former file")
            elif outcome != "ok":
                problems.append(f"raised {outcome}")
            else:
                flat = r.reshape(-1)
                if list(r.shape) != shape or r.dtype != dt or not isinstance(r, M):
                    problems.append(f"result is a {type(r).__name__} of shape {list(r.shape)}, dtype {r.dtype}")
                if want_v is not None and not bool((flat == want_v).all()):
                    problems.append(f"values {flat.to(torch.float64).tolist()} instead of {want_v} everywhere")
                if where == "none":
                    if r._filename is not None or r._handler is None:
                        problems.append(f"without a filename: _filename={r._filename}, handler={r._handler}")
                else:
                    import os
                    if r._filename != os.path.abspath(str(f)):
                        problems.append(f"records the file name {r._filename}")
                    size = f.stat().st_size
                    if size < n * item or (where != "long" and size != n * item):
                        problems.append(f"file size {size} for {n} elements of {item} bytes")
                    back = M.from_filename(f, dtype=dt, shape=torch.Size(shape))
                    # bit-wise (`empty` over a former file shows whatever bytes were there: possibly NaN patterns)
                    if back.reshape(-1).numpy().tobytes() != flat.numpy().tobytes():
                        problems.append("from_filename reads back other values than the tensor handed back")
                # another process: same memory
                if not problems:
                    r.fill_(fill)
                    for method, pool in pools.items():
                        res = pool.apply(_child_fill, (bytes(ForkingPickler.dumps(r)), 0 if dt == torch.bool else fill + 1))
                        if res[0] != "ok":
                            problems.append(f"sent to a {method}ed process: {res[1]}")
                        elif res[1] != [float(fill)] * n:
                            problems.append(f"a {method}ed process sees {res[1]} instead of {fill}")
                        elif not bool((r.reshape(-1) == (0 if dt == torch.bool else fill + 1)).all()):
                            problems.append(f"the write made by a {method}ed process is not seen here")
                        r.fill_(fill)
                # the uint8 cases with a file against the leaf model: from_tensor of an expanded scalar (+ fill_)
                if dt == torch.uint8 and where != "none" and drv is not None and not problems:
                    like = ctor in ("empty", "empty_like", "zeros_like", "ones_like", "full_like")
                    src_v = {"zeros": 0, "ones": 1, "full": fill, "empty": 0, "zeros_like": 0, "ones_like": 1, "full_like": 0, "empty_like": 0}[ctor]
                    mdl = parse_sx(drv.ask(sx("c10.populate", ["mem", [src_v] * n], old, False, False, like, eo is True)))
                    if mdl[0] == "ok":
                        fb, tb = list(mdl[1]), list(mdl[2])
                        if ctor in ("zeros_like", "ones_like", "full_like"):
                            v2 = {"zeros_like": 0, "ones_like": 1, "full_like": fill}[ctor]
                            fb, tb = [v2] * n + fb[n:], [v2] * n
                        model = ["ok", fb, tb]
                    else:
                        model = ["err", mdl[1]]
                    r2 = None
                    # a second, identical call in a fresh directory gives the bytes before our fill_ above
                    d2 = root / f"c{it}_again"
                    d2.mkdir()
                    f2 = d2 / "x.memmap"
                    if old is not None:
                        f2.write_bytes(bytes(old))
                    kw2 = dict(kw, filename=f2)
                    if ctor.endswith("_like"):
                        r2 = getattr(M, ctor)(torch.empty(shape, dtype=dt), fill, **kw2) if ctor == "full_like" else getattr(M, ctor)(torch.empty(shape, dtype=dt), **kw2)
                    else:
                        r2 = getattr(M, ctor)(*shape, dtype=dt, **kw2)
                    run.corr("constructor(file, tensor handed back)", case, ["ok", list(f2.read_bytes()), r2.reshape(-1).tolist()], model)
            if not problems:
                run.oracle_ok("memmap_tensor_constructors")
            else:
                run.oracle_fail("memmap_tensor_constructors", case, f"MemoryMappedTensor.{ctor}: " + "; ".join(problems[:3]), f"ctor:{ctor}:{'raise' if outcome != 'ok' else 'differs'}")
            shutil.rmtree(d, ignore_errors=True)
    finally:
        shutil.rmtree(root, ignore_errors=True)


def run_ctors_pools(run, drv):
    import torch.multiprocessing as mp
    pools = {"fork": mp.get_context("fork").Pool(1)}
    if run.tier != "quick":
        pools["spawn"] = mp.get_context("spawn").Pool(1)
    try:
        run_ctors(run, drv, pools)
    finally:
        for p in pools.values():
            p.terminate()
