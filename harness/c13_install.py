"""C13 — `params.to_module(module, return_swap=False)`: the `to_module_no_swap` stream.

Model: `installEntriesWith` (Model/C13Module.lean): the loop of `_to_module` without the swap dicts — and without the memo,
which is only filled under `if return_swap`, so a submodule reached twice is written twice (the last sub-tensordict wins).
Theorems: install_agrees_on_one_module, install_keeps_kids.
Compared: outcome (ok / error class) and the three dicts of every module as ordered lists of object ids (also after an error:
the half-written state). Oracle, independent of the model: the call returns None, every (module, name) the tensordict names
binds the very object supplied last for it, every other attribute binds the object it bound before, no name is added or lost."""
import torch

import c13_graph as G
from common import parse_sx, time_limit


def cells_of(mods):
    out = {}
    for i, m in enumerate(mods):
        for nm, v in list(m._parameters.items()) + list(m._buffers.items()):
            out[(i, nm)] = None if v is None else id(v)
        for nm, v in m.__dict__.items():
            if isinstance(v, torch.Tensor):
                out[(i, nm)] = id(v)
    return out


def run_install(run, drv, ask, rng, err_word):
    n = 400 if run.tier == "quick" else 4000
    reqs, ctx = [], []
    for _ in range(n):
        graph = G.gen_graph(rng)
        world = G.World(graph["kinds"])
        root = 0 if rng.random() < 0.8 else rng.randrange(0, len(graph["mods"]))
        malformed = rng.random() < 0.2
        if malformed:
            for md in graph["mods"]:
                md["custom"] = False
        consistent = rng.random() < 0.5
        tree = G.gen_tree(rng, graph, world, root, malformed=malformed, **({"per_cell": {}, "per_mod": {}} if consistent else {}))
        gsx, tsx = G.graph_sx(graph, world), G.tree_sx(tree, world)
        reqs.append(f"(c13.install {gsx} {root} {tsx})")
        ctx.append((graph, world, root, tree, gsx, tsx))
    answers = ask(drv, reqs)
    for i, (graph, world, root, tree, gsx, tsx) in enumerate(ctx):
        model = parse_sx(answers[i])
        run.case(("install", gsx, root, tsx), nontrivial=bool(tree))
        mods = G.build(graph, world)
        index = {id(m): j for j, m in enumerate(mods)}
        before = cells_of(mods)
        td = G.make_td(tree, world)
        ret = "unset"
        try:
            with time_limit(60):
                ret = td.to_module(mods[root], return_swap=False)
            impl = ["ok", G.snapshot(mods, world)]
        except TimeoutError:
            raise
        except Exception as e:  # noqa: BLE001
            impl = ["err", err_word(e), G.snapshot(mods, world)]
        run.count("install.outcome", impl[0] if impl[0] == "ok" else "err-" + impl[1])
        run.corr("to_module_no_swap", [gsx, root, tsx], impl, model)
        if i < 2:
            run.sample({"stream": "to_module_no_swap", "graph": gsx, "root": root, "params": tsx, "model": answers[i][:500]})
        if impl[0] != "ok":
            continue
        want = {}

        def walk(mod, tr):
            for nm, v in tr:
                if v[0] == "leaf":
                    want[(index[id(mod)], nm)] = id(world.T(v[1]))
                else:
                    walk(mod._modules[nm], v[1])
        walk(mods[root], tree)
        after = cells_of(mods)
        bad = []
        if ret is not None:
            bad.append("returned " + type(ret).__name__)
        if set(after) != set(before):
            bad.append("names " + str(sorted(set(after) ^ set(before))[:4]))
        for key, obj in want.items():
            if after.get(key) != obj:
                bad.append(f"not-installed {key}")
        for key, obj in before.items():
            if key not in want and after.get(key) != obj:
                bad.append(f"other-attribute-changed {key}")
        if bad:
            run.oracle_fail("to_module_no_swap", [gsx, root, tsx], "to_module(return_swap=False): " + "; ".join(bad[:5]), "install:" + bad[0].split(" ")[0])
        else:
            run.oracle_ok("to_module_no_swap")
