"""C11 stream R: the order-sensitive parts of rebuilding a consolidated tensordict from its metadata, against
Model/C11Rebuild.lean:
 * jagged nested tensors (values / lengths / offsets metadata leaves and the re-assembling loop of
   `_rebuild_tensordict_files_consolidated`): nodes with several nested tensors, with and without `lengths=`;
 * the member order of a lazy stack (`LazyStackedTensorDict.from_dict` over `str(i)` keys), up to 30 members."""
from __future__ import annotations

import copy
import pickle

import torch

from common import Infra, parse_sx, sx, time_limit
from c12_fns import ask_batched


def gen_items(rng, n_comp):
    """[(kind, key, spec)]: plain leaves and jagged nested tensors of `n_comp` components, every tensor with
    contents of its own (values / lengths / offsets are told apart by what they hold)"""
    keys = list("abcdefgh")
    rng.shuffle(keys)
    n = rng.randint(1, 5)
    items, seen_off, seen_len = [], set(), set()
    for i in range(n):
        k = keys[i]
        if rng.random() < 0.3:
            items.append(("p", k, None))
            continue
        for _ in range(50):
            gaps = [rng.randint(2, 5) for _ in range(n_comp)]
            off = tuple([0] + [sum(gaps[: j + 1]) for j in range(n_comp)])
            if off not in seen_off:
                break
        seen_off.add(off)
        lengths = None
        if rng.random() < 0.5:
            for _ in range(50):
                lengths = tuple(rng.randint(1, g) for g in gaps)
                if lengths not in seen_len and lengths != tuple(gaps):
                    break
            seen_len.add(lengths)
        items.append(("j", k, (off, lengths)))
    return items


def build_items(items, n_comp):
    from tensordict import TensorDict
    d, ids = {}, {}
    for i, (kind, k, spec) in enumerate(items):
        if kind == "p":
            t = torch.full((n_comp, 2), 1000 * (i + 1), dtype=torch.int32)
            ids[("t", tuple(t.reshape(-1).tolist()))] = 10 * i + 1
            d[k] = t
        else:
            off, lengths = spec
            values = (torch.arange(off[-1] * 2, dtype=torch.float32) + 1000 * (i + 1)).view(off[-1], 2)
            ids[("t", tuple(values.reshape(-1).tolist()))] = 10 * i + 1
            ids[("o", off)] = 10 * i + 3
            kw = {}
            if lengths is not None:
                ids[("l", lengths)] = 10 * i + 2
                kw["lengths"] = torch.tensor(lengths)
            d[k] = torch.nested.nested_tensor_from_jagged(values, offsets=torch.tensor(off), **kw)
    return TensorDict(d, batch_size=[n_comp]), ids


def items_sx(items):
    out = []
    for i, (kind, k, spec) in enumerate(items):
        if kind == "p":
            out.append(["p", k, 10 * i + 1])
        else:
            out.append(["j", k, 10 * i + 1, 10 * i + 2 if spec[1] is not None else None, 10 * i + 3])
    return out


def describe(td, ids):
    """the leaves of a (rebuilt) node in iteration order, every tensor named by the id of its contents"""
    out = []
    for k, v in td.items():
        if v.is_nested:
            ln = v._lengths
            out.append(["j", k, ids.get(("t", tuple(v._values.reshape(-1).tolist())), -1),
                        "none" if ln is None else ids.get(("l", tuple(ln.tolist())), -1),
                        ids.get(("o", tuple(v._offsets.tolist())), -1)])
        else:
            out.append(["p", k, ids.get(("t", tuple(v.reshape(-1).tolist())), -1)])
    return out


def comps(td):
    return [[k, [c.tolist() for c in v.unbind(0)] if v.is_nested else v.tolist()] for k, v in sorted(td.items(), key=lambda kv: kv[0])]


def run_rebuild(run, drv, scratch):
    from tensordict import LazyStackedTensorDict, TensorDict
    rng = run.rng
    quick = run.tier == "quick"
    # ---- jagged nested tensors
    cases = []
    fixed = [[("j", "a", ((0, 3, 7, 10), (2, 3, 1))), ("j", "b", ((0, 2, 5, 10), None))],      # lengths, then offsets only
             [("j", "a", ((0, 2, 5, 10), None)), ("j", "b", ((0, 3, 7, 10), (2, 3, 1)))],
             [("j", "a", ((0, 3, 7, 10), (2, 3, 1))), ("p", "m", None), ("j", "b", ((0, 2, 5, 10), None)), ("j", "c", ((0, 4, 8, 9), (1, 1, 1)))]]
    for it in range(40 if quick else 300):
        n_comp = 3 if it < len(fixed) else rng.choice([2, 3, 4])
        cases.append((fixed[it] if it < len(fixed) else gen_items(rng, n_comp), n_comp))
    answers = [parse_sx(a) for a in ask_batched(drv, [sx("c11.njt", items_sx(items)) for items, _ in cases], 20)]
    tagname = {"<NJT_VALUES>": "values", "<NJT_LENGTHS>": "lengths", "<NJT_OFFSETS>": "offsets"}
    for ci, ((items, n_comp), m) in enumerate(zip(cases, answers)):
        run.case(("njt", str(items)), nontrivial=sum(1 for x in items if x[0] == "j") >= 2)
        run.count("njt.nested_per_node", sum(1 for x in items if x[0] == "j"))
        td, ids = build_items(items, n_comp)
        nt = rng.choice([0, 1, 4])
        how = rng.choice(["pickle", "deepcopy", "file"])
        try:
            with time_limit(120):
                if how == "file":
                    f = scratch / f"njt{ci}.mmap"
                    c = td.consolidate(filename=f, num_threads=nt)
                    r = TensorDict.from_consolidated(f)
                else:
                    c = td.consolidate(metadata=True, num_threads=nt)
                    r = pickle.loads(pickle.dumps(c)) if how == "pickle" else copy.deepcopy(c)
            flat = []
            for key in c._consolidated["metadata"]["leaves"]:
                for pre, tg in tagname.items():
                    if key.startswith(pre):
                        flat.append([tg, key[len(pre):]])
                        break
                else:
                    flat.append(["plain", key])
            impl = [flat, describe(r, ids)]
            same = comps(r) == comps(td) and comps(c) == comps(td)
        except TimeoutError as e:
            raise Infra(f"consolidate / rebuild timed out: {e}")
        except Exception as e:  # noqa: BLE001
            impl = ["err", f"{type(e).__name__}: {str(e)[:120]}"]
            same = False
        model = [[[x[0], x[1]] for x in m[0]], [list(x) for x in m[1]] if m[1] != "none" else "none"]
        run.corr(f"njt(metadata leaves, rebuilt by {how})", [str(items), nt], impl, model)
        if same:
            run.oracle_ok("roundtrip:njt")
        else:
            run.oracle_fail("roundtrip:njt", {"items": str(items), "how": how, "num_threads": nt},
                            f"{how} of a consolidated node with nested tensors {items}: " + (impl[1] if impl[0] == "err" else "components differ"),
                            f"njt:{how}:" + ("raise" if impl[0] == "err" else "values"))
    # ---- member order of a lazy stack
    for it in range(30 if quick else 200):
        n = [1, 2, 10, 11, 12, 21][it] if it < 6 else rng.randint(1, 30)
        order = list(range(n))
        rng.shuffle(order)
        d = {str(i): {"idx": torch.tensor([i + 100])} for i in order}
        run.case(("lazyfrom", n, str(order)), nontrivial=n > 10)
        run.count("lazyfrom.members", "<=10" if n <= 10 else ">10")
        try:
            ls = LazyStackedTensorDict.from_dict(d)
            impl = [int(m_["idx"]) for m_ in ls.tensordicts]
        except Exception as e:  # noqa: BLE001
            impl = ["err", f"{type(e).__name__}: {str(e)[:120]}"]
        m = parse_sx(drv.ask(sx("c11.lazyfrom", [[str(i), i + 100] for i in order])))
        run.corr("lazy_from_dict(member order)", [n, order], impl, list(m[0]) if m != "none" else "none")
