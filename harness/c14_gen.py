"""C14 helpers: random module graphs over a small key universe, the real TensorDictModules built from
them (each computing an injective-in-practice integer hash of its inputs, so values identify dataflow),
protocol text, evaluation of the model's symbolic values.

A *program* is a list of modules {"ins": [key], "outs": [key], "f": id}; keys are str or tuples.
"""
from __future__ import annotations

import collections

import torch

UNIVERSE = ["a", "b", "c", "d", ("n", "x"), ("n", "y")]
SINK = "_"
P = (1 << 31) - 1          # products of two residues stay below 2**62: the same formula runs on int64 tensors
MUL = 1103515245
INC = 0x3C6EF372
SEED = 20100907


def hmix(h, x):
    """one step of the hash; works on Python ints and, elementwise, on int64 tensors"""
    return (h * MUL + (x % P) + INC) % P


def hval(*xs):
    h = SEED
    for x in xs:
        h = hmix(h, x)
    return h


def key_id(k):
    s = k if isinstance(k, str) else "\x00".join(k)
    return hval(*[ord(c) for c in s], 77)


def input_val(k):
    return hval(1, key_id(k))


def app_val(f, args, i):
    return hval(2, f, i, len(args), *args)


def make_fn(fid, nout):
    def fn(*args):
        if any(a is None for a in args):
            raise TypeError("None input (a missing in_key)")
        outs = []
        for i in range(nout):
            h = hval(2, fid, i, len(args))
            for a in args:
                h = hmix(h, a.to(torch.int64))
            outs.append(h if isinstance(h, torch.Tensor) else torch.tensor(h, dtype=torch.int64))
        return tuple(outs)
    fn.fid = fid
    return fn


# --------------------------------------------------------------------------- generation
def gen_prog(rng, nmax=5, ssa_bias=0.35):
    """mostly arbitrary dataflow (overwritten keys, keys read and written, sinks); with probability
    `ssa_bias` a single-assignment program"""
    n = rng.randint(1, nmax)
    want_ssa = rng.random() < ssa_bias
    prog = []
    written, read = [], []
    for i in range(n):
        nin = rng.choice([0, 1, 1, 1, 2, 2, 3])
        nout = rng.choice([0, 1, 1, 1, 2, 2, 3]) if not want_ssa else rng.choice([1, 1, 2])
        pool_in = UNIVERSE[:]
        # prefer reading something that exists
        ins = []
        for _ in range(nin):
            if not want_ssa and ins and rng.random() < 0.05:
                ins.append(rng.choice(ins))          # the same key read twice
                continue
            cand = [k for k in (written if written and rng.random() < 0.5 else pool_in) if k not in ins]
            if cand:
                ins.append(rng.choice(cand))
        outs = []
        for _ in range(nout):
            if not want_ssa and rng.random() < 0.12:
                outs.append(SINK)
                continue
            if not want_ssa and [k for k in outs if k != SINK] and rng.random() < 0.05:
                outs.append(rng.choice([k for k in outs if k != SINK]))      # the same key written twice by one module: the last output wins
                continue
            if want_ssa:
                cand = [k for k in UNIVERSE if k not in written and k not in read and k not in ins and k not in outs]
            else:
                cand = [k for k in UNIVERSE if k not in outs]
            if cand:
                outs.append(rng.choice(cand))
        prog.append({"ins": ins, "outs": outs, "f": i})
        read += ins
        written += [k for k in outs if k != SINK]
    return prog


def all_outs(prog):
    return [k for m in prog for k in m["outs"]]


def is_ssa(prog):
    """the Lean `SSA` predicate"""
    for i, m in enumerate(prog):
        later_and_self = [k for mm in prog[i:] for k in mm["outs"]]
        later = [k for mm in prog[i + 1:] for k in mm["outs"]]
        if any(k in later_and_self for k in m["ins"]):
            return False
        if any(k != SINK and k in later for k in m["outs"]):
            return False
    return True


def gen_env(rng, prog, mode="good"):
    """keys present in the input"""
    if mode == "all":
        return UNIVERSE[:]
    free = []
    outs = []
    for m in prog:
        for k in m["ins"]:
            if k not in outs and k not in free:
                free.append(k)
        outs += m["outs"]
    extra = [k for k in UNIVERSE if k not in free and rng.random() < 0.4]
    env = free + extra
    if mode == "missing" and free:
        env.remove(rng.choice(free))
    rng.shuffle(env)
    return env


# --------------------------------------------------------------------------- protocol text
def key_sx(k):
    return "(k " + (k if isinstance(k, str) else " ".join(k)) + ")"


def keys_sx(head, ks):
    return "(" + head + "".join(" " + key_sx(k) for k in ks) + ")"


def prog_sx(prog):
    return "(mods" + "".join(f" (m {keys_sx('ins', m['ins'])} {keys_sx('outs', m['outs'])} {m['f']})" for m in prog) + ")"


def parse_key(p):
    comps = [str(c) for c in p[1:]]
    return comps[0] if len(comps) == 1 else tuple(comps)


def eval_v(v):
    if v[0] == "input":
        return input_val(parse_key(v[1]))
    return app_val(int(v[1]), [eval_v(a) for a in v[2]], int(v[3]))


def model_env(ans):
    """(ok ((key val) ...)) -> sorted [(key, int)] ; (err) -> 'err'"""
    if ans[0] == "err":
        return "err"
    return sorted(((parse_key(kv[0]), eval_v(kv[1])) for kv in ans[1]), key=lambda kv: str(kv[0]))


# --------------------------------------------------------------------------- the real thing
def build_mods(prog, **kw):
    from tensordict.nn import TensorDictModule
    mods = []
    for m in prog:
        tm = TensorDictModule(make_fn(m["f"], len(m["outs"])), in_keys=list(m["ins"]), out_keys=list(m["outs"]), **kw)
        tm.fid = m["f"]
        mods.append(tm)
    return mods


def build_seq(prog, container="list", **kw):
    from tensordict.nn import TensorDictSequential
    mods = build_mods(prog)
    if container == "dict":
        return TensorDictSequential(collections.OrderedDict((f"layer{i}", m) for i, m in enumerate(mods)), **kw)
    return TensorDictSequential(*mods, **kw)


def make_input(env_keys, salt=0):
    from tensordict import TensorDict
    td = TensorDict({}, batch_size=[])
    for k in env_keys:
        td.set(k, torch.tensor((input_val(k) + salt) % P, dtype=torch.int64))
    return td


def td_items(td):
    return sorted(((k if isinstance(k, str) else tuple(k), int(v.item())) for k, v in td.items(True, True)), key=lambda kv: str(kv[0]))


def kept_fids(seq):
    out = []
    for m in seq._module_iter():
        out.append(m.fid)
    return out


def reference_run(prog, env_keys):
    """the property's own reading of a sequence: apply the modules one after another on a plain dict;
    out_key i receives output i of the function, '_' is discarded. None = some module lacks an input."""
    env = {k: input_val(k) for k in env_keys}
    for m in prog:
        if any(k not in env for k in m["ins"]):
            return None
        args = [env[k] for k in m["ins"]]
        for i, k in enumerate(m["outs"]):
            if k != SINK:
                env[k] = app_val(m["f"], args, i)
    return sorted(env.items(), key=lambda kv: str(kv[0]))


def prog_from_sx(text):
    from common import parse_sx
    out = []
    for m in parse_sx(text)[1:]:
        out.append({"ins": [parse_key(k) for k in m[1][1:]], "outs": [parse_key(k) for k in m[2][1:]], "f": int(m[3])})
    return out
