"""C17 — context-managed transformations write back through the inverse (DESIGN §6 C17)."""
from __future__ import annotations

import json

from common import Run, main_guard, parse_sx
import c17_lib as L


def ask_chunked(drv, lines, max_bytes=30000):
    out, cur, size = [], [], 0
    for l in lines:
        if cur and size + len(l) + 1 > max_bytes:
            out += drv.ask_many(cur)
            cur, size = [], 0
        cur.append(l)
        size += len(l) + 1
    if cur:
        out += drv.ask_many(cur)
    return out


def expected_error(st, op, edits):
    """argument / state classes for which an exception is the documented outcome (not a C17 violation)"""
    bs, names, keys, locked = st
    if op[0] == "squeeze" and op[1] is None:
        return "implicit squeeze cannot be inverted (documented RuntimeError)"
    if (locked or op[0] == "lock_") and op[0] not in ("flatten_keys", "unflatten_keys", "unlock_") and any(e[0] == "add" for e in edits):
        return "adding a key to a locked yielded object (locked original, or lock_ itself)"
    if op[0] == "flatten_keys":
        flat = [op[1].join(k) for k in keys]
        if len(set(flat)) < len(flat):
            return "flatten_keys collision"
    if op[0] == "unflatten_keys":
        out = [tuple(k[0].split(op[1])) if len(k) == 1 else k for k in keys]
        if len(set(out)) < len(out) or any(p != q and q[: len(p)] == p for p in out for q in out):
            return "unflatten_keys clash"
    return None


def model_lines(st, name, args, kwargs, edits):
    return f"(c17.with {name} {L.enc_call(args, kwargs)} {L.enc_edits(edits)} {L.enc_state(st)})"


def meta_state(m):
    """meta(...) of a tensordict -> state tuple for enc_state"""
    bs, names, keys, locked = m
    return (tuple(bs), tuple(None if n == "none" else n for n in names) if any(n != "none" for n in names) else None, keys, locked)


def flush(run, drv, reqs):
    answers = ask_chunked(drv, [model_lines(st, op[0], a, k, e) for (stream, st, op, a, k, e) in reqs])
    results = []
    with L.ExitRecorder() as rec:
        for (stream, st, op, args, kwargs, edits) in reqs:
            rec.calls = []
            res = L.run_block(st, op[0], args, kwargs, edits, canon_op=op)
            results.append((res, list(rec.calls)))
    # the inverse call `__exit__` made (observable output of `_reverse_*`) vs the model's `reverse`
    rev_reqs, rev_idx = [], []
    for i, ((stream, st, op, args, kwargs, edits), (res, calls)) in enumerate(zip(reqs, results)):
        if res[0][0] == "ok" and calls and res[2] is not None and op[0] not in ("lock_", "unlock_"):
            rev_reqs.append(f"(c17.reverse {op[0]} {L.enc_call(args, kwargs)} {L.enc_state(meta_state(res[2]))} {L.enc_state(st)})")
            rev_idx.append(i)
    for i, ans in zip(rev_idx, ask_chunked(drv, rev_reqs)):
        (stream, st, op, args, kwargs, edits), (res, calls) = reqs[i], results[i]
        m = parse_sx(ans)
        impl = L.canon_inverse_call(calls[0])
        if m[0] == "ok" and m[1] == "identity":
            continue        # nothing is called (single-entry unflatten)
        model = [m[1], [list(v) if isinstance(v, list) else v for v in m[2]]] if m[0] == "ok" else ["err", m[1]]
        run.corr("reverse:" + op[0], {"op": list(op), "args": list(args), "kwargs": kwargs, "state": L.enc_state(st)}, impl, model)
    for (stream, st, op, args, kwargs, edits), ans, (res, _) in zip(reqs, answers, results):
        impl = res[0]
        m = parse_sx(ans)
        model = ["err", m[1]] if m[0] == "err" else ["ok", L.dec_state(m[1])]
        case = {"op": list(op), "args": [list(a) if isinstance(a, tuple) else a for a in args], "kwargs": {k: (list(v) if isinstance(v, tuple) else v) for k, v in kwargs.items()},
                "edits": [list(e) for e in edits], "state": L.enc_state(st)}
        run.case(json.dumps(case, default=str), nontrivial=True)
        run.count("op", op[0])
        run.count("spelling", ("pos" if args and not kwargs else "kw" if kwargs and not args else "mixed" if args else "bare"))
        run.count("locked", st[3])
        run.count("edits", "+".join(e[0] for e in edits) or "none")
        run.count("outcome", impl[0] if impl[0] == "ok" else "err:" + impl[1])
        run.corr(stream, case, impl, model)
        # the property itself
        if impl[0] == "ok":
            L.oracle(run, st, op, args, kwargs, edits, res)
        else:
            why = expected_error(st, op, edits)
            if impl[1] == "timeout":
                run.oracle_fail("ctx", case, "does not terminate", f"{op[0]}:timeout")
            elif why is None:
                run.oracle_fail("ctx", case, f"a valid context-managed call raised {type(res[5]).__name__}: {str(res[5])[:140]}",
                                f"{op[0]}:raises:{type(res[5]).__name__}")
            else:
                run.count("oracle.expected_error", why.split(" ")[0])
                run.oracle_ok("ctx")
    # bindings: the model's `exitBinds` (rebinding `update` for an unlocked original, in-place `update_` for a locked one) vs the
    # storage each path of the original names after the block
    b_reqs, b_idx, b_ids = [], [], []
    for i, ((stream, st, op, args, kwargs, edits), (res, _)) in enumerate(zip(reqs, results)):
        if res[0][0] != "ok" or res[6] is None or op[0] in ("lock_", "unlock_") or "y" not in res[6]:
            continue
        ids = {}
        b = res[6]
        line = (f"(c17.bind {op[0]} {L.enc_call(args, kwargs)} {'true' if st[3] else 'false'} "
                f"{L.enc_binds(b['out'], ids)} {L.enc_binds(b['y'], ids)})")
        b_reqs.append(line); b_idx.append(i); b_ids.append(ids)
    for i, ids, ans in zip(b_idx, b_ids, ask_chunked(drv, b_reqs)):
        (stream, st, op, args, kwargs, edits), (res, _) = reqs[i], results[i]
        m = parse_sx(ans)
        model = ["err", m[1]] if m[0] == "err" else ["ok", L.dec_binds(m[1])]
        impl = ["ok", sorted((k, ids.setdefault(p, len(ids) + 1)) for k, p in res[6]["after"].items())]
        run.corr("bind:" + op[0], {"op": list(op), "args": [list(a) if isinstance(a, tuple) else a for a in args], "kwargs": kwargs,
                                   "edits": [list(e) for e in edits], "state": L.enc_state(st)}, impl, model)
    reqs.clear()


def main():
    run = Run("C17")
    run.rule = ("originals: batch rank 0-3 (dims 1,2,3), named/unnamed, 1-5 leaf keys incl. nested paths and keys containing a separator, locked 35%; "
                "every @_as_context_manager op except to_module (C13) with EVERY spelling of its canonical arguments (positional / keyword / mixed / negative dims / "
                "list-vs-varargs / -1 sizes / default separator); inside the block: nothing, in-place value edit, added key, added nested key; "
                "a case is distinct if (state, op, spelling, edits) is new")
    run.trusted += [
        "harness/c17_gen.py (ast extraction of the @_as_context_manager methods, LAST_OP_MAPS and the signatures; the theorems over Gen/CtxTable.lean are re-checked against the current source on every run)",
        "Model/C17Ctx.lean: hand transcription of the call binding, of tensordict/_contextlib.py:_reverse_* and of the update/update_ write-back on metadata; validated each run against the working tree through the driver",
        "Model/C02Td.lean (forward shape arithmetic, shared with C02)",
    ]
    run.assumptions += ["values are checked by the oracle (torch.equal against inverse_op(modified) with canonical arguments) and by value-level inverse theorems on functional tensors; the Lean state is metadata (batch, names, key paths, lock)",
                        "to_module is left to C13; lazy stacks / tensorclasses are oracle-only (by-hand LIFO inverse)"]
    import c17_gen
    try:
        c17_gen.regenerate()
    except c17_gen.Untranslatable as e:
        run.proof_broken.append(f"translator:CtxTable:{e}")
    import c02_gen
    try:
        c02_gen.regenerate()
        for k in c02_gen.changed_since_pin():
            if k.split(":")[0] in ("tensordict/_contextlib.py",) or "__exit__" in k or "__enter__" in k or "_as_context_manager" in k:
                run.notes.append(f"transcribed source changed since it was pinned: {k} (re-read Model/C17Ctx.lean against it, then c02_gen.py --repin)")
    except c02_gen.Untranslatable as e:
        run.proof_broken.append(f"translator:C02Src:{e}")
    run.build_and_audit(["TdVerif.Props.C17"])
    drv = run.driver()
    rng = run.rng
    quick = run.tier == "quick"
    reqs = []
    # ---- corpus (minimised past failures) first
    import json as _json
    from common import VERIF as _VERIF
    cdir = _VERIF / "corpus" / "C17"
    if cdir.exists():
        for cp in sorted(cdir.glob("*.json")):
            c = _json.loads(cp.read_text())
            bs, names, keys, locked = c["state"]
            st = (tuple(bs), None if names is None else tuple(names), [tuple(k) for k in keys], bool(locked))
            op = tuple(tuple(x) if isinstance(x, list) else x for x in c["op"])
            args = tuple(tuple(x) if isinstance(x, list) else x for x in c["args"])
            edits = [tuple(tuple(y) if isinstance(y, list) else y for y in e) for e in c["edits"]]
            reqs.append(("with:corpus", st, op, args, c["kwargs"], edits))
    nstates = 260 if quick else 2500
    for i in range(nstates):
        name = rng.choice(["transpose", "permute", "squeeze", "unsqueeze", "flatten", "unflatten", "view",
                           "flatten_keys", "unflatten_keys", "lock_", "unlock_"])
        st = L.gen_state(rng, for_op=name)
        op = L.gen_canonical(rng, st, name)
        sps = L.spellings(op, st)
        if quick and len(sps) > 6:
            sps = rng.sample(sps, 6)
        for args, kwargs in sps:
            r = rng.random()
            edits = []
            if r < 0.25:
                edits = [("value",)]
            elif r < 0.55:
                edits = [("add", ("z",))]
            elif r < 0.75:
                edits = [("add", ("w", "v"))]
            elif r < 0.85:
                edits = [("value",), ("add", ("z",)), ("add", ("n", "zz"))]
            if not st[3] and op[0] != "lock_" and rng.random() < 0.45:
                # rebinding edits (unlocked originals: the yielded object of a locked original is locked, `set` of a new tensor is refused)
                edits = edits + [rng.choice([("swap",), ("rebind", "dtype"), ("rebind", "feat"), ("rebind", "new"), ("swap",)])]
                if rng.random() < 0.3:
                    edits = [("swap",)] + edits
            reqs.append(("with:" + op[0], st, op, args, kwargs, edits))
        if len(reqs) > 300:
            flush(run, drv, reqs)
    flush(run, drv, reqs)
    # malformed spellings: wrong keyword names, missing / surplus arguments, out-of-range dims
    for i in range(120 if quick else 1500):
        st = L.gen_state(rng)
        n = len(st[0])
        bad = rng.choice([
            ("transpose", (0,), {}), ("transpose", (), {"dim0": 0}), ("transpose", (0, 0, 0), {}), ("transpose", (0,), {"dim0": 0}),
            ("transpose", (n + 1, 0), {}), ("flatten", (0, 1), {"end_dim": 1}), ("flatten", (), {"start": 0}),
            ("unflatten", (0,), {}), ("unsqueeze", (), {}), ("unsqueeze", (n + 2,), {}), ("squeeze", (n + 1,), {}),
            ("permute", (0, 0), {}), ("permute", (0,), {"dims": [0]}), ("view", (7, 7), {}), ("view", (), {"shape": (1,)}),
            ("flatten_keys", (), {"sep": "."}), ("unflatten_keys", (".", False, None), {}), ("lock_", (1,), {}),
        ])
        reqs.append(("with:malformed", st, (bad[0], "malformed"), bad[1], bad[2], []))
    # for malformed calls only the correspondence (error class / unchanged original) is checked
    answers = ask_chunked(drv, [model_lines(st, op[0], a, k, e) for (_, st, op, a, k, e) in reqs])
    for (stream, st, op, args, kwargs, edits), ans in zip(reqs, answers):
        res = L.run_block(st, op[0], args, kwargs, edits)
        m = parse_sx(ans)
        model = ["err", m[1]] if m[0] == "err" else ["ok", L.dec_state(m[1])]
        run.case(("malformed", op[0], str(args), str(kwargs), L.enc_state(st)))
        run.count("malformed.outcome", res[0][0] if res[0][0] == "ok" else "err:" + res[0][1])
        run.corr(stream, {"op": op[0], "args": list(args), "kwargs": kwargs, "state": L.enc_state(st)}, res[0], model)
    reqs.clear()
    # ---- nested blocks: block inside block on the yielded object / on the same object (model + by-hand LIFO oracle)
    nested_reqs, nested_cases = [], []
    for i in range(150 if quick else 2000):
        n1 = rng.choice(["transpose", "permute", "squeeze", "unsqueeze", "flatten", "unflatten", "view", "flatten_keys", "lock_", "unlock_"])
        st = L.gen_state(rng, for_op=n1)
        op1 = L.gen_canonical(rng, st, n1)
        sp1 = rng.choice(L.spellings(op1, st))
        kind = rng.choice(["yielded", "yielded", "same"])
        # the state the inner op sees
        try:
            inner_td = L.build(st)
            y = L.apply_spelled(inner_td, op1[0], *sp1)
            inner_st = L.meta_to_state(L.meta(y if kind == "yielded" else inner_td))
        except Exception:
            continue
        n2 = rng.choice(["transpose", "permute", "squeeze", "unsqueeze", "flatten", "unflatten", "view", "unflatten_keys", "flatten_keys"])
        if n2 == "view" and n1 in ("transpose", "permute"):
            n2 = "unsqueeze"      # torch: view needs contiguous leaves; the outer result is not (outside C17)
        op2 = L.gen_canonical(rng, inner_st, n2)
        sp2 = rng.choice(L.spellings(op2, inner_st))
        e2 = rng.choice([[], [("value",)], [("add", ("z",))], [("add", ("w", "v"))]])
        e1 = rng.choice([[], [("value",)], [("add", ("u",))]])
        nested_cases.append((st, kind, op1, sp1, op2, sp2, e2, e1))
        nested_reqs.append(f"(c17.nested {kind} {op1[0]} {L.enc_call(*sp1)} {op2[0]} {L.enc_call(*sp2)} {L.enc_edits(e2)} {L.enc_edits(e1)} {L.enc_state(st)})")
    for (st, kind, op1, sp1, op2, sp2, e2, e1), ans in zip(nested_cases, ask_chunked(drv, nested_reqs)):
        impl, td, ref, exc = L.run_nested(st, kind, op1, sp1, op2, sp2, e2, e1)
        m = parse_sx(ans)
        model = ["err", m[1]] if m[0] == "err" else ["ok", L.dec_state(m[1])]
        case = {"kind": kind, "op1": list(op1), "sp1": [list(sp1[0]), sp1[1]], "op2": list(op2), "sp2": [list(sp2[0]), sp2[1]], "edits2": e2, "edits1": e1, "state": L.enc_state(st)}
        run.case(json.dumps(case, default=str))
        run.count("nested.kind", kind)
        run.count("nested.outcome", impl[0] if impl[0] == "ok" else "err:" + impl[1])
        overlap = impl[0] == "err" and "refer to a single memory location" in str(exc)
        if overlap:
            # torch refuses the in-place copy of a view onto the same memory with a different layout: only reachable with a
            # locked original (update_) and a non-contiguous intermediate; the metadata model has no strides
            run.count("nested.overlap", f"{op1[0]}>{op2[0]}")
            run.oracle_fail("ctx_nested", case, f"nested blocks on a locked original raised {str(exc)[:150]}",
                            f"nested:locked-overlap:{'locked' if st[3] else 'unlocked'}")
            continue
        run.corr("nested:" + kind, case, impl, model)
        if impl[0] == "ok" and ref is not None:
            bad = L.same_td(td, ref)
            if bad:
                run.oracle_fail("ctx_nested", case, f"original after the nested blocks differs from the by-hand LIFO inverse: {bad}", f"nested:{op1[0]}:{op2[0]}")
            else:
                run.oracle_ok("ctx_nested")
        elif impl[0] == "err":
            locked_add = (st[3] or "lock_" in (op1[0],)) and any(e[0] == "add" for e in e2 + e1)
            if impl[1] == "lock" and locked_add:
                run.oracle_ok("ctx_nested")
            elif op2[0] == "squeeze" and op2[1] is None or op1[0] == "squeeze" and op1[1] is None:
                run.oracle_ok("ctx_nested")
            elif model[0] == "err":
                run.count("nested.both_err", impl[1])
                run.oracle_ok("ctx_nested")
            else:
                run.oracle_fail("ctx_nested", case, f"valid nested blocks raised {type(exc).__name__}: {str(exc)[:140]}", f"nested:raises:{op1[0]}:{op2[0]}")

    # ---- sequential blocks on the same original: the second block must not see anything of the first (stale `_last_op` / queue entries)
    for i in range(100 if quick else 1500):
        n1 = rng.choice(["transpose", "permute", "squeeze", "unsqueeze", "flatten", "unflatten", "view", "flatten_keys", "lock_", "unlock_"])
        n2 = rng.choice(["transpose", "permute", "squeeze", "unsqueeze", "flatten", "unflatten", "view", "flatten_keys", "lock_", "unlock_"])
        if n2 == "view" and n1 in ("transpose", "permute"):
            n2 = "unsqueeze"      # torch: view needs contiguous leaves; a key added in the first block comes back non-contiguous (outside C17)
        st = L.gen_state(rng, for_op=rng.choice([n1, n2]))
        op1 = L.gen_canonical(rng, st, n1); sp1 = rng.choice(L.spellings(op1, st))
        op2 = L.gen_canonical(rng, st, n2); sp2 = rng.choice(L.spellings(op2, st))
        e1 = rng.choice([[], [("value",)], [("add", ("u",))]])
        e2 = rng.choice([[], [("value",)], [("add", ("z",))], [("swap",)] if not st[3] and op2[0] != "lock_" else []])
        case = {"op1": list(op1), "sp1": [list(sp1[0]), sp1[1]], "edits1": [list(e) for e in e1],
                "op2": list(op2), "sp2": [list(sp2[0]), sp2[1]], "edits2": [list(e) for e in e2], "state": L.enc_state(st)}
        run.case(json.dumps(case, default=str))
        # model: two `withBlock`s in a row
        m1 = parse_sx(drv.ask(model_lines(st, op1[0], sp1[0], sp1[1], e1)))
        if m1[0] == "err":
            model = ["err", m1[1]]
        else:
            mid = L.dec_state(m1[1])
            mid_st = (tuple(mid[0]), tuple(None if x == "none" else x for x in mid[1]) if any(x != "none" for x in mid[1]) else None, [tuple(k) for k in mid[2]], mid[3])
            m2 = parse_sx(drv.ask(model_lines(mid_st, op2[0], sp2[0], sp2[1], e2)))
            model = ["err", m2[1]] if m2[0] == "err" else ["ok", L.dec_state(m2[1])]
        td = L.build(st); ref = L.build(st)
        exc = None
        try:
            with L.time_limit(30.0):
                with L.apply_spelled(td, op1[0], *sp1) as y:
                    for j, e in enumerate(e1):
                        L.do_edit(y, e, j)
                with L.apply_spelled(td, op2[0], *sp2) as z:
                    for j, e in enumerate(e2):
                        L.do_edit(z, e, j)
            impl = ["ok", L.meta(td)]
        except Exception as e:  # noqa: BLE001
            L.slow_is_infra(e)
            impl, exc = ["err", L.err_class(e)], e
        run.count("sequential.outcome", impl[0] if impl[0] == "ok" else "err:" + impl[1])
        run.corr("sequential", case, impl, model)
        if impl[0] != "ok":
            continue
        try:
            was = ref.is_locked
            yr = L.apply_spelled(ref, op1[0], *sp1)
            for j, e in enumerate(e1):
                L.do_edit(yr, e, j)
            L.write_back(ref, op1, yr, was)
            was = ref.is_locked
            zr = L.apply_spelled(ref, op2[0], *sp2)
            for j, e in enumerate(e2):
                L.do_edit(zr, e, j)
            L.write_back(ref, op2, zr, was)
        except Exception as e:  # noqa: BLE001
            L.slow_is_infra(e)
            run.count("sequential.reference_failed", type(e).__name__)
            continue
        bad = L.same_td(td, ref)
        if bad:
            run.oracle_fail("ctx_sequential", case, f"original after two blocks in a row differs from the by-hand inverses: {bad}", f"sequential:{op1[0]}:{op2[0]}")
        else:
            run.oracle_ok("ctx_sequential")

    # ---- INTERLEAVED blocks on DIFFERENT objects, closed out of last-in-first-out order (blocks held open by generators / fixtures,
    # asyncio tasks, threads): enter A, enter B, edits, exit A, exit B.  The record queue is per OBJECT (`__enter__` creates
    # `self._last_op_queue`), so each block behaves as if it were alone: model = `withBlock` on each original separately.
    for i in range(80 if quick else 1200):
        ops_pool = ['transpose', 'permute', 'squeeze', 'unsqueeze', 'flatten', 'unflatten', 'view', 'flatten_keys', 'unflatten_keys', 'lock_', 'unlock_']
        n1, n2 = rng.choice(ops_pool), rng.choice(ops_pool)
        st1 = L.gen_state(rng, for_op=n1); st2 = L.gen_state(rng, for_op=n2)
        op1 = L.gen_canonical(rng, st1, n1); sp1 = rng.choice(L.spellings(op1, st1))
        op2 = L.gen_canonical(rng, st2, n2); sp2 = rng.choice(L.spellings(op2, st2))
        def _edits(st, op):
            if st[3] or op[0] == 'lock_':
                return rng.choice([[], [('value',)]])
            return rng.choice([[], [('value',)], [('add', ('z',))], [('swap',)], [('rebind', 'new')]])
        e1, e2 = _edits(st1, op1), _edits(st2, op2)
        order = rng.choice(['a-first', 'a-first', 'b-first'])       # which block closes first (b-first = properly nested)
        case = {'op1': list(op1), 'sp1': [list(sp1[0]), sp1[1]], 'edits1': [list(e) for e in e1], 'state1': L.enc_state(st1),
                'op2': list(op2), 'sp2': [list(sp2[0]), sp2[1]], 'edits2': [list(e) for e in e2], 'state2': L.enc_state(st2), 'closes_first': order}
        run.case(json.dumps(case, default=str))
        models = []
        for st, op, sp, ed in ((st1, op1, sp1, e1), (st2, op2, sp2, e2)):
            m = parse_sx(drv.ask(model_lines(st, op[0], sp[0], sp[1], ed)))
            models.append(['err', m[1]] if m[0] == 'err' else ['ok', L.dec_state(m[1])])
        if any(m[0] == 'err' for m in models):
            continue        # calls the model rejects are the business of the with:* streams
        ta, tb = L.build(st1), L.build(st2)
        ra, rb = L.build(st1), L.build(st2)      # references: each block alone
        try:
            with L.time_limit(30.0):
                cma = L.apply_spelled(ta, op1[0], *sp1); cmb = L.apply_spelled(tb, op2[0], *sp2)
                ya = cma.__enter__(); yb = cmb.__enter__()
                for j, e in enumerate(e1):
                    L.do_edit(ya, e, j)
                for j, e in enumerate(e2):
                    L.do_edit(yb, e, j)
                if order == 'a-first':
                    cma.__exit__(None, None, None); cmb.__exit__(None, None, None)
                else:
                    cmb.__exit__(None, None, None); cma.__exit__(None, None, None)
                with L.apply_spelled(ra, op1[0], *sp1) as y:
                    for j, e in enumerate(e1):
                        L.do_edit(y, e, j)
                with L.apply_spelled(rb, op2[0], *sp2) as y:
                    for j, e in enumerate(e2):
                        L.do_edit(y, e, j)
        except Exception as e:  # noqa: BLE001
            L.slow_is_infra(e)
            run.oracle_fail('ctx_interleaved', case, f'interleaved blocks on two different tensordicts raised {type(e).__name__}: {str(e)[:140]}',
                            f'interleaved:raises:{L.err_class(e)}')
            continue
        run.corr('interleaved', case, ['ok', L.meta(ta), L.meta(tb)], ['ok', models[0][1], models[1][1]])
        # the same program on the heap-of-objects model (one deque per object; Props.C17.interleaved_is_two_blocks)
        exits = '(exit 2) (exit 3)' if order == 'a-first' else '(exit 3) (exit 2)'
        mw = parse_sx(drv.ask(f"(c17.world (origs {L.enc_state(st1)} {L.enc_state(st2)}) (steps (call 0 {op1[0]} {L.enc_call(*sp1)}) "
                              f"(call 1 {op2[0]} {L.enc_call(*sp2)}) (enter 2) (enter 3) (edits 2 {L.enc_edits(e1)[7:-1]}) (edits 3 {L.enc_edits(e2)[7:-1]}) {exits}))"))
        world = ['err', mw[1]] if mw[0] == 'err' else ['ok', L.dec_state(mw[1]), L.dec_state(mw[2]), [int(x) for x in mw[3][1:]]]
        run.corr('interleaved:world', case, ['ok', L.meta(ta), L.meta(tb), [len(getattr(t_, '_last_op_queue', ())) for t_ in (ta, tb)]], world)
        bad = L.same_td(ta, ra) or L.same_td(tb, rb)
        if bad:
            run.oracle_fail('ctx_interleaved', case, f'a block interleaved with a block on ANOTHER tensordict does not behave as when it is alone: {bad}',
                            f'interleaved:{op1[0]}:{op2[0]}')
        else:
            run.oracle_ok('ctx_interleaved')

    # ---- two blocks on the SAME original, each on its own yielded object, closed in either order (manual __enter__/__exit__, ExitStack):
    # the footprints overlap (both write back to the original), so the blocks do not commute in general; the heap model says what
    # the original is after both exits (`c17.world`), the oracle asks for what both orders must agree on
    for i in range(60 if quick else 900):
        ops_pool = ['transpose', 'permute', 'squeeze', 'unsqueeze', 'flatten', 'unflatten', 'view', 'flatten_keys', 'unflatten_keys', 'lock_', 'unlock_']
        n1, n2 = rng.choice(ops_pool), rng.choice(ops_pool)
        st = L.gen_state(rng, for_op=rng.choice([n1, n2]))
        try:
            op1 = L.gen_canonical(rng, st, n1); sp1 = rng.choice(L.spellings(op1, st))
            op2 = L.gen_canonical(rng, st, n2); sp2 = rng.choice(L.spellings(op2, st))
        except Exception:  # noqa: BLE001  (the state drawn for one op does not admit the other)
            continue
        lockish = st[3] or 'lock_' in (n1, n2) or 'unlock_' in (n1, n2)
        e1 = rng.choice([[], [('value',)]]) if lockish else rng.choice([[], [('value',)], [('add', ('z',))]])
        e2 = rng.choice([[], [('value',)]]) if lockish else rng.choice([[], [('value',)], [('add', ('w',))]])
        order = rng.choice(['a-first', 'b-first'])
        case = {'same_original': True, 'op1': list(op1), 'sp1': [list(sp1[0]), sp1[1]], 'edits1': [list(e) for e in e1], 'op2': list(op2),
                'sp2': [list(sp2[0]), sp2[1]], 'edits2': [list(e) for e in e2], 'state': L.enc_state(st), 'closes_first': order}
        run.case(json.dumps(case, default=str))
        exits = '(exit 1) (exit 2)' if order == 'a-first' else '(exit 2) (exit 1)'
        mw = parse_sx(drv.ask(f"(c17.world (origs {L.enc_state(st)}) (steps (call 0 {op1[0]} {L.enc_call(*sp1)}) "
                              f"(call 0 {op2[0]} {L.enc_call(*sp2)}) (enter 1) (enter 2) (edits 1 {L.enc_edits(e1)[7:-1]}) (edits 2 {L.enc_edits(e2)[7:-1]}) {exits}))"))
        world = ['err', mw[1]] if mw[0] == 'err' else ['ok', L.dec_state(mw[1]), [int(x) for x in mw[2][1:]]]
        td = L.build(st)
        before = td.clone()
        try:
            with L.time_limit(30.0):
                cma = L.apply_spelled(td, op1[0], *sp1); cmb = L.apply_spelled(td, op2[0], *sp2)
                ya = cma.__enter__(); yb = cmb.__enter__()
                for j, e in enumerate(e1):
                    L.do_edit(ya, e, j)
                for j, e in enumerate(e2):
                    L.do_edit(yb, e, j + 7)
                if order == 'a-first':
                    cma.__exit__(None, None, None); cmb.__exit__(None, None, None)
                else:
                    cmb.__exit__(None, None, None); cma.__exit__(None, None, None)
            real = ['ok', L.meta(td), [len(getattr(td, '_last_op_queue', ()))]]
        except Exception as e:  # noqa: BLE001
            L.slow_is_infra(e)
            real = ['err', L.err_class(e)]
        run.count('same_original.outcome', real[0] if real[0] == 'ok' else f'err:{real[1]}')
        run.corr('interleaved:same-original', case, real, world)
        if real[0] == 'ok' and world[0] == 'ok':
            # what every order must give: batch size and names of the original as before; the keys added in either block are there
            m = L.meta(td); mb = L.meta(before)
            want_keys = set(map(tuple, mb[2])) | ({('z',)} if ('add', ('z',)) in e1 else set()) | ({('w',)} if ('add', ('w',)) in e2 else set())
            keyops = {'flatten_keys', 'unflatten_keys'} & {n1, n2}
            if m[0] != mb[0] or m[1] != mb[1] or (not keyops and set(map(tuple, m[2])) != want_keys):
                run.oracle_fail('ctx_same_original', case, f'after two blocks on the same original: batch/names/keys {m[:3]} (before: {mb[:3]})', f'same-original:{op1[0]}:{op2[0]}')
            else:
                run.oracle_ok('ctx_same_original')

    # ---- HISTORY: a block left by an exception raised in its body, then (the exception caught) a normal block on the same original.
    # `__exit__` must pop the record `__enter__` pushed (otherwise the next exit of that object runs a stale inverse) and write nothing
    # back; model: `c17.world` with an `exit-raised` step (Props.C17.aborted_block_then_block); oracle: the aborted block is worth the
    # plain method call plus the edits, nothing more
    class _Boom(Exception):
        pass
    for i in range(70 if quick else 900):
        ops_pool = ['transpose', 'permute', 'squeeze', 'unsqueeze', 'flatten', 'unflatten', 'view', 'flatten_keys', 'unflatten_keys', 'lock_', 'unlock_']
        n1, n2 = rng.choice(ops_pool), rng.choice(ops_pool)
        st = L.gen_state(rng, for_op=rng.choice([n1, n2]))
        try:
            op1 = L.gen_canonical(rng, st, n1); sp1 = rng.choice(L.spellings(op1, st))
            op2 = L.gen_canonical(rng, st, n2); sp2 = rng.choice(L.spellings(op2, st))
        except Exception:  # noqa: BLE001
            continue
        if (op1[0] == 'squeeze' and op1[1] is None) or (op2[0] == 'squeeze' and op2[1] is None):
            continue
        lockish = st[3] or 'lock_' in (n1, n2) or 'unlock_' in (n1, n2)
        e1 = rng.choice([[], [('value',)]]) if lockish else rng.choice([[], [('value',)], [('add', ('z',))]])
        e2 = rng.choice([[], [('value',)]]) if lockish else rng.choice([[], [('value',)], [('add', ('w',))]])
        case = {'aborted_then': True, 'op1': list(op1), 'sp1': [list(sp1[0]), sp1[1]], 'edits1': [list(e) for e in e1], 'op2': list(op2),
                'sp2': [list(sp2[0]), sp2[1]], 'edits2': [list(e) for e in e2], 'state': L.enc_state(st)}
        run.case(json.dumps(case, default=str))
        mw = parse_sx(drv.ask(f"(c17.world (origs {L.enc_state(st)}) (steps (call 0 {op1[0]} {L.enc_call(*sp1)}) (enter 1) (edits 1 {L.enc_edits(e1)[7:-1]}) "
                              f"(exit-raised 1) (call 0 {op2[0]} {L.enc_call(*sp2)}) (enter 2) (edits 2 {L.enc_edits(e2)[7:-1]}) (exit 2)))"))
        world = ['err', mw[1]] if mw[0] == 'err' else ['ok', L.dec_state(mw[1]), [int(x) for x in mw[2][1:]]]
        td, ref = L.build(st), L.build(st)
        try:
            with L.time_limit(30.0):
                try:
                    with L.apply_spelled(td, op1[0], *sp1) as y:
                        for j, e in enumerate(e1):
                            L.do_edit(y, e, j)
                        raise _Boom()
                except _Boom:
                    pass
                with L.apply_spelled(td, op2[0], *sp2) as y2:
                    for j, e in enumerate(e2):
                        L.do_edit(y2, e, j + 7)
            # (the record queue of the original is part of the model: every record pushed by an `__enter__` has been popped again)
            real = ['ok', L.meta(td), [len(getattr(td, '_last_op_queue', ()))]]
        except Exception as e:  # noqa: BLE001
            L.slow_is_infra(e)
            real = ['err', L.err_class(e)]
        run.count('aborted.outcome', real[0] if real[0] == 'ok' else f'err:{real[1]}')
        run.corr('aborted-then', case, real, world)
        if real[0] != 'ok':
            continue
        try:
            yr = L.apply_spelled(ref, op1[0], *sp1)          # the plain call, no block
            for j, e in enumerate(e1):
                L.do_edit(yr, e, j)
            with L.apply_spelled(ref, op2[0], *sp2) as y2:
                for j, e in enumerate(e2):
                    L.do_edit(y2, e, j + 7)
        except Exception as e:  # noqa: BLE001
            L.slow_is_infra(e)
            run.count('aborted.reference_failed', type(e).__name__)
            continue
        bad = L.same_td(td, ref)
        if bad:
            run.oracle_fail('ctx_aborted', case, f'after an aborted block and a normal one the original differs from (plain call + edits, then the block): {bad}',
                            f'aborted:{op1[0]}:{op2[0]}')
        else:
            run.oracle_ok('ctx_aborted')

    # ---- to_module as a context manager (oracle only): module zoo x inplace x locked x spelling x edit
    import c17_tomodule as TM
    tm_cases = [(k, ip, lk, sp, ed) for k in TM.KINDS for ip in (None, False, True, 'state_dict') for lk in (False, True)
                for sp in ('pos', 'kw') for ed in ('none', 'inplace', 'forward')]
    # (the whole grid in both tiers: 336 blocks, about 3 s)
    for (k, ip, lk, sp, ed) in tm_cases:
        case = {'module': k, 'inplace': ip, 'locked': lk, 'spelling': sp, 'edit': ed}
        run.case(json.dumps(case))
        bad = TM.run_case(k, ip, lk, sp, ed)
        run.count('to_module.outcome', 'ok' if bad is None else bad[0])
        if bad is None:
            run.oracle_ok('ctx_to_module')
        else:
            run.oracle_fail('ctx_to_module', case, bad[1], f'to_module:{bad[0]}')

    # ---- the original is a temporary (`with make_td().transpose(0, 1) as y:`): it is gone when the block exits; there is nothing to
    # write back to and the exit must simply return (the yielded object keeps the edits)
    import gc
    for i in range(40 if quick else 400):
        n1 = rng.choice(["transpose", "permute", "squeeze", "unsqueeze", "flatten", "unflatten", "view", "flatten_keys", "unflatten_keys"])
        st = L.gen_state(rng, for_op=n1)
        st = (st[0], st[1], st[2], False)
        op1 = L.gen_canonical(rng, st, n1)
        if op1[0] == "squeeze" and op1[1] is None:
            continue
        sp1 = rng.choice(L.spellings(op1, st))
        edits = rng.choice([[], [("value",)], [("add", ("z",))], [("swap",)]])
        case = {"original": "temporary", "op": list(op1), "spelling": [list(sp1[0]), sp1[1]], "edits": [list(e) for e in edits], "state": L.enc_state(st)}
        run.case(json.dumps(case, default=str))
        try:
            probe = L.apply_spelled(L.build(st), op1[0], *sp1)     # is the call itself valid?
        except Exception:  # noqa: BLE001
            continue
        if probe._last_op is None:
            continue
        del probe
        try:
            with L.time_limit(30.0):
                with L.apply_spelled(L.build(st), op1[0], *sp1) as y:
                    gc.collect()
                    alive = y._last_op is not None and y._last_op[1][2]() is not None
                    for j, e in enumerate(edits):
                        L.do_edit(y, e, j)
                    want = y.clone()
        except Exception as e:  # noqa: BLE001
            L.slow_is_infra(e)
            run.oracle_fail("ctx_temp", case, f"block on a temporary original raised {type(e).__name__}: {str(e)[:140]}", f"temp:{op1[0]}:raises:{L.err_class(e)}")
            continue
        run.count("temp.original_alive", alive)
        # model: `withTempBlock` (metadata of the yielded object after the block)
        m = parse_sx(drv.ask(f"(c17.temp {op1[0]} {L.enc_call(*sp1)} {L.enc_edits(edits)} {L.enc_state(st)})"))
        model = ["err", m[1]] if m[0] == "err" else ["ok", L.dec_state(m[1])]
        run.corr("temp:" + op1[0], case, ["ok", L.meta(y)], model)
        bad = L.same_td(y, want)
        if bad:
            run.oracle_fail("ctx_temp", case, f"the yielded object changed at exit: {bad}", f"temp:{op1[0]}:changed")
        else:
            run.oracle_ok("ctx_temp")

    # ---- extended domain (oracle only): lazy-stack originals, unlocked / locked through the stack / locked only through the members
    # every (op, lock mode) pair is drawn in every run (a defect in one `_reverse_*` x lock-mode path must not depend on the seed)
    lazy_combos = [(o_, l_) for o_ in ["transpose", "permute", "unsqueeze", "flatten", "unflatten", "view", "squeeze", "flatten_keys", "unflatten_keys", "lock_", "unlock_"]
                   for l_ in ["no", "stack", "members", "relocked"]] * (3 if quick else 28)
    for (n1, lock) in lazy_combos:
        st = L.gen_state(rng, rank=rng.choice([1, 2, 3, 3, 4]), for_op=n1 if n1 == "unflatten_keys" else None)
        lsd = rng.randrange(len(st[0]))          # the stack dim of the lazy original: every position, ranks 1-4
        st = (tuple(max(d, 2) if j == lsd else d for j, d in enumerate(st[0])), (st[1] if rng.random() < 0.5 else None), [k for k in st[2]], lock != "no")
        op1 = L.gen_canonical(rng, st, n1)
        sp1 = rng.choice(L.spellings(op1, st))
        edits = rng.choice([[], [("value",)], [("value",)]] if st[3] else [[], [("value",)], [("add", ("z",))], [("rebind", "new")], [("swap",)]])
        case = {"container": "lazy", "stack_dim": lsd, "lock": lock, "op": list(op1), "spelling": [list(sp1[0]), sp1[1]], "edits": [list(e) for e in edits], "state": L.enc_state(st)}
        run.case(json.dumps(case, default=str))
        # phase 1: the call and the edits (lazy stacks refuse several shape ops / edits by design: not judged)
        try:
            lz = L.build_lazy(st, lock, lsd)
            # the reference is the DENSE tensordict with the same content (the by-hand inverse must not go through _lazy.py)
            ref = L.build((st[0], st[1], st[2], st[3]))
            members = list(lz.tensordicts)
            held = [{k: m.get(k) for k in L.leaf_keys(m)} for m in members]
            with L.time_limit(30.0):
                cm = L.apply_spelled(lz, op1[0], *sp1)
                y = cm.__enter__()
                for j, e in enumerate(edits):
                    L.do_edit(y, e, j)
        except Exception as e:  # noqa: BLE001
            L.slow_is_infra(e)
            run.count("lazy.outcome", "refused:" + type(e).__name__)
            continue
        # phase 2: a block whose body completed must exit normally
        try:
            with L.time_limit(30.0):
                cm.__exit__(None, None, None)
        except Exception as e:  # noqa: BLE001
            L.slow_is_infra(e)
            if op1[0] == "squeeze" and op1[1] is None:
                run.count("lazy.outcome", "implicit-squeeze")
                continue
            run.count("lazy.outcome", "exit-raises:" + type(e).__name__)
            run.oracle_fail("ctx_lazy", case, f"the block body completed but __exit__ raised {type(e).__name__}: {str(e)[:140]}",
                            f"lazy:{op1[0]}:exit-raises:{L.err_class(e)}")
            continue
        run.count("lazy.outcome", "ok")
        run.count("lazy.lock", lock)
        # independent probe: does the PLAIN out-of-place call (no context manager) already modify its source?  That is a defect of
        # the call itself (C02: lazy flatten / unflatten assign the dim names to a result built from the source's own members), not
        # of the write-back; its consequence for this property (the original after the block is not the inverse image) gets its own
        # fingerprint naming the argument class and the modified field, and the pure-call model is not compared on such a case.
        src_mod = None
        if op1[0] not in ("lock_", "unlock_"):
            try:
                with L.time_limit(30.0):
                    probe = L.build_lazy(st, lock, lsd)
                    m0 = L.meta(probe)
                    L.apply_spelled(probe, op1[0], *sp1)
                    m1 = L.meta(probe)
                fields = [f for f, a_, b_ in zip(("shape", "names", "keys", "locked"), m0, m1) if a_ != b_]
                if fields:
                    src_mod = "+".join(fields)
            except Exception as e:  # noqa: BLE001
                L.slow_is_infra(e)
        if src_mod:
            run.count("lazy.plain_call_modifies_source", f"{op1[0]}:{src_mod}")
            argcls = {"unflatten": lambda: "size-one-first" if list(op1[2])[:1] == [1] else "general",
                      "flatten": lambda: "single-dim" if op1[1] == op1[2] else "general"}.get(op1[0], lambda: "general")()
            try:
                was = ref.is_locked
                yr = L.apply_spelled(ref, op1[0], *sp1)
                for j, e in enumerate(edits):
                    L.do_edit(yr, e, j)
                L.write_back(ref, op1, yr, was)
                bad = L.same_td(lz.to_tensordict(), ref.to_tensordict())
            except Exception as e:  # noqa: BLE001
                L.slow_is_infra(e)
                run.count("lazy.reference_failed", type(e).__name__)
                continue
            if bad:
                run.oracle_fail("ctx_lazy", case, f"the plain call {op1[0]} already modifies its lazy source ({src_mod}); after the block the original "
                                f"differs from the by-hand inverse: {bad}", f"lazy:{op1[0]}:{argcls}:source-modified-by-plain-call:{src_mod}")
            else:
                run.oracle_ok("ctx_lazy")
            continue
        # the metadata model is the same for a lazy original: `withBlock` on the state the stack represents
        ml = parse_sx(drv.ask(model_lines(st, op1[0], sp1[0], sp1[1], edits)))
        run.corr("with-lazy:" + op1[0], case, ["ok", L.meta(lz)], ["err", ml[1]] if ml[0] == "err" else ["ok", L.dec_state(ml[1])])
        if bool(lz.is_locked) != st[3] and op1[0] not in ():
            run.oracle_fail("ctx_lazy", case, f"lock state of the lazy original changed: is_locked={lz.is_locked}", f"lazy:{op1[0]}:lock-changed")
            continue
        try:
            was = ref.is_locked
            yr = L.apply_spelled(ref, op1[0], *sp1)
            for j, e in enumerate(edits):
                L.do_edit(yr, e, j)
            L.write_back(ref, op1, yr, was)
            bad = L.same_td(lz.to_tensordict() if hasattr(lz, "to_tensordict") else lz, ref.to_tensordict() if hasattr(ref, "to_tensordict") else ref)
        except Exception as e:  # noqa: BLE001
            L.slow_is_infra(e)
            run.count("lazy.reference_failed", type(e).__name__)
            continue
        if bad:
            run.oracle_fail("ctx_lazy", case, f"lazy original after the block differs from the by-hand inverse: {bad}", f"lazy:{op1[0]}")
            continue
        if st[3] and op1[0] not in ("lock_", "unlock_"):
            # "in place when the original is locked": the members still hold the very tensors they held
            moved = [(mi, k) for mi, (m, h) in enumerate(zip(lz.tensordicts, held)) for k, v in h.items() if m.get(k) is not v]
            if len(lz.tensordicts) != len(members) or any(a is not b for a, b in zip(lz.tensordicts, members)) or moved:
                run.oracle_fail("ctx_lazy", case, f"locked lazy original was not written in place (members / leaves replaced: {moved[:2]})",
                                f"lazy:{op1[0]}:locked-rebound")
                continue
        run.oracle_ok("ctx_lazy")

    # ---- extended domain (oracle only): tensorclass originals (value edits; the fields of a tensorclass are fixed)
    from typing import Any
    from tensordict import tensorclass

    @tensorclass
    class C17TC:
        a: Any = None
        b: Any = None
        n: Any = None

    for i in range(60 if quick else 600):
        n1 = rng.choice(["transpose", "permute", "unsqueeze", "flatten", "unflatten", "view", "squeeze", "lock_", "unlock_"])
        st = L.gen_state(rng, for_op=n1)
        st = (st[0], st[1], [k for k in st[2] if k[0] in ("a", "b", "n")], st[3])
        op1 = L.gen_canonical(rng, st, n1)
        sp1 = rng.choice(L.spellings(op1, st))
        edits = rng.choice([[], [("value",)]] if st[3] or n1 == "lock_" else [[], [("value",)], [("swap",)], [("rebind", "new")], [("rebind", "dtype")], [("value",), ("swap",)]])
        case = {"container": "tensorclass", "op": list(op1), "spelling": [list(sp1[0]), sp1[1]], "edits": edits, "state": L.enc_state(st)}
        try:
            tc = C17TC._from_tensordict(L.build((st[0], st[1], st[2], False)))
            ref = L.build((st[0], st[1], st[2], False))
            if st[3]:
                tc.lock_(); ref.lock_()
            with L.time_limit(30.0):
                with L.apply_spelled(tc, op1[0], *sp1) as y:
                    for j, e in enumerate(edits):
                        L.do_edit(y, e, j)
        except Exception as e:  # noqa: BLE001
            L.slow_is_infra(e)
            if op1[0] == "squeeze" and op1[1] is None:
                run.count("tc.outcome", "implicit-squeeze")
                continue
            run.count("tc.outcome", "err:" + type(e).__name__)
            run.oracle_fail("ctx_tc", case, f"a valid context-managed call on a tensorclass raised {type(e).__name__}: {str(e)[:140]}", f"tc:{op1[0]}:raises:{type(e).__name__}")
            continue
        run.count("tc.outcome", "ok")
        mt = parse_sx(drv.ask(model_lines(st, op1[0], sp1[0], sp1[1], edits)))
        run.corr("with-tc:" + op1[0], case, ["ok", L.meta(tc._tensordict)], ["err", mt[1]] if mt[0] == "err" else ["ok", L.dec_state(mt[1])])
        was = ref.is_locked
        yr = L.apply_spelled(ref, op1[0], *sp1)
        for j, e in enumerate(edits):
            L.do_edit(yr, e, j)
        L.write_back(ref, op1, yr, was)
        bad = L.same_td(tc._tensordict, ref)
        if bad:
            run.oracle_fail("ctx_tc", case, f"tensorclass original after the block differs from the by-hand inverse: {bad}", f"tc:{op1[0]}")
        else:
            run.oracle_ok("ctx_tc")

    st = ((1, 2, 3), ("a", None, "c"), [("a",), ("n", "c")], False)
    run.sample({"stream": "with", "call": "transpose(dim0=1, dim1=-1) + add key",
                "model": drv.ask(model_lines(st, "transpose", (), {"dim0": 1, "dim1": -1}, [("add", ("z",))]))})
    run.sample({"stream": "with", "call": "flatten_keys(separator='_') + add key",
                "model": drv.ask(model_lines(st, "flatten_keys", (), {"separator": "_"}, [("add", ("z",))]))})
    if not quick:
        run.leanchecker(["TdVerif.Props.C17"])
    run.finish("proof")


if __name__ == "__main__":
    main_guard(main)
