"""C13, last clause: a TensorDictParams exposes exactly its leaves as module parameters / buffers after any
sequence of updates.

Random op sequences on a TensorDictParams held by a module; after *every* op (also a raising one):
  oracle   : {name: object} of named_parameters(remove_duplicate=False) ∪ named_buffers(remove_duplicate=False)
             == {".".join(key): leaf} of the wrapped tensordict, by name and identity; parameters are exactly the
             nn.Parameter leaves; the same through the holder module with the attribute prefix.
  model tie: the registry computed by Lean's `resetParams` from the leaves (name, kind) read back from the
             implementation equals the implementation's `_parameters` / `_buffers` key lists (ordered).
"""
from __future__ import annotations

import torch
from torch import nn

from common import parse_sx, time_limit

NAMES = ["a", "b", "c", "w"]
NESTS = ["n", "m"]


class Holder(nn.Module):
    def __init__(self, params):
        super().__init__()
        self.params = params


def rand_tensor(rng):
    r = rng.random()
    if r < 0.45:
        return torch.randn(2), "float"
    if r < 0.6:
        return torch.arange(2), "int"
    if r < 0.85:
        return nn.Parameter(torch.randn(2)), "param"
    from tensordict.nn.params import Buffer
    return Buffer(torch.randn(2)), "buffer"


def rand_key(rng, existing=None, new_p=0.4):
    if existing and rng.random() > new_p:
        return rng.choice(existing)
    r = rng.random()
    if r < 0.5:
        return rng.choice(NAMES)
    if r < 0.9:
        return (rng.choice(NESTS), rng.choice(NAMES))
    return (rng.choice(NESTS), rng.choice(NESTS), rng.choice(NAMES))


def rand_payload(rng, existing):
    out = {}
    for _ in range(rng.randint(1, 4)):
        k = rand_key(rng, existing, new_p=0.5)
        out[k] = rand_tensor(rng)[0]
    return out


def leaves(tdp):
    out = {}
    for key, val in tdp._param_td.items(True, True):
        out[".".join(key) if isinstance(key, tuple) else key] = val
    return out


def exposed(mod, prefix=""):
    out, dup = {}, []
    for name, p in mod.named_parameters(remove_duplicate=False):
        if name in out:
            dup.append(name)
        out[name] = ("p", p)
    for name, b in mod.named_buffers(remove_duplicate=False):
        if name in out:
            dup.append(name)
        out[name] = ("b", b)
    return out, dup


def check(run, holder, trace):
    tdp = holder.params
    lv = leaves(tdp)
    ex, dup = exposed(tdp)
    bad = []
    if dup:
        bad.append(f"registered twice: {dup}")
    if set(ex) != set(lv):
        bad.append(f"exposed but not a leaf: {sorted(set(ex) - set(lv))}; leaf but not exposed: {sorted(set(lv) - set(ex))}")
    else:
        wrong = [k for k in lv if ex[k][1] is not lv[k]]
        if wrong:
            bad.append(f"exposed object is not the leaf object: {wrong}")
        kinds = [k for k in lv if (ex[k][0] == "p") != isinstance(lv[k], nn.Parameter)]
        if kinds:
            bad.append(f"parameter/buffer split does not follow the leaf class: {kinds}")
    hx, _ = exposed(holder)
    if {k[len("params."):] for k in hx} != set(ex):
        bad.append("the holder module exposes a different set")
    # "any tensor set in the tensordict is automatically converted" (class doc): whatever the setter, no leaf stays a bare
    # torch.Tensor — a Parameter (or, for integer dtypes / no_convert, a Buffer)
    from tensordict.nn.params import Buffer
    try:
        from tensordict.utils import BufferLegacy
    except ImportError:  # pragma: no cover
        BufferLegacy = Buffer
    bare = [k for k, v in lv.items() if isinstance(v, torch.Tensor) and not isinstance(v, (nn.Parameter, Buffer, BufferLegacy))]
    if bare:
        run.oracle_fail("params_leaves_converted", trace, f"leaves left as bare tensors (neither Parameter nor Buffer) inside a TensorDictParams: {bare}",
                        "tdparams:bare-leaf")
    else:
        run.oracle_ok("params_leaves_converted")
    if bad:
        kind = "leaf-not-exposed" if "leaf but not exposed: [" in bad[0] and "leaf but not exposed: []" not in bad[0] else "other"
        run.oracle_fail("params_exposes_leaves", trace, "; ".join(bad), "tdparams:" + kind)
        return False
    run.oracle_ok("params_exposes_leaves")
    return True


def model_tie(run, drv, tdp, trace):
    """the registry is what `_reset_params` (Lean: resetParams) computes from the leaves"""
    items = []
    for key, val in tdp._param_td.items(True, True):
        path = key if isinstance(key, tuple) else (key,)
        items.append((path, isinstance(val, nn.Parameter)))
    req = "(c13.reset_params" + "".join(f" (({' '.join(p)}) {'p' if isp else 't'})" for p, isp in items) + ")"
    ans = parse_sx(drv.ask(req))
    impl = [[str(k) for k in tdp._parameters.keys()], [str(k) for k in tdp._buffers.keys()]]
    model = [[str(k) for k in ans[0]], [str(k) for k in ans[1]]]
    run.corr("reset_params", trace[-3:], impl, model)


def one_sequence(run, drv, rng, nops):
    from tensordict import TensorDict
    from tensordict.nn import TensorDictParams
    init = {}
    for _ in range(rng.randint(0, 4)):
        init[rand_key(rng)] = rand_tensor(rng)[0]
    no_convert = rng.random() < 0.3
    lock = rng.random() < 0.2
    td = TensorDict({}, batch_size=[])
    for k, v in init.items():
        try:
            td.set(k, v)
        except Exception:  # noqa: BLE001 (prefix conflict between a leaf and a nested key)
            pass
    tdp = TensorDictParams(td, no_convert=no_convert, lock=lock)
    holder = Holder(tdp)
    trace = [f"init keys={sorted(map(str, td.keys(True, True)))} no_convert={no_convert} lock={lock}"]
    run.case(("tdparams", tuple(trace)))
    check(run, holder, trace)
    for _ in range(nops):
        existing = list(tdp._param_td.keys(True, True))
        op = rng.choice(["set", "set", "setitem", "update", "update", "update_inplace", "update_inplace", "update_td", "del", "pop", "rename",
                         "lock", "unlock", "apply_", "zero_", "create_nested", "update_clone", "to_double", "select_inplace", "exclude_inplace",
                         "load_state_dict", "deepcopy", "clone",
                         "popitem", "setdefault", "set_", "update_", "fill_", "flatten_inplace", "replace", "set_node", "del_node", "rename_node",
                         "requires_grad_", "to_half_and_back"])
        desc = op
        unexpected = None
        try:
            with time_limit(60):
                if op in ("set", "setitem"):
                    k = rand_key(rng, existing)
                    v, kind = rand_tensor(rng)
                    desc = f"{op}({k}, {kind})"
                    if op == "set":
                        tdp.set(k, v)
                    else:
                        tdp[k] = v
                elif op in ("update", "update_clone", "update_td"):
                    pl = rand_payload(rng, existing)
                    desc = f"{op}({sorted(map(str, pl))})"
                    if op == "update_td":
                        pl2 = TensorDict({}, batch_size=[])
                        for k, v in pl.items():
                            pl2.set(k, v)
                        pl = pl2
                    tdp.update(pl, clone=(op == "update_clone"))
                elif op == "update_inplace":
                    pl = rand_payload(rng, existing)
                    desc = f"update_inplace({sorted(map(str, pl))})"
                    with torch.no_grad():
                        tdp.update(pl, inplace=True)
                elif op in ("del", "pop") and existing:
                    k = rng.choice(existing)
                    desc = f"{op}({k})"
                    tdp.del_(k) if op == "del" else tdp.pop(k)
                elif op == "rename" and existing:
                    k = rng.choice(existing)
                    nk = rand_key(rng, None)
                    desc = f"rename({k}->{nk})"
                    tdp.rename_key_(k, nk)
                elif op == "lock":
                    tdp.lock_()
                elif op == "unlock":
                    tdp.unlock_()
                elif op == "apply_":
                    with torch.no_grad():
                        tdp.apply_(lambda x: x.mul_(2) if x.is_floating_point() else x)
                elif op == "zero_":
                    tdp.zero_()
                elif op == "create_nested":
                    k = rng.choice(NESTS + ["q"])
                    desc = f"create_nested({k})"
                    tdp.create_nested(k)
                elif op == "to_double":
                    holder.double()
                elif op == "load_state_dict":
                    sd = {k: (v.clone() if isinstance(v, torch.Tensor) else v) for k, v in holder.state_dict().items()}   # ('__batch_size' / '__device' are not tensors)
                    holder.load_state_dict(sd)
                elif op == "deepcopy":
                    import copy
                    holder = copy.deepcopy(holder)
                    tdp = holder.params
                elif op == "clone":
                    holder = Holder(tdp.clone())
                    tdp = holder.params
                elif op == "popitem" and existing:
                    tdp.popitem()
                elif op == "setdefault":
                    k = rand_key(rng, existing)
                    desc = f"setdefault({k})"
                    tdp.setdefault(k, rand_tensor(rng)[0])
                elif op in ("set_", "update_", "fill_") and existing:
                    k = rng.choice(existing)
                    desc = f"{op}({k})"
                    cur = tdp._param_td.get(k)
                    with torch.no_grad():
                        if op == "set_":
                            tdp.set_(k, torch.ones_like(cur))
                        elif op == "update_":
                            pl = TensorDict({}, batch_size=[])
                            pl.set(k, torch.ones_like(cur))
                            tdp.update_(pl)
                        else:
                            tdp.fill_(k, 3)
                elif op == "flatten_inplace":
                    tdp.flatten_keys("_", inplace=True)
                elif op == "replace" and existing:
                    k = rng.choice(existing)
                    desc = f"replace({k})"
                    pl = TensorDict({}, batch_size=[])
                    pl.set(k, rand_tensor(rng)[0])
                    holder = Holder(tdp.replace(pl))
                    tdp = holder.params
                elif op == "set_node":
                    k = rng.choice(NESTS + ["q"])
                    desc = f"set_node({k})"
                    sub = TensorDict({}, batch_size=[])
                    for _ in range(rng.randint(0, 2)):
                        sub.set(rng.choice(NAMES), rand_tensor(rng)[0])
                    if rng.random() < 0.5:
                        tdp[k] = sub
                    else:
                        tdp.set(k, sub)
                elif op in ("del_node", "rename_node"):
                    nodes = [k for k in tdp._param_td.keys(True, False) if k not in set(tdp._param_td.keys(True, True))]
                    if nodes:
                        k = rng.choice(nodes)
                        desc = f"{op}({k})"
                        if op == "del_node":
                            tdp.del_(k)
                        else:
                            tdp.rename_key_(k, rng.choice(NESTS + ["q", "r"]))
                elif op == "requires_grad_":
                    flag = rng.random() < 0.5
                    desc = f"requires_grad_({flag})"
                    holder.requires_grad_(flag)
                elif op == "to_half_and_back":
                    holder.half()
                    holder.float()
                elif op == "select_inplace" and existing:
                    ks = [k for k in existing if rng.random() < 0.6]
                    desc = f"select_inplace({ks})"
                    tdp.select(*ks, inplace=True)
                elif op == "exclude_inplace" and existing:
                    ks = [k for k in existing if rng.random() < 0.3]
                    desc = f"exclude_inplace({ks})"
                    tdp.exclude(*ks, inplace=True)
            outcome = "ok"
        except TimeoutError:
            raise
        except Exception as e:  # noqa: BLE001
            outcome = type(e).__name__
            legit = isinstance(e, RuntimeError) and ("lock" in str(e).lower()
                                                     # torch: deepcopy of a tensor with a grad_fn (a cloned Parameter kept with its graph, no_convert=True)
                                                     or (op == "deepcopy" and "graph leaves" in str(e))) \
                or (op == "flatten_inplace" and isinstance(e, KeyError) and "collide" in str(e))      # two leaves would get the same flat name
            if not legit:
                unexpected = f"{type(e).__name__}: {str(e)[:120]}"
        trace.append(f"{desc} -> {outcome}")
        run.count("tdparams.op", op)
        run.count("tdparams.outcome", "ok" if outcome == "ok" else "raised")
        if unexpected is not None:
            # only "the tensordict is locked" is an expected refusal of these operations
            run.oracle_fail("params_op", list(trace), f"{desc} raised {unexpected}", f"tdparams:op-raised:{op}:{outcome}")
        ok = check(run, holder, list(trace))
        model_tie(run, drv, tdp, trace)
        if not ok:
            break
    if len(run.samples) < 10:
        run.sample({"stream": "tdparams", "trace": trace[:6]})


def run_params(run, drv):
    source_shape(run)
    rng = run.rng
    n = 150 if run.tier == "quick" else 1500
    for _ in range(n):
        one_sequence(run, drv, rng, rng.randint(1, 8))


# --------------------------------------------------------------------------- the discipline, read from the source
STRUCTURAL = ["__setitem__", "set", "pop", "popitem", "rename_key_", "del_", "create_nested", "_set_str", "_set_tuple",
              "_create_nested_str", "_select", "_exclude", "flatten_keys", "unflatten_keys", "apply", "named_apply", "_apply_nest"]


def source_shape(run):
    """The `mutate` operation of Model/C13Params.lean stands for "the operation on the wrapped tensordict, then
    `_reset_params()`". Re-read from the current source that this is how the structural mutators are written:
    each is decorated `_unlock_and_set`, the decorator's wrapper calls `_self._reset_params()` after the method with no
    `return` in between, and `update` reaches `self._reset_params()` on every path (a single trailing `return`)."""
    import ast
    from common import REPO
    src = (REPO / "tensordict" / "nn" / "params.py").read_text()
    tree = ast.parse(src)
    problems = []
    cls = next(n for n in tree.body if isinstance(n, ast.ClassDef) and n.name == "TensorDictParams")
    methods = {n.name: n for n in cls.body if isinstance(n, ast.FunctionDef)}

    def deco_names(fn):
        out = []
        for d in fn.decorator_list:
            d = d.func if isinstance(d, ast.Call) else d
            out.append(d.id if isinstance(d, ast.Name) else getattr(d, "attr", "?"))
        return out
    for name in STRUCTURAL:
        if name not in methods:
            problems.append(f"{name}: not defined on TensorDictParams any more")
        elif "_unlock_and_set" not in deco_names(methods[name]):
            problems.append(f"{name}: not decorated with _unlock_and_set")
    # the decorator
    deco = next(n for n in tree.body if isinstance(n, ast.ClassDef) and n.name == "_unlock_and_set")
    call = next(n for n in deco.body if isinstance(n, ast.FunctionDef) and n.name == "__call__")
    new_func = next(n for n in ast.walk(call) if isinstance(n, ast.FunctionDef) and n.name == "new_func")
    top = new_func.body
    idx_reset = [i for i, st in enumerate(top) if isinstance(st, ast.Expr) and isinstance(st.value, ast.Call)
                 and getattr(st.value.func, "attr", None) == "_reset_params"]
    idx_with = [i for i, st in enumerate(top) if isinstance(st, ast.With)]
    if not idx_reset or not idx_with or idx_reset[0] < idx_with[-1]:
        problems.append("_unlock_and_set.new_func: no unconditional _reset_params() after the wrapped call")
    else:
        between = top[idx_with[-1]:idx_reset[0]]
        if any(isinstance(n, ast.Return) for st in between for n in ast.walk(st)):
            problems.append("_unlock_and_set.new_func: a return precedes _reset_params()")
    # update
    upd = methods.get("update")
    if upd is None:
        problems.append("update: not defined")
    else:
        rets = [n for n in ast.walk(upd) if isinstance(n, ast.Return)]
        resets = [n for n in ast.walk(upd) if isinstance(n, ast.Call) and getattr(n.func, "attr", None) == "_reset_params"]
        if len(rets) != 1 or upd.body[-1] is not rets[0] or not resets:
            problems.append(f"update: {len(rets)} return statements / {len(resets)} _reset_params() calls (expected one trailing return after one call)")
        else:
            # the call must not sit under an `if`
            for n in ast.walk(upd):
                if isinstance(n, ast.If) and any(r in ast.walk(n) for r in resets):
                    problems.append("update: _reset_params() is conditional")
    for pb in problems:
        run.proof_broken.append("source-shape:params.py:" + pb)
    run.count("tdparams.source_shape", "ok" if not problems else "broken")
    return not problems
