"""C07 — call recipes: how each public operation (or operation/variant) of the class table is invoked
on a probe container.  A recipe receives a context and returns a thunk; arguments are created (and
registered as caller-held tensors) *before* the thunk runs, so that the initial snapshot sees them.
"""
from __future__ import annotations

import torch

from c07_probe import DT, Container, leaves_of

UNARY = ("abs acos asin atan ceil cos cosh erf erfc exp expm1 floor frac lgamma log log10 log1p log2 neg reciprocal "
         "round sigmoid sign sin sinh sqrt tan tanh trunc").split()
BINARY = "add sub mul div pow maximum minimum clamp_max clamp_min".split()
CASTS = ("bfloat16 bool complex128 complex32 complex64 double float float16 float32 float64 half int int16 int32 int64 int8 "
         "uint16 uint32 uint64 uint8 qint32 qint8 quint4x2 quint8").split()
REDUCE = "all any amax amin max min mean nanmean nansum sum prod std var".split()


class Ctx:
    def __init__(self, cont: Container, rng, variant_seed=0):
        self.cont = cont
        self.td = cont.td
        self.rng = rng
        self.args = []       # (name, tensor) held by the caller and passed to the operation
        self.bs = tuple(self.td.batch_size)
        self.vs = variant_seed

    # ---- keys
    def top_keys(self):
        return [k for k in self.td.keys() if isinstance(self.td.get(k), torch.Tensor) and self.td.get(k).numel() >= 0]

    @property
    def k0(self):
        ks = [k for k in self.top_keys() if self.td.get(k).dtype == DT]
        return ks[0]

    @property
    def k1(self):
        ks = [k for k in self.top_keys() if self.td.get(k).dtype == DT]
        return ks[1] if len(ks) > 1 else ks[0]

    def fshape(self, k):
        return tuple(self.td.get(k).shape)

    # ---- caller-held arguments
    def tensor(self, shape, name=None, start=None):
        n = 1
        for s in shape:
            n *= s
        t = self.cont.cnt.take(n).reshape(tuple(shape)) + 0.5
        self.args.append((name or f"arg{len(self.args)}", t))
        return t

    def mask(self, shape=None):
        shape = self.bs if shape is None else shape
        n = 1
        for s in shape:
            n *= s
        m = (torch.arange(n) % 2 == 0).reshape(tuple(shape))
        self.args.append((f"mask{len(self.args)}", m))
        return m

    def other(self, bs=None):
        """a plain TensorDict with the same nested keys / shapes and fresh contiguous values"""
        from tensordict import TensorDict
        src = self.td
        d = {}
        for k in src.keys(True, True):
            v = src.get(k)
            if isinstance(v, torch.Tensor) and v.layout == torch.strided:
                d[k] = self.cont.cnt.take(v.numel()).reshape(v.shape).to(v.dtype) + 0.25
        o = TensorDict(d, batch_size=src.batch_size)
        for name, t in leaves_of(o):
            self.args.append((f"o{len(self.args)}:{name}", t))
        return o

    def other_at(self, idx):
        from tensordict import TensorDict
        sub = self.td[idx]
        d = {}
        for k in sub.keys(True, True):
            v = sub.get(k)
            if isinstance(v, torch.Tensor):
                d[k] = self.cont.cnt.take(v.numel()).reshape(v.shape) + 0.25
        o = TensorDict(d, batch_size=sub.batch_size)
        for name, t in leaves_of(o):
            self.args.append((f"o{len(self.args)}:{name}", t))
        return o


R = {}          # name -> list of recipes (the first is the canonical one)


def reg(name, *fns):
    R.setdefault(name, []).extend(fns)


def basic_indices(c):
    bs = c.bs
    out = [0, slice(None), slice(0, 1), (slice(None), 0), Ellipsis, (Ellipsis, 0), slice(None, None, 2), -1, (None, 0), (0, None), (slice(1, None), slice(None, -1))]
    if len(bs) >= 2 and bs[1] > 1:
        out += [(0, 1), (slice(None), slice(1, None, 2))]
    return out


def adv_indices(c):
    bs = c.bs
    out = [[0, 0], torch.tensor([1, 0]), (slice(None), [0]), torch.tensor([True, False]), [True, True], range(0, 2)]
    if len(bs) >= 2 and bs[1] >= 1:
        out += [(0, [0, 0]), (torch.tensor([0, 1]), torch.tensor([0, 0])), (Ellipsis, torch.tensor([0]))]
    return out


def pick(c, lst):
    return lst[c.vs % len(lst)]


# ------------------------------------------------------------------------------------------ in-place
for u in UNARY:
    reg(u + "_", lambda c, u=u: (lambda: getattr(c.td, u + "_")()))
    reg(u, lambda c, u=u: (lambda: getattr(c.td, u)()))
for b in BINARY:
    def _bin(c, b, inplace):
        """operand: tensordict / python scalar / 0-d tensor; optional kwargs of the method: alpha= (add, sub), default= (out-of-place, tensordict operand)"""
        mode = c.vs % 3
        kw_sel = (c.vs // 3) % 3
        if mode == 0:
            o = c.other()
        elif mode == 1:
            o = 1.5
        else:
            o = c.tensor(()) if b != "pow" else 2.0
        kw = {}
        if kw_sel == 1 and b in ("add", "sub"):
            kw["alpha"] = 2.0
        elif kw_sel == 2 and not inplace and mode == 0 and b not in ("pow",):
            kw["default"] = 0.5
        name = b + ("_" if inplace else "")
        return lambda: getattr(c.td, name)(o, **kw)
    reg(b + "_", lambda c, b=b: _bin(c, b, True))
    reg(b, lambda c, b=b: _bin(c, b, False))


def _lerp(c, name):
    e = c.other()
    w = 0.25 if c.vs % 2 == 0 else c.other()
    return lambda: getattr(c.td, name)(e, w)


def _addc(c, name):
    o1, o2 = c.other(), c.other()
    return lambda: getattr(c.td, name)(o1, o2, value=0.5)


for nm in ("lerp", "lerp_"):
    reg(nm, lambda c, nm=nm: _lerp(c, nm))
for nm in ("addcdiv", "addcdiv_", "addcmul", "addcmul_"):
    reg(nm, lambda c, nm=nm: _addc(c, nm))


def _iop(c, op):
    o = c.other() if c.vs % 2 == 0 else 2.0
    def f():
        td = c.td
        if op == "__iadd__":
            td += o
        elif op == "__isub__":
            td -= o
        elif op == "__imul__":
            td *= o
        elif op == "__itruediv__":
            td /= o
        elif op == "__ipow__":
            td **= 2.0
        return td
    return f


for op in ("__iadd__", "__isub__", "__imul__", "__itruediv__", "__ipow__"):
    reg(op, lambda c, op=op: _iop(c, op))


def _set_(c):
    k = c.k0 if c.vs % 2 == 0 else c.k1
    v = c.tensor(c.fshape(k))
    return lambda: c.td.set_(k, v)


def _set_inplace(c):
    k = c.k1
    v = c.tensor(c.fshape(k))
    return lambda: c.td.set(k, v, inplace=True)


def _nested_key(c):
    for k in c.td.keys(True, True):
        if isinstance(k, tuple):
            return k
    return None


def _set_nested_(c):
    k = _nested_key(c) or c.k0
    v = c.tensor(tuple(c.td.get(k).shape))
    return lambda: c.td.set_(k, v)


reg("set_", _set_, _set_nested_)
reg("set/inplace", _set_inplace)
reg("update_", lambda c: (lambda o=c.other(): c.td.update_(o)),
    lambda c: (lambda o=c.other().select(c.k0): c.td.update_(o)),
    lambda c: (lambda o=c.other(): c.td.update_(o, keys_to_update=[c.k1])),
    lambda c: (lambda o=c.other(): c.td.update_(o.to_dict())))
reg("update/inplace", lambda c: (lambda o=c.other(): c.td.update(o, inplace=True)))
reg("copy_", lambda c: (lambda o=c.other(): c.td.copy_(o)))


def _set_at_(c):
    k = c.k1
    idx = pick(c, [0, slice(0, 1), (slice(None), 0), [1, 0], torch.tensor([True, False])])
    shape = tuple(c.td.get(k)[idx].shape)
    v = c.tensor(shape)
    return lambda: c.td.set_at_(k, v, idx)


reg("set_at_", _set_at_)


def _update_at_(c, name):
    idx = pick(c, [0, slice(0, 1), (slice(None), 0), -1])
    o = c.other_at(idx)
    return lambda: getattr(c.td, name)(o, idx)


reg("update_at_", lambda c: _update_at_(c, "update_at_"))
reg("copy_at_", lambda c: _update_at_(c, "copy_at_"))


def _setitem_index(c):
    idx = pick(c, [0, slice(0, 1), (slice(None), 0), -1, Ellipsis, [1, 0], torch.tensor([True, False])])
    if c.vs % 3 == 2:
        return lambda: c.td.__setitem__(idx, 7.0)
    o = c.other_at(idx)
    return lambda: c.td.__setitem__(idx, o)


reg("__setitem__/index", _setitem_index)
reg("fill_", lambda c: (lambda: c.td.fill_(c.k0, 3.0)), lambda c: (lambda: c.td.fill_(c.k1, -1.0)))
reg("zero_", lambda c: (lambda: c.td.zero_()))
reg("apply_", lambda c: (lambda: c.td.apply_(lambda x: x * 2 + 1)),
    lambda c: (lambda o=c.other(): c.td.apply_(lambda x, y: x + y, o)))
reg("apply/inplace", lambda c: (lambda: c.td.apply(lambda x: x * 2 + 1, inplace=True)))
reg("named_apply/inplace", lambda c: (lambda: c.td.named_apply(lambda k, x: x - 3, inplace=True)))
reg("masked_fill_", lambda c: (lambda m=c.mask(): c.td.masked_fill_(m, 9.0)))
reg("detach_", lambda c: (lambda: c.td.detach_()))

# ------------------------------------------------------------------------------------------ out-of-place
reg("clamp", lambda c: (lambda: c.td.clamp(2.0, 9.0)))
reg("bitwise_and", lambda c: (lambda: c.td.bool().bitwise_and(c.td.bool())))
reg("logical_and", lambda c: (lambda: c.td.logical_and(c.td)))
for nm in ("isfinite", "isnan", "isneginf", "isposinf", "isreal"):
    reg(nm, lambda c, nm=nm: (lambda: getattr(c.td, nm)()))
for nm in REDUCE:
    reg(nm, lambda c, nm=nm: (lambda: getattr(c.td, nm)()), lambda c, nm=nm: (lambda: getattr(c.td, nm)(0)),
        lambda c, nm=nm: (lambda: getattr(c.td, nm)(dim=-1)))
reg("cummax", lambda c: (lambda: c.td.cummax(0)))
reg("cummin", lambda c: (lambda: c.td.cummin(0)))
reg("logsumexp", lambda c: (lambda: c.td.logsumexp(0)))
reg("softmax", lambda c: (lambda: c.td.softmax(0)))
reg("norm", lambda c: (lambda: c.td.norm()))
reg("where", lambda c: (lambda m=c.mask(), o=c.other(): c.td.where(m, o)))
reg("masked_fill", lambda c: (lambda m=c.mask(): c.td.masked_fill(m, 9.0)))
reg("apply", lambda c: (lambda: c.td.apply(lambda x: x + 1)), lambda c: (lambda: c.td.apply(lambda x: x)))
reg("named_apply", lambda c: (lambda: c.td.named_apply(lambda k, x: x * 2)))
reg("__abs__", lambda c: (lambda: abs(c.td)))
reg("__neg__", lambda c: (lambda: -c.td))
reg("__invert__", lambda c: (lambda: ~(c.td > 3)))
for nm, f in {"__add__": lambda a, b: a + b, "__sub__": lambda a, b: a - b, "__mul__": lambda a, b: a * b, "__truediv__": lambda a, b: a / b,
              "__pow__": lambda a, b: a ** 2.0, "__radd__": lambda a, b: 2.0 + a, "__rsub__": lambda a, b: 2.0 - a, "__rmul__": lambda a, b: 2.0 * a,
              "__rtruediv__": lambda a, b: 2.0 / a, "__rpow__": lambda a, b: 2.0 ** a,
              "__eq__": lambda a, b: a == b, "__ne__": lambda a, b: a != b, "__lt__": lambda a, b: a < b, "__le__": lambda a, b: a <= b,
              "__gt__": lambda a, b: a > b, "__ge__": lambda a, b: a >= b}.items():
    reg(nm, lambda c, f=f: (lambda o=c.other(): f(c.td, o)), lambda c, f=f: (lambda: f(c.td, 2.0)))
for nm, f in {"__and__": lambda a, b: a & b, "__or__": lambda a, b: a | b, "__xor__": lambda a, b: a ^ b,
              "__rand__": lambda a, b: b.__rand__(a), "__ror__": lambda a, b: b.__ror__(a), "__rxor__": lambda a, b: b.__rxor__(a)}.items():
    reg(nm, lambda c, f=f: (lambda: f(c.td > 3, c.td > 5)))
for nm in CASTS:
    reg(nm, lambda c, nm=nm: (lambda: getattr(c.td, nm)()))
reg("to", lambda c: (lambda: c.td.to(torch.float32)), lambda c: (lambda: c.td.to("cpu")), lambda c: (lambda: c.td.to(DT)))
reg("cpu", lambda c: (lambda: c.td.cpu()))
reg("type", lambda c: (lambda: c.td.type(torch.float32)))
reg("new_empty", lambda c: (lambda: c.td.new_empty((2,))))
reg("new_full", lambda c: (lambda: c.td.new_full((2,), 3.0)))
reg("new_ones", lambda c: (lambda: c.td.new_ones((2,))))
reg("new_zeros", lambda c: (lambda: c.td.new_zeros((2,))))
reg("new_tensor", lambda c: (lambda t=c.tensor((2,)): c.td.new_tensor(t)))
reg("empty", lambda c: (lambda: c.td.empty()), lambda c: (lambda: c.td.empty(recurse=True)))
reg("replace", lambda c: (lambda t=c.tensor(c.fshape(c.k0)): c.td.replace({c.k0: t})))
reg("filter_non_tensor_data", lambda c: (lambda: c.td.filter_non_tensor_data()))
reg("rename", lambda c: (lambda: c.td.rename(*[f"d{i}" for i in range(len(c.bs))])))
reg("refine_names", lambda c: (lambda: c.td.refine_names(*[f"d{i}" for i in range(len(c.bs))])))
reg("cat_from_tensordict", lambda c: (lambda: c.td.select(c.k0).cat_from_tensordict(0)))
reg("stack_from_tensordict", lambda c: (lambda: c.td.select(c.k0).stack_from_tensordict(0)))
reg("to_padded_tensor", lambda c: (lambda: c.td.to_padded_tensor()))
reg("flatten", lambda c: (lambda: c.td.flatten()), lambda c: (lambda: c.td.flatten(0, 1)))
reg("reshape", lambda c: (lambda: c.td.reshape(-1)), lambda c: (lambda: c.td.reshape(c.bs[::-1])), lambda c: (lambda: c.td.reshape(c.bs)))
reg("densify", lambda c: (lambda: c.td.densify()))
reg("numpy", lambda c: (lambda: c.td.numpy()))
reg("tolist", lambda c: (lambda: c.td.tolist()))
reg("to_namedtuple", lambda c: (lambda: c.td.to_namedtuple()))
reg("to_pytree", lambda c: (lambda: c.td.to_pytree()))
reg("to_struct_array", lambda c: (lambda: c.td.to_struct_array()))
reg("state_dict", lambda c: (lambda: c.td.state_dict()))
reg("as_tensor", lambda c: (lambda: c.td.as_tensor()))
reg("memmap_like", lambda c: (lambda: c.td.memmap_like()))

# ------------------------------------------------------------------------------------------ views
reg("__getitem__/basic", lambda c: (lambda i=pick(c, basic_indices(c)): c.td[i]))
reg("__getitem__/key", lambda c: (lambda: c.td[c.k0]), lambda c: (lambda: c.td[c.k1]), lambda c: (lambda k=_nested_key(c) or c.k0: c.td[k]))
reg("get", lambda c: (lambda: c.td.get(c.k0)), lambda c: (lambda: c.td.get(c.k1)), lambda c: (lambda k=_nested_key(c) or c.k1: c.td.get(k)))
reg("get_at/basic", lambda c: (lambda i=pick(c, [0, slice(0, 1), (slice(None), 0), -1]): c.td.get_at(c.k1, i)))
reg("get_at/advanced", lambda c: (lambda i=pick(c, [[1, 0], torch.tensor([0, 0]), torch.tensor([True, False])]): c.td.get_at(c.k1, i)))
reg("__getitem__/advanced", lambda c: (lambda i=pick(c, adv_indices(c)): c.td[i]))
reg("__getitems__", lambda c: (lambda: c.td.__getitems__([1, 0])))


def _numel(bs):
    n = 1
    for s in bs:
        n *= s
    return n


reg("view", lambda c: (lambda: c.td.view(-1)), lambda c: (lambda: c.td.view(*c.bs)), lambda c: (lambda: c.td.view(_numel(c.bs), 1)),
    lambda c: (lambda: c.td.view(c.bs[0], 1, c.bs[1])))
reg("permute", lambda c: (lambda: c.td.permute(1, 0)), lambda c: (lambda: c.td.permute(-1, -2)), lambda c: (lambda: c.td.permute(0, 1)))
reg("transpose", lambda c: (lambda: c.td.transpose(0, 1)), lambda c: (lambda: c.td.transpose(-1, 0)))
reg("squeeze", lambda c: (lambda: c.td.unsqueeze(1).squeeze(1)), lambda c: (lambda: c.td.unsqueeze(0).squeeze()), lambda c: (lambda: c.td.squeeze()))
reg("unsqueeze", lambda c: (lambda: c.td.unsqueeze(0)), lambda c: (lambda: c.td.unsqueeze(-1)), lambda c: (lambda: c.td.unsqueeze(1)))
reg("expand", lambda c: (lambda: c.td.expand(2, *c.bs)), lambda c: (lambda: c.td.expand(*c.bs)), lambda c: (lambda: c.td.unsqueeze(0).expand(3, *c.bs)))
reg("expand_as", lambda c: (lambda t=c.tensor((2,) + c.bs): c.td.expand_as(t)))
reg("unbind", lambda c: (lambda: c.td.unbind(0)), lambda c: (lambda: c.td.unbind(1)), lambda c: (lambda: c.td.unbind(-1)))
reg("split", lambda c: (lambda: c.td.split(1, 0)), lambda c: (lambda: c.td.split([1, 1], 0)), lambda c: (lambda: c.td.split(2, 1)) if c.bs[1] > 0 else (lambda: c.td.split(1, 0)))
reg("chunk", lambda c: (lambda: c.td.chunk(2, 0)), lambda c: (lambda: c.td.chunk(2, 1)) if c.bs[1] > 0 else (lambda: c.td.chunk(2, 0)))
reg("select", lambda c: (lambda: c.td.select(c.k0)), lambda c: (lambda: c.td.select(c.k0, c.k1)), lambda c: (lambda k=_nested_key(c) or c.k1: c.td.select(k)))
reg("exclude", lambda c: (lambda: c.td.exclude(c.k0)), lambda c: (lambda: c.td.exclude()), lambda c: (lambda k=_nested_key(c) or c.k1: c.td.exclude(k)))
reg("copy", lambda c: (lambda: c.td.copy()))
reg("clone/shallow", lambda c: (lambda: c.td.clone(False)), lambda c: (lambda: c.td.clone(recurse=False)))
reg("flatten_keys", lambda c: (lambda: c.td.flatten_keys()), lambda c: (lambda: c.td.flatten_keys("-")))
reg("unflatten_keys", lambda c: (lambda: c.td.flatten_keys().unflatten_keys()), lambda c: (lambda: c.td.unflatten_keys()))
reg("split_keys", lambda c: (lambda: c.td.split_keys([c.k0])), lambda c: (lambda: c.td.split_keys([c.k0], [c.k1])))
reg("values", lambda c: (lambda: list(c.td.values())), lambda c: (lambda: list(c.td.values(True, True))))
reg("items", lambda c: (lambda: dict(c.td.items())), lambda c: (lambda: {".".join(k) if isinstance(k, tuple) else k: v for k, v in c.td.items(True, True)}))
reg("__iter__", lambda c: (lambda: list(iter(c.td))))
reg("to_dict", lambda c: (lambda: c.td.to_dict()))
reg("data", lambda c: (lambda: c.td.data))
reg("detach", lambda c: (lambda: c.td.detach()))
reg("unflatten", lambda c: (lambda: c.td.unflatten(0, (1, c.bs[0]))), lambda c: (lambda: c.td.unflatten(-1, (c.bs[-1], 1))))

# ------------------------------------------------------------------------------------------ copies
reg("clone", lambda c: (lambda: c.td.clone()), lambda c: (lambda: c.td.clone(True)))
reg("to_tensordict", lambda c: (lambda: c.td.to_tensordict()))
reg("masked_select", lambda c: (lambda m=c.mask(): c.td.masked_select(m)))


def _gather(c):
    idx = torch.zeros(c.bs, dtype=torch.int64)
    c.args.append(("gidx", idx))
    return lambda: c.td.gather(0, idx)


reg("gather", _gather)
reg("repeat", lambda c: (lambda: c.td.repeat(2, 1)), lambda c: (lambda: c.td.repeat(1, 1)))
reg("repeat_interleave", lambda c: (lambda: c.td.repeat_interleave(2, dim=0)))
reg("cat", lambda c: (lambda o=c.other(): type(c.td).cat([c.td, o], 0)) if hasattr(type(c.td), "cat") else (lambda o=c.other(): torch.cat([c.td, o], 0)),
    lambda c: (lambda: torch.cat([c.td, c.td], 0)), lambda c: (lambda: torch.cat([c.td], 0)))
reg("stack", lambda c: (lambda: torch.stack([c.td, c.td], 0)), lambda c: (lambda o=c.other(): torch.stack([c.td, o], -1)), lambda c: (lambda: torch.stack([c.td], 0)))
reg("consolidate", lambda c: (lambda: c.td.consolidate()))
reg("memmap", lambda c: (lambda: c.td.memmap()))
reg("contiguous", lambda c: (lambda: c.td.contiguous()))

# ------------------------------------------------------------------------------------------ structural (rebind)
reg("set", lambda c: (lambda t=c.tensor(c.fshape(c.k0)): c.td.set(c.k0, t)), lambda c: (lambda t=c.tensor(c.bs + (4,)): c.td.set("fresh", t)),
    lambda c: (lambda t=c.tensor(c.bs + (1,)): c.td.set(("m", "y"), t)))
reg("__setitem__/key", lambda c: (lambda t=c.tensor(c.fshape(c.k1)): c.td.__setitem__(c.k1, t)), lambda c: (lambda t=c.tensor(c.bs): c.td.__setitem__("fresh", t)))
reg("update", lambda c: (lambda o=c.other(): c.td.update(o)), lambda c: (lambda o=c.other().select(c.k0): c.td.update(o)),
    lambda c: (lambda o=c.other(): c.td.update(o, clone=True)))
reg("setdefault", lambda c: (lambda t=c.tensor(c.bs): c.td.setdefault("fresh", t)), lambda c: (lambda t=c.tensor(c.fshape(c.k0)): c.td.setdefault(c.k0, t)))
reg("rename_key_", lambda c: (lambda: c.td.rename_key_(c.k0, "renamed")))
reg("del_", lambda c: (lambda: c.td.del_(c.k1)))
reg("__delitem__", lambda c: (lambda: c.td.__delitem__(c.k0)))
reg("pop", lambda c: (lambda: c.td.pop(c.k0)))
reg("popitem", lambda c: (lambda: c.td.popitem()))
reg("clear", lambda c: (lambda: c.td.clear()))
reg("create_nested", lambda c: (lambda: c.td.create_nested("nn")))
reg("select/inplace", lambda c: (lambda: c.td.select(c.k0, inplace=True)))
reg("exclude/inplace", lambda c: (lambda: c.td.exclude(c.k0, inplace=True)))
reg("set_non_tensor", lambda c: (lambda: c.td.set_non_tensor("nt", "hello")))
reg("cat_tensors", lambda c: (lambda: c.td.cat_tensors(c.k1, c.k1, out_key="catd", dim=-1, keep_entries=True)))
reg("stack_tensors", lambda c: (lambda: c.td.stack_tensors(c.k0, c.k0, out_key="stkd", dim=-1, keep_entries=True)))
reg("separates", lambda c: (lambda: c.td.separates(c.k0)))
reg("filter_empty_", lambda c: (lambda: c.td.filter_empty_()))
reg("share_memory_", lambda c: (lambda: c.td.share_memory_()))
reg("memmap_", lambda c: (lambda: c.td.memmap_()))
reg("load_state_dict", lambda c: (lambda sd=c.other().state_dict(): c.td.load_state_dict(sd)))
reg("load_state_dict/assign", lambda c: (lambda sd=c.other().state_dict(): c.td.load_state_dict(sd, assign=True)))

# ------------------------------------------------------------------------------------------ queries
for nm in ("batch_dims batch_size depth device dtype grad is_cpu is_cuda is_locked is_meta names ndim requires_grad saved_path shape sorted_keys").split():
    reg(nm, lambda c, nm=nm: (lambda: (getattr(c.td, nm), None)[1]))
for nm in ("bytes data_ptr dim is_consolidated is_contiguous is_empty is_floating_point is_memmap is_shared keys ndimension "
           "non_tensor_items numel param_count size lock_ unlock_ auto_batch_size_ auto_device_ clear_device_ clear_refs_for_compile_ zero_grad "
           "memmap_refresh_ __len__ __bool__").split():
    reg(nm, lambda c, nm=nm: (lambda: (getattr(c.td, nm)(), None)[1]))
reg("entry_class", lambda c: (lambda: (c.td.entry_class(c.k0), None)[1]))
reg("get_item_shape", lambda c: (lambda: (c.td.get_item_shape(c.k0), None)[1]))
reg("get_non_tensor", lambda c: (lambda: (c.td.get_non_tensor("nope", default=None), None)[1]))
reg("rename_", lambda c: (lambda: (c.td.rename_(*[f"d{i}" for i in range(len(c.bs))]), None)[1]))
reg("requires_grad_", lambda c: (lambda: (c.td.requires_grad_(False), None)[1]))
reg("__contains__", lambda c: (lambda: (c.k0 in c.td.keys(), None)[1]))


def _enter_exit(c):
    def f():
        with c.td.unlock_() if not c.cont.locked else c.td.lock_():
            pass
        return None
    return f


reg("__enter__", _enter_exit)
reg("__exit__", _enter_exit)

# a second mapping of the files of a memory-mapped tensordict (only meaningful on the memmap kind: row load_memmap%memmap)
reg("load_memmap", lambda c: (lambda: type(c.td).load_memmap(c.cont.prefix)))
