"""C12: worker functions handed to map / map_iter (module level, so fork *and* spawn workers can
import them by name) and the canonicalisers of what comes back.

Input tensordicts built by `make_input` carry, for a mapped dim `dim` of size n:
  x        provenance tensor arange(numel) over batch shape + feature shape
  r        index along `dim` of every batch element (so a row "knows" where it came from)
  seen_lo / seen_len / seen_cnt   written *in place* by every call on its (shared-memory) chunk:
           first row and length of the chunk the call received, number of calls that touched the row
The input is always in shared memory, so these in-place writes made in the workers are visible in the
parent: the harness learns the partition the workers really saw, whatever the function returned.
"""
from __future__ import annotations

import time

import torch


def make_input(shape, dim, feat=(), shared=True):
    from tensordict import TensorDict
    shape = tuple(shape)
    nd = len(shape)
    d = dim % nd
    numel = 1
    for s in shape + tuple(feat):
        numel *= s
    x = torch.arange(numel, dtype=torch.int64).reshape(shape + tuple(feat))
    view = [1] * nd
    view[d] = shape[d]
    r = torch.arange(shape[d], dtype=torch.int64).reshape(view).expand(shape).clone()
    td = TensorDict(
        {"x": x, "r": r, "seen_lo": torch.full(shape, -1), "seen_len": torch.full(shape, -1),
         "seen_cnt": torch.zeros(shape, dtype=torch.int64)},
        batch_size=shape,
    )
    if shared:
        td.share_memory_()
    return td


def make_out(shape, feat=(), kind="regular", path=None):
    """the out= buffer: every row starts as 'untouched' (src = -1)"""
    from tensordict import TensorDict
    shape = tuple(shape)
    td = TensorDict(
        {"y": torch.full(shape + tuple(feat), -1, dtype=torch.int64), "src": torch.full(shape, -1),
         "lo": torch.full(shape, -1), "len": torch.full(shape, -1)},
        batch_size=shape,
    )
    if kind == "shared":
        td.share_memory_()
    elif kind == "memmap":
        td.memmap_(path)
    return td


def tag_fn(td, *, d, nd, none_mask=(), delays=(), kind="td"):
    """the instrumented worker function.
    d: normalised mapped dim; nd: batch rank of the whole input (a chunk of lower rank was unbound).
    kind 'td': return the tagged result; 'none': only the in-place marks, return None;
    'mixed': None for the chunks whose first row is flagged in none_mask."""
    from tensordict import TensorDict
    r = td["r"]
    unbound = td.batch_dims < nd
    lo = int(r.reshape(-1)[0]) if r.numel() else -1
    ln = 0 if unbound else td.batch_size[d]
    if lo >= 0 and lo < len(delays) and delays[lo]:
        time.sleep(delays[lo])
    td["seen_lo"].fill_(lo)
    td["seen_len"].fill_(ln)
    td["seen_cnt"].add_(1)
    if kind == "none":
        return None
    if kind == "mixed" and 0 <= lo < len(none_mask) and none_mask[lo]:
        return None
    return TensorDict(
        {"y": td["x"].clone(), "src": r.clone(), "lo": torch.full_like(r, lo), "len": torch.full_like(r, ln)},
        batch_size=td.batch_size,
    )


def rows_of(td, d, x_full):
    """canonical rows of a result / out buffer along dim d: 'u' (untouched) or [src, lo, len];
    ['bad', why] when a row is not a clean copy of one input row."""
    n = td.batch_size[d]
    out = []
    for j in range(n):
        src = td["src"].select(d, j).reshape(-1)
        lo = td["lo"].select(d, j).reshape(-1)
        ln = td["len"].select(d, j).reshape(-1)
        y = td["y"].select(d, j)
        if src.numel() == 0:
            out.append(["empty"])
            continue
        s, l, k = int(src[0]), int(lo[0]), int(ln[0])
        if not (bool((src == s).all()) and bool((lo == l).all()) and bool((ln == k).all())):
            out.append(["bad", "ragged-row"])
            continue
        if s == -1:
            out.append("u" if bool((y == -1).all()) else ["bad", "untagged-but-written"])
            continue
        if not (0 <= s < x_full.shape[d]) or not torch.equal(y, x_full.select(d, s)):
            out.append(["bad", "values"])
            continue
        out.append([s, l, k])
    return out


def seen_chunks(inp, d):
    """the partition the workers saw: list over rows of (lo, len, cnt)"""
    n = inp.batch_size[d]
    res = []
    for j in range(n):
        lo = inp["seen_lo"].select(d, j).reshape(-1)
        ln = inp["seen_len"].select(d, j).reshape(-1)
        ct = inp["seen_cnt"].select(d, j).reshape(-1)
        if lo.numel() == 0:
            res.append((-2, -2, -2))
            continue
        ok = bool((lo == lo[0]).all()) and bool((ln == ln[0]).all()) and bool((ct == ct[0]).all())
        res.append((int(lo[0]), int(ln[0]), int(ct[0])) if ok else (-3, -3, -3))
    return res


# ----------------------------------------------------------------------------- thread-pool side
def leaf_fn(x, *, none_vals=(), log=None, delays=None):
    """function applied per leaf by the multithreaded apply: identity on the leaf id, None for flagged ids"""
    v = int(x.reshape(-1)[0])
    if delays:
        time.sleep(delays.get(v, 0))
    if log is not None:
        log.append(v)
    if v in none_vals:
        return None
    return x + 0


def named_leaf_fn(name, x, *, none_vals=(), log=None):
    v = int(x.reshape(-1)[0])
    if log is not None:
        log.append((name if isinstance(name, str) else tuple(name), v))
    if v in none_vals:
        return None
    return x + 0


def ask_batched(drv, reqs, n=100):
    """common.Driver.ask_many writes up to 2000 requests before reading any answer; with long answers
    both pipes fill up and the two processes wait for each other. Small batches cannot deadlock
    (n answers always fit in the 64 KiB pipe buffer for the answer sizes of this property)."""
    out = []
    for i in range(0, len(reqs), n):
        out += drv.ask_many(reqs[i:i + n])
    return out


def ident_fn(td):
    """worker function of the shuffle stream: the chunk itself (its "r" entry holds the source row of every row)"""
    return td


def affine_fn(td):
    """slice-wise worker function for the extended map stream: every leaf x -> 2*x + 1"""
    return td.apply(lambda x: x * 2 + 1)


# ------------------------------------------------------------------------------------------- hard deadline
import contextlib as _contextlib


@_contextlib.contextmanager
def hard_deadline(seconds, what):
    """Last-resort guard around a whole stream that uses pools / threads / subprocesses: when it has not finished after `seconds`
    (a SIGALRM-based `time_limit` cannot fire while the main thread sits in a C call, and `Pool.terminate` / `ThreadPoolExecutor.__exit__`
    can themselves wait for ever on a stuck worker), kill every child process and leave with exit code 2 (INFRA: no verdict)."""
    import os
    import sys
    import threading

    def fire():
        try:
            import multiprocessing
            import multiprocessing.process as mpp
            import subprocess
            import time

            def _no_start(self):   # a pool's maintenance thread starts a replacement for every worker that dies
                raise RuntimeError("the check is shutting down")
            mpp.BaseProcess.start = _no_start
            for _ in range(2):
                for p in multiprocessing.active_children():
                    try:
                        p.kill()
                    except Exception:  # noqa: BLE001
                        pass
                # every direct child (pool workers of any start method, the Lean driver, probes)
                subprocess.run(["pkill", "-KILL", "-P", str(os.getpid())], timeout=10, capture_output=True)
                time.sleep(0.2)
        except Exception:  # noqa: BLE001
            pass
        print(f"INFRA: hard deadline: stream {what} did not finish within {seconds}s (stuck worker or overloaded machine); no verdict",
              file=sys.stderr, flush=True)
        os._exit(2)

    t = threading.Timer(seconds, fire)
    t.daemon = True
    t.start()
    try:
        yield
    finally:
        t.cancel()


def single_threaded_torch():
    """torch's intra-op thread pool must not be started in the process that later forks pool workers: a forked worker that then
    runs a parallel kernel (e.g. `map(worker_threads=2)`) dead-locks in the OpenMP runtime it inherited (reproduced: every worker in
    futex wait, `imap.next()` never returns). Called first thing by the checks that fork."""
    import torch
    torch.set_num_threads(1)
    try:
        torch.set_num_interop_threads(1)
    except RuntimeError:
        pass


def guarded_stream(run, name, fn, *args, **kwargs):
    """Run one stream. An exception that escapes it is a harness problem (INFRA) — unless it was raised *inside the library* by a call the
    stream makes while preparing its inputs or its single-threaded reference (saving the tensordict that is going to be mapped, loading
    the reference directory, …): the unmodified library does not raise there, so that is reported as a failure of the property on this
    input (with the traceback's library frame), not as "no verdict"."""
    import os
    import traceback
    from common import Infra
    try:
        return fn(*args, **kwargs)
    except (Infra, KeyboardInterrupt, SystemExit):
        raise
    except TimeoutError as e:
        raise Infra(f"stream {name}: {e}")
    except Exception as e:  # noqa: BLE001
        tb = traceback.extract_tb(e.__traceback__)
        repo = os.path.realpath(os.environ.get("VERIF_REPO", "/repo"))
        inner = tb[-1] if tb else None
        in_library = inner is not None and os.path.realpath(inner.filename).startswith(repo + os.sep)
        if not in_library:
            raise
        harness_frames = [f for f in tb if os.sep + "harness" + os.sep in f.filename]
        where = f"{os.path.basename(harness_frames[-1].filename)}:{harness_frames[-1].lineno}" if harness_frames else "?"
        run.oracle_fail("stream_setup", {"stream": name, "at": where},
                        f"stream {name}: the library raised {type(e).__name__}: {str(e)[:160]} in {os.path.basename(inner.filename)}:{inner.lineno} ({inner.name}) "
                        f"while the stream prepared its inputs / reference at {where}", f"setup:{name}:{type(e).__name__}")
        return None


# ------------------------------------------------------------------------------------------- known schedule-dependent failure
RACE_MSG = "dictionary changed size during iteration"
RACE_SITE = "nontensor_metadata_task_reads_live_dict"


def route_metadata_race(run):
    """memmap()/save() (not in place) with num_threads>1 on data that holds a non-tensor entry: the tensorclass `save_metadata` writer task
    iterates the dict that the calling thread installs as the result's `_non_tensordict` and then extends with `_metadata`
    (tensorclass.py `_memmap_` / `NonTensorData._memmap_`). With real threads the save therefore raises — rarely, depending on the
    scheduler — `RuntimeError: dictionary changed size during iteration`. `c12_threads.run_metadata_race` forces that schedule and reports it
    every run at RACE_SITE (recorded finding). This routes a *spontaneous* occurrence in any other stream to the same site, so that a
    rare scheduling accident is reported as the recorded finding it is and not as a new failure of whatever the stream was checking."""
    orig_fail, orig_corr = run.oracle_fail, run.corr

    def oracle_fail(site, case, what, fingerprint=None):
        if site != RACE_SITE and RACE_MSG in str(what):
            run.count("metadata_race.spontaneous", site)
            return orig_fail(RACE_SITE, {"at": site, "case": case}, str(what), "metadata-race:spontaneous:" + str(site)[:40])
        return orig_fail(site, case, what, fingerprint)

    def corr(stream, case, impl, model):
        if impl != model and RACE_MSG in repr(impl)[:2000]:
            run.count("metadata_race.spontaneous", stream)
            orig_fail(RACE_SITE, {"at": stream, "case": case}, repr(impl)[:300], "metadata-race:spontaneous:" + str(stream)[:40])
            return True
        return orig_corr(stream, case, impl, model)

    run.oracle_fail = oracle_fail
    run.corr = corr


def seed_fn(td):
    """worker function of the seeding stream: what the worker process was initialised with (torch seed, numpy state word, intra-op threads)"""
    import numpy as np
    import torch
    from tensordict import TensorDict
    n = td.batch_size[0]
    return TensorDict({"seed": torch.full((n,), torch.initial_seed(), dtype=torch.int64),
                       "np": torch.full((n,), int(sum(int(v) << (4 * i) for i, v in enumerate(np.random.get_state()[1][1:9]))), dtype=torch.int64),
                       "threads": torch.full((n,), torch.get_num_threads(), dtype=torch.int64),
                       "pid": torch.full((n,), __import__("os").getpid(), dtype=torch.int64)}, [n])
