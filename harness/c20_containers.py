"""C20: other container kinds run through the SAME lattice and the SAME Lean model as a plain TensorDict (refinement):
a tensorclass whose fields are the first-level keys, a sub-tensordict (row 0 of a parent with one more leading dim) and a
TensorDictParams wrapper (unlocked, no_convert)."""
from __future__ import annotations

import torch


def wrap(kind, self_td, struct, rng):
    """returns (object to call apply on, unwrap(result) -> tensordict to canonicalise)"""
    from tensordict import TensorDict, is_tensorclass
    if kind == "tensorclass":
        from typing import Any
        from tensordict import tensorclass
        cls = tensorclass(type("C20TC", (), {"__annotations__": {k: Any for k in self_td.keys()}}))
        obj = cls._from_tensordict(self_td)

        def unwrap(r):
            return r._tensordict if is_tensorclass(r) else r
        return obj, unwrap
    if kind == "sub_td":
        was_locked = self_td.is_locked
        base = self_td.unlock_() if was_locked else self_td
        parent = torch.stack([base, base.apply(lambda x: x + 500000)], 0)
        if was_locked:
            base.lock_()
            parent.lock_()
        obj = parent._get_sub_tensordict(0)
        return obj, (lambda r: r)
    if kind == "params":
        from tensordict import TensorDictParams
        obj = TensorDictParams(self_td, no_convert=True)    # integer leaves: kept as they are (no Parameter conversion)
        return obj, (lambda r: r._param_td if isinstance(r, TensorDictParams) else r)
    raise ValueError(kind)
