"""C20 extended domain (oracle only): lazy stacks, sub-tensordicts, tensorclasses, TensorDictParams.

The reference is a plain recursion over nested dicts of tensors; the function is arithmetic so that a wrong pairing,
a wrong key or a lost default shows up in the values."""
from __future__ import annotations

import itertools
import warnings

import torch

import c20_lib as L
from common import Infra, err_class, time_limit

warnings.filterwarnings("ignore")


def key_code(key):
    if key is None:
        return 0
    if isinstance(key, str):
        key = (key,)
    return sum((i + 1) * sum(map(ord, k)) for i, k in enumerate(key)) % 97


def make_fn(named, drop_mod):
    def fn(*args):
        if named:
            key, x, others = args[0], args[1], args[2:]
        else:
            key, x, others = None, args[0], args[1:]
        if drop_mod and int(x.reshape(-1)[0]) % drop_mod == 0:
            return None
        r = x * 1000 + key_code(key)
        for j, o in enumerate(others):
            r = r + (j + 1) * 7 * (o if o is not None else torch.full_like(x, -3))
        return r
    return fn


def ref(d, others, named, nested_keys, default, fn, pre=()):
    out = {}
    for k, v in d.items():
        if isinstance(v, dict):
            subs = []
            for o in others:
                if isinstance(o, dict) and k in o:
                    subs.append(o[k])
                elif default:
                    subs.append({})
                else:
                    raise L.KeyMissing(pre + (k,))
            out[k] = ref(v, subs, named, nested_keys, default, fn, pre + (k,))
        else:
            args = []
            for o in others:
                if isinstance(o, dict) and k in o:
                    args.append(o[k])
                elif default:
                    args.append(None)
                else:
                    raise L.KeyMissing(pre + (k,))
            key = (pre + (k,) if nested_keys and pre else k) if named else None
            r = fn(key, v, *args) if named else fn(v, *args)
            if r is not None:
                out[k] = r
    return out


def tensors(struct, batch, base=0):
    return {k: (tensors(v, batch, base) if isinstance(v, dict) else (torch.arange(int(torch.tensor(batch).prod()) if batch else 1).reshape(batch) + (v + base) * 10))
            for k, v in struct.items()}


def flat(d, pre=()):
    out = {}
    for k, v in d.items():
        if isinstance(v, dict):
            out.update(flat(v, pre + (k,)))
        else:
            out[pre + (k,)] = v
    return out


def td_from(d, batch):
    from tensordict import TensorDict
    td = TensorDict({}, batch_size=list(batch))
    for k, v in d.items():
        td[k] = td_from(v, batch) if isinstance(v, dict) else v.clone()
    return td


def leaves(td):
    out = {}
    for k, v in td.items(True, True):
        out[(k,) if isinstance(k, str) else tuple(k)] = v
    return out


def run_extended(run, rng):
    run_nontensor(run, rng, 40 if run.tier == "quick" else 250)
    run_nested_containers(run, rng, 1000)
    from tensordict import TensorDict, lazy_stack
    from tensordict.nn import TensorDictParams
    n = 60 if run.tier == "quick" else 400
    site = "container"
    for it in range(n):
        kind = rng.choice(["lazy_stack", "sub_tensordict", "tensorclass", "params"])
        named = rng.random() < 0.5
        nested_keys = named and rng.random() < 0.5
        default = rng.random() < 0.5
        inplace = rng.random() < 0.3 and kind != "params"
        drop_mod = rng.choice([0, 0, 3])
        fe = rng.choice([None, True, False])
        ids = itertools.count(1)
        batch = (2, 3)
        if kind == "tensorclass":
            s = {"a": next(ids), "b": next(ids), "n": {"c": next(ids), "d": next(ids)}}
        else:
            s = L.gen_struct(rng, 0, ids, allow_empty=False)
            if not L.flat_ids(s):
                continue
        vals = tensors(s, batch)
        nothers = rng.choice([0, 1, 2])
        ostructs, ovals = [], []
        for j in range(nothers):
            mode = rng.choice(["perm", "perm", "missing"]) if default else "perm"
            o = L.derive_other(rng, s, itertools.count(1), mode)
            # same ids as self structure positions are irrelevant: values are derived from the operand's own ids
            ostructs.append(o)
            ovals.append(tensors(o, batch, base=100 * (j + 1)))
        others = [td_from(o, batch) for o in ovals]
        fn = make_fn(named, drop_mod)
        # container under test
        dense = td_from(vals, batch)
        parent = None
        if kind == "lazy_stack":
            cont = lazy_stack([m.clone() for m in dense.unbind(0)], 0)
        elif kind == "sub_tensordict":
            # flat case: the sub-tensordict is rows 0..1 of a parent with 4 rows
            s = {k: v for k, v in s.items() if not isinstance(v, dict)}
            if not s:
                continue
            vals = {k: v for k, v in vals.items() if not isinstance(v, dict)}
            ovals = [{k: v for k, v in o.items() if not isinstance(v, dict)} for o in ovals]
            ostructs = [{k: v for k, v in o.items() if not isinstance(v, dict)} for o in ostructs]
            others = [td_from(o, batch) for o in ovals]
            parent = TensorDict({k: torch.cat([v, v + 5000], 0) for k, v in vals.items()}, [4, 3])
            cont = parent._get_sub_tensordict(slice(0, 2))
        elif kind == "tensorclass":
            from tensordict import tensorclass

            @tensorclass
            class C20TC:
                a: torch.Tensor
                b: torch.Tensor
                n: TensorDict
            cont = C20TC(a=vals["a"].clone(), b=vals["b"].clone(), n=td_from(vals["n"], batch), batch_size=list(batch))
        else:
            cont = TensorDictParams(td_from(vals, batch).float(), no_convert=True)
            vals = _to_float(vals)
            ovals = [_to_float(o) for o in ovals]
            others = [td_from(o, batch) for o in ovals]
        case = {"container": kind, "named": named, "nested_keys": nested_keys, "default": default, "inplace": inplace,
                "filter_empty": fe, "drop_mod": drop_mod, "self": s, "others": ostructs}
        run.case(("extended", kind, named, nested_keys, default, inplace, str(fe), drop_mod, str(s), str(ostructs)))
        run.count("container.kind", kind)
        try:
            want = flat(ref(vals, ovals, named, nested_keys, default, fn))
            want_err = False
        except L.KeyMissing:
            want, want_err = None, True
        kw = dict(inplace=inplace, filter_empty=fe)
        if default:
            kw["default"] = None
        # front-end: public apply / named_apply, or _fast_apply sequential / threaded; sometimes with out=
        front = rng.choice(["public", "public", "fast0", "fast2"])
        out_td = None
        if not inplace and rng.random() < 0.25:
            out_td = TensorDict({}, batch_size=list(batch))
            if kind == "lazy_stack":     # a lazy stack only accepts a lazy stack as out= (explicit ValueError otherwise)
                out_td = lazy_stack([TensorDict({}, batch_size=list(batch[1:])) for _ in range(batch[0])], 0)
            kw["out"] = out_td
        case["front"] = front
        case["out"] = out_td is not None
        try:
            with time_limit(240):
                with torch.no_grad():
                    if front == "public":
                        if named:
                            res = cont.named_apply(fn, *others, nested_keys=nested_keys, **kw)
                        else:
                            res = cont.apply(fn, *others, **kw)
                    else:
                        res = cont._fast_apply(fn, *others, named=named, nested_keys=nested_keys,
                                               num_threads=0 if front == "fast0" else 2, **kw)
            err = None
        except TimeoutError as e:
            raise Infra(f"implementation call timed out: {e}")
        except Exception as e:  # noqa: BLE001
            res, err = None, e
        fp = f"{kind}:{front}:{'named' if named else 'apply'}:{'inplace' if inplace else ('out' if out_td is not None else 'new')}"
        if want_err:
            run.oracle_ok(site) if err is not None else run.oracle_fail(site, case, "operand lacks an entry, no default, no exception", fp + ":no-raise")
            continue
        if err is not None:
            run.oracle_fail(site, case, f"raised {type(err).__name__}: {str(err)[:150]}", fp + f":raises:{err_class(err)}")
            continue
        if inplace:
            expect = dict(flat(vals))
            expect.update(want)
            target = cont
        else:
            expect = want
            target = out_td if (out_td is not None and res is not None) else res
        if out_td is not None and res is not None and res is not out_td and kind != "lazy_stack":
            # (a lazy stack returns a new stack wrapping the members of out: the results must then be IN out, checked below)
            run.oracle_fail(site, case, "out= was given but another object was returned", fp + ":identity")
            continue
        if out_td is not None and res is not None:
            target = out_td
        if target is None:
            if expect and not inplace:
                run.oracle_fail(site, case, "returned None although the function produced values", fp + ":none-result")
            else:
                run.oracle_ok(site)
            continue
        try:
            got = leaves(target.to_tensordict() if hasattr(target, "to_tensordict") else target)
        except Exception as e:  # noqa: BLE001
            run.oracle_fail(site, case, f"result unreadable: {e}", fp + ":unreadable")
            continue
        bad = [p for p in expect if p not in got or got[p].shape != expect[p].shape or not torch.equal(got[p].to(expect[p].dtype), expect[p])]
        extra = [p for p in got if p not in expect]
        if bad or extra:
            run.oracle_fail(site, case, f"result differs from the reference at {bad[:3]} (extra keys {extra[:3]})", fp + ":values")
            continue
        if kind == "sub_tensordict" and inplace:
            # written through to the parent, rows outside the index untouched
            ok = all(torch.equal(parent[k][:2], expect[(k,)]) and torch.equal(parent[k][2:], vals[k] + 5000) for k in vals)
            if not ok:
                run.oracle_fail(site, case, "in-place apply on a sub-tensordict did not write through / touched other rows", fp + ":write-through")
                continue
        run.oracle_ok(site)


def run_nontensor(run, rng, n):
    """non-tensor leaves are kept as they are, in every filter_empty mode, sequential or threaded"""
    from tensordict import NonTensorData, TensorDict
    site = "container"
    for it in range(n):
        ids = itertools.count(1)
        batch = (2,)
        s = L.gen_struct(rng, 0, ids, allow_empty=False)
        vals = tensors(s, batch)
        td = td_from(vals, batch)
        nts = {}

        def sprinkle(node, d, pre=()):
            if rng.random() < 0.7:
                key = "nt" + str(len(nts))
                node[key] = NonTensorData(f"v{len(nts)}", batch_size=list(batch))
                nts[pre + (key,)] = f"v{len(nts)}"
            for k, v in d.items():
                if isinstance(v, dict):
                    sprinkle(node[k], v, pre + (k,))
        sprinkle(td, s)
        fe = rng.choice([None, True, False])
        nt = rng.choice([0, 0, 2])
        drop_mod = rng.choice([0, 3, 1])      # 1: the function returns None for every tensor
        fn = make_fn(False, drop_mod)
        wrapped = lambda x, _f=fn: _f(x) if isinstance(x, torch.Tensor) else x  # noqa: E731
        case = {"container": "nontensor_leaves", "self": s, "nontensor": [".".join(k) for k in nts], "filter_empty": fe, "num_threads": nt, "drop_mod": drop_mod}
        run.case(("extended", "nontensor", str(s), str(sorted(nts)), str(fe), nt, drop_mod))
        run.count("container.kind", "nontensor_leaves")
        try:
            with time_limit(240):
                res = td._fast_apply(wrapped, filter_empty=fe, num_threads=nt) if nt else td.apply(wrapped, filter_empty=fe)
            err = None
        except TimeoutError as e:
            raise Infra(f"implementation call timed out: {e}")
        except Exception as e:  # noqa: BLE001
            res, err = None, e
        fp = f"nontensor:t{nt}:fe={fe}"
        if err is not None:
            run.oracle_fail(site, case, f"raised {type(err).__name__}: {str(err)[:150]}", fp + f":raises:{err_class(err)}")
            continue
        want = flat(ref(vals, [], False, False, False, fn))
        if res is None:
            if want or nts:
                run.oracle_fail(site, case, "returned None although tensors / non-tensor data should be in the result", fp + ":none-result")
            else:
                run.oracle_ok(site)
            continue
        got = leaves(res)
        bad = [p for p in want if p not in got or not torch.equal(got[p], want[p])]
        lost = []
        for path, data in nts.items():
            try:
                v = res[path if len(path) > 1 else path[0]]
                if getattr(v, "data", v) != data:
                    lost.append(path)
            except Exception:  # noqa: BLE001
                lost.append(path)
        if bad or lost:
            run.oracle_fail(site, case, f"tensor leaves differ at {bad[:3]}; non-tensor entries lost or changed: {lost[:3]}", fp + ":values")
        else:
            run.oracle_ok(site)


def run_nested_containers(run, rng, n):
    """a lazy stack / tensorclass / sub-tensordict NESTED inside a plain TensorDict: named_apply must hand the function the
    exact key (last key, or the full path with nested_keys=True) of every leaf under every metadata override"""
    from tensordict import TensorDict, lazy_stack, tensorclass
    site = "container"

    @tensorclass
    class C20Inner:
        x: torch.Tensor
        deep: TensorDict

    def build(kind):
        x0, x1 = torch.arange(3.0), torch.arange(3.0) + 10
        if kind == "lazy_stack":
            inner = lazy_stack([TensorDict({"x": x0.clone(), "deep": {"y": x0 + 100}}, [3]), TensorDict({"x": x1.clone(), "deep": {"y": x1 + 100}}, [3])], 0)
        elif kind == "tensorclass":
            inner = C20Inner(x=torch.stack([x0, x1]), deep=TensorDict({"y": torch.stack([x0, x1]) + 100}, [2, 3]), batch_size=[2, 3])
        elif kind == "sub_tensordict":
            parent = TensorDict({"x": torch.stack([x0, x1, x0, x1]), "deep": {"y": torch.stack([x0, x1, x0, x1]) + 100}}, [4, 3])
            inner = parent._get_sub_tensordict(slice(0, 2))
        else:
            inner = TensorDict({"x": torch.stack([x0, x1]), "deep": {"y": torch.stack([x0, x1]) + 100}}, [2, 3])
        td = TensorDict({"a": torch.arange(2.0), "nest": {"inner": inner}}, [2])
        return td

    combos = [(k, nk, bs, nm, dv) for k in ("lazy_stack", "tensorclass", "sub_tensordict", "plain")
              for nk in (True, False) for bs in (None, [2]) for nm in ("nodef", None, ["p"]) for dv in ("nodef", None, "cpu")
              if not (isinstance(nm, list) and bs is None)]     # `names=` is documented for a modified batch_size only
    if n < len(combos):
        combos = rng.sample(combos, n)
    for kind, nested_keys, bs, nm, dv in combos:
        td = build(kind)
        seen = []

        def fn(key, value):
            seen.append(key if isinstance(key, str) else tuple(key))
            return value + 1
        kw = {}
        if bs is not None:
            kw["batch_size"] = bs
        if nm != "nodef":
            kw["names"] = nm
        if dv != "nodef":
            kw["device"] = dv
        case = {"container": f"nested {kind}", "nested_keys": nested_keys, **{k: str(v) for k, v in kw.items()}}
        run.case(("extended", "nested_container", kind, nested_keys, str(bs), str(nm), str(dv)))
        run.count("container.kind", f"nested:{kind}")
        fp = f"nested:{kind}:nested_keys={nested_keys}:bs={'y' if bs else 'n'}:names={nm if nm in ('nodef', None) else 'list'}:device={dv}"
        try:
            with time_limit(240):
                res = td.named_apply(fn, nested_keys=nested_keys, **kw)
            err = None
        except TimeoutError as e:
            raise Infra(f"implementation call timed out: {e}")
        except Exception as e:  # noqa: BLE001
            res, err = None, e
        if err is not None:
            run.oracle_fail(site, case, f"raised {type(err).__name__}: {str(err)[:150]}", fp + f":raises:{err_class(err)}")
            continue
        if nested_keys:
            want = {"a", ("nest", "inner", "x"), ("nest", "inner", "deep", "y")}
        else:
            want = {"a", "x", "y"}
        if set(seen) != want:
            run.oracle_fail(site, case, f"the function received the keys {sorted(map(str, set(seen)))}, expected {sorted(map(str, want))}", fp + ":keys")
            continue
        try:
            got = leaves(res.to_tensordict() if hasattr(res, "to_tensordict") else res)
            src = leaves(build(kind).to_tensordict())
            bad = [p for p in src if p not in got or not torch.equal(got[p], src[p] + 1)]
        except Exception as e:  # noqa: BLE001
            run.oracle_fail(site, case, f"result unreadable: {e}", fp + ":unreadable")
            continue
        if bad:
            run.oracle_fail(site, case, f"result differs from fn(value) at {bad[:3]}", fp + ":values")
        else:
            run.oracle_ok(site)


def _to_float(d):
    return {k: (_to_float(v) if isinstance(v, dict) else v.float()) for k, v in d.items()}
