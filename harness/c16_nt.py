"""C16 — building / reading non-tensor entries and generating test data.

Ground truth is always an *abstract array*: a numpy object array `A` of payload ids arranged on a batch shape.
A *representation* of `A` (what the library stores) is a spec
    ("sh", id, shape)               NonTensorData(data=payload(id), batch_size=shape)      (only if A is constant)
    ("st", dim, [member specs])     NonTensorStack(*members, stack_dim=dim)
chosen at random by `represent(A, rng)`.  `build(spec)` makes the real object, `read(obj)` turns a real object back
into a spec, `to_sx(spec)` is the protocol form for the Lean driver.
"""
from __future__ import annotations

import copy
import itertools
import warnings

import numpy as np
import torch
from tensordict import TensorDict
from tensordict.tensorclass import NonTensorData, NonTensorStack

warnings.filterwarnings("ignore")


class Obj:
    """an arbitrary python object (identity equality)"""

    def __init__(self, n):
        self.n = n

    def __repr__(self):
        return f"Obj({self.n})"


_OBJS = {i: Obj(i) for i in range(4)}
# pairwise unequal under `==` (note 1 == True == 1.0 in python: no bools / 1.0 here)
POOL = {
    "o0": lambda: "str0", "o1": lambda: 7, "o2": lambda: None, "o3": lambda: [1, "a"], "o4": lambda: {"k": 1},
    "o5": lambda: _OBJS[0], "o6": lambda: 2.5, "o7": lambda: (1, 2), "o8": lambda: "str8", "o9": lambda: _OBJS[1],
}
IDS = list(POOL)


def payload(pid):
    """a fresh python object for the id (equal ids -> equal, not necessarily identical, objects)"""
    return POOL[pid]()


def id_of(obj):
    for pid, mk in POOL.items():
        ref = mk()
        if isinstance(ref, Obj) or isinstance(obj, Obj):
            # arbitrary objects compare by identity for the library; a clone / pickle round trip makes a copy,
            # which is recognised by its content
            if isinstance(ref, Obj) and isinstance(obj, Obj) and ref.n == obj.n:
                return pid
            continue
        if type(ref) is type(obj) and ref == obj:
            return pid
    return "unknown"


# --------------------------------------------------------------------------- specs
def build(spec):
    if spec[0] == "sh":
        return NonTensorData(data=payload(spec[1]), batch_size=list(spec[2]))
    return NonTensorStack(*[build(m) for m in spec[2]], stack_dim=spec[1])


def read(obj):
    if isinstance(obj, NonTensorData):
        return ("sh", id_of(obj.data), [int(x) for x in obj.batch_size])
    if isinstance(obj, NonTensorStack):
        return ("st", int(obj.stack_dim), [read(m) for m in obj.tensordicts])
    return ("other", type(obj).__name__)


def to_sx(spec):
    from common import Raw
    if spec[0] == "sh":
        return Raw(f"(sh {spec[1]} ({' '.join(map(str, spec[2]))}))")
    return Raw("(st " + str(spec[1]) + "".join(" " + to_sx(m).s for m in spec[2]) + ")")


def from_parsed(p):
    """parse_sx output -> spec"""
    if p[0] == "sh":
        return ("sh", p[1], list(p[2]))
    return ("st", p[1], [from_parsed(m) for m in p[2:]])


def spec_shape(spec):
    if spec[0] == "sh":
        return list(spec[2])
    ms = spec[2]
    s = spec_shape(ms[0])
    return s[:spec[1]] + [len(ms)] + s[spec[1]:]


def spec_array(spec):
    """the abstract array a spec stands for"""
    if spec[0] == "sh":
        a = np.empty(spec[2], dtype=object)
        a[...] = spec[1]
        return a
    return np.stack([spec_array(m) for m in spec[2]], axis=spec[1]) if spec[2] else np.empty([0], dtype=object)


def tolist_ids(obj):
    """`tolist()` of a real non-tensor entry with payloads mapped back to ids"""
    def walk(x, depth):
        if depth == 0:
            return id_of(x)
        return [walk(y, depth - 1) for y in x]
    return walk(obj.tolist(), len(obj.batch_size))


# --------------------------------------------------------------------------- generators
def gen_array(rng, shape, n_ids=None, constant=None):
    n = int(np.prod(shape)) if shape else 1
    if constant is None:
        constant = rng.random() < 0.3
    if constant:
        vals = [rng.choice(IDS)] * n
    else:
        ids = rng.sample(IDS, n_ids or rng.randint(2, 4))
        vals = [rng.choice(ids) for _ in range(n)]
    a = np.empty(n, dtype=object)
    for i, v in enumerate(vals):
        a[i] = v
    return a.reshape(shape)


def represent(a, rng, p_shared=0.6):
    """a random representation of the abstract array `a` (shared where it is constant, with probability p_shared)"""
    shape = list(a.shape)
    flat = list(a.reshape(-1))
    if flat and all(v == flat[0] for v in flat) and (not shape or rng.random() < p_shared):
        return ("sh", flat[0], shape)
    if not shape:
        return ("sh", flat[0], [])
    d = rng.randrange(len(shape))
    if shape[d] == 0:
        return ("sh", "o0", shape)
    return ("st", d, [represent(take(a, i, d), rng, p_shared) for i in range(shape[d])])


def take(a, i, d):
    """`a` with position `i` selected along axis `d`, always as an object ndarray (also for rank 0)"""
    sub = np.take(a, i, axis=d)
    if not isinstance(sub, np.ndarray):
        box = np.empty((), dtype=object)
        box[()] = sub
        sub = box
    return sub


def gen_shape(rng, max_rank=3, sizes=(1, 2, 3)):
    return [rng.choice(sizes) for _ in range(rng.randint(0, max_rank))]


def holder(spec_or_obj, shape, device=None):
    """a tensordict of the batch shape holding the entry under 'a' (plus a tensor leaf 'x'); `device=None` (device-less) or
    "cpu" (a tensordict that HAS a device takes other code paths in clone / apply / to)"""
    obj = build(spec_or_obj) if isinstance(spec_or_obj, tuple) else spec_or_obj
    n = int(np.prod(shape)) if shape else 1
    td = TensorDict({"x": torch.arange(n).reshape(shape)}, batch_size=shape, device=device)
    td.set("a", obj)
    return td


def spell(rng, d, n):
    """the dim `d` of `n` possible ones, spelled negatively 30 % of the time (the model / numpy side always gets `d`)"""
    return d - n if n and rng.random() < 0.3 else d


def pick_device(rng):
    return rng.choice([None, "cpu"])


# --------------------------------------------------------------------------- index grammar
def gen_index(rng, shape, advanced=False, allow_none=True, unique_list=False, in_range=False):
    """(python index, protocol items).  ints (incl. negative, sometimes out of range), slices (all signs), None, Ellipsis,
    optionally one list"""
    rank = len(shape)
    n_items = rng.randint(0, rank)
    items, proto = [], []
    dims = list(range(rank))
    use_ell = rng.random() < 0.25
    ell_at = rng.randint(0, n_items) if use_ell else None
    adv_at = rng.randrange(n_items) if advanced and n_items else None
    k = 0
    # which dims the explicit items consume depends on the ellipsis position
    for j in range(n_items):
        if ell_at == j:
            items.append(Ellipsis)
            proto.append("ell")
            k = rank - (n_items - j)
        n = shape[k] if k < rank else 1
        k += 1
        if adv_at == j and n and rng.random() < 0.4:
            # a 1-d boolean mask over this dim (at least one True; sometimes of the wrong length: IndexError)
            ln = n if rng.random() < 0.9 else n + 1
            bits = [rng.random() < 0.6 for _ in range(ln)]
            if not any(bits):
                bits[rng.randrange(ln)] = True
            items.append(torch.tensor(bits))
            proto.append(["mask"] + bits)
            continue
        if adv_at == j:
            ln = rng.randint(1, 3)
            l = [rng.randrange(-n, n) if n else 0 for _ in range(ln)]
            if unique_list and n:
                l = rng.sample(range(n), rng.randint(1, n))
                l = [x - n if rng.random() < 0.3 else x for x in l]
            items.append(l)
            proto.append(["list"] + l)
            continue
        r = rng.random()
        if r < 0.4:
            i = rng.randrange(-n - 1, n + 1) if (rng.random() < 0.15 and not in_range) else (rng.randrange(-n, n) if n else 0)
            items.append(i)
            proto.append(["int", i])
        else:
            def ob():
                return None if rng.random() < 0.4 else rng.randint(-n - 1, n + 1)
            st = rng.choice([None, None, 1, 2, 3])      # torch rejects negative steps: outside the grammar
            a, b = ob(), ob()
            items.append(slice(a, b, st))
            proto.append(["slice", a, b, st])
    if ell_at == n_items:
        items.append(Ellipsis)
        proto.append("ell")
    # sprinkle None
    for _ in range(rng.choice([0, 0, 0, 1, 2]) if allow_none else 0):
        pos = rng.randint(0, len(items))
        items.insert(pos, None)
        proto.insert(pos, None)
    if not items and not allow_none and rng.random() < 0.5:
        items, proto = [Ellipsis], ["ell"]            # both `td[...] = v` and `td[()] = v` address the whole batch
    return (tuple(items) if len(items) != 1 or rng.random() < 0.5 else items[0]), proto


def positions(shape, idx):
    """ORACLE: which source positions an index selects, through a torch index proxy"""
    n = int(np.prod(shape)) if shape else 1
    proxy = torch.arange(n).reshape(shape)
    if isinstance(idx, tuple):
        idx = tuple(torch.tensor(i) if isinstance(i, list) else i for i in idx)
    elif isinstance(idx, list):
        idx = torch.tensor(idx)
    return proxy[idx]
