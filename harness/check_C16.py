"""C16 — non-tensor entries follow batch semantics (DESIGN §6 C16)."""
from __future__ import annotations

import os
import warnings

import numpy as np

from common import BUILD, Infra, Run, err_class, main_guard, parse_sx, sx, time_limit

warnings.filterwarnings("ignore")


def debug_dump(run):
    if os.environ.get("VERIF_DEBUG"):
        import json
        (BUILD / "C16_debug.json").write_text(json.dumps({"oracle": run.oracle_fails, "corr": run.corr_broken}, indent=1, default=str))


def nested(a):
    """numpy object array -> nested python list (rank 0 -> the element)"""
    return a.tolist() if a.shape else a.item()


from c15_guard import guarded  # noqa: E402


def main():
    run = Run("C16")
    run.rule = ("abstract object arrays on batch shapes of rank 0-3 (dims 1-3), each stored in a random representation (shared NonTensorData / "
                "NonTensorStack along a random dim, nested); reads with the index grammar (ints incl. negative / out of range, slices of every sign, "
                "None, Ellipsis, at most one list / tensor / mask index); a case is non-trivial when the representation contains a stack")
    run.trusted += [
        "Model/C16NonTensor.lean: hand transcription of NonTensorData / NonTensorStack / _stack_non_tensor / maybe_to_stack / tolist and of the "
        "lazy-stack index / unbind / permute / squeeze / unsqueeze code restricted to non-tensor members; validated each run on the REPRESENTATION "
        "(which object is shared, which stack dims) against the real objects",
        "spec side (srcCoord / selectAt / nestOf) = our rendering of torch indexing for <=1 advanced index; validated each run against a torch index proxy",
    ]
    run.assumptions += ["payload equality is python `==` (`_check_equal`); the test payloads are pairwise unequal under `==` or identical"]
    run.build_and_audit(["TdVerif.Props.C16"])
    import c15_ast
    c15_ast.check(run, "C16")      # ast-shape obligations for the transcribed functions (shared helper harness/c15_ast.py)
    if run.tier == "thorough" and not run.proof_broken:
        run.leanchecker(["TdVerif.Props.C16"])
    drv = run.driver()
    import c16_streams as S
    guarded(run, "info_stream", S.info_stream, run, drv)
    guarded(run, "getitem_stream", S.getitem_stream, run, drv)
    guarded(run, "structure_stream", S.structure_stream, run, drv)
    guarded(run, "setitem_stream", S.setitem_stream, run, drv)
    guarded(run, "reshape_stream", S.reshape_stream, run, drv)
    guarded(run, "nested_stream", S.nested_stream, run, drv)
    guarded(run, "update_entry_stream", S.update_entry_stream, run, drv)
    guarded(run, "update_at_entry_stream", S.update_at_entry_stream, run)
    guarded(run, "storage_setitem_stream", S.storage_setitem_stream, run, drv)
    import c16_extended as E
    guarded(run, "advanced_reads", E.advanced_reads, run)
    guarded(run, "writes", E.writes, run)
    guarded(run, "combine_and_shape", E.combine_and_shape, run)
    guarded(run, "copy_independence", E.copy_independence, run)
    guarded(run, "storage_writes", E.storage_writes, run)
    debug_dump(run)
    run.finish("proof")


if __name__ == "__main__":
    main_guard(main)
