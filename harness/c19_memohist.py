"""C19 — histories on locked tensordicts between vmap calls (Model/C19MemoHist.lean).

Every request is a real `torch.vmap(f, in_dims=i)(node)`: the object `f` receives IS what `node._add_batch_dim`
returned (memoised or not).  Between the calls: in-place writes, and the rebinding operations permitted under lock
(`memmap_()` of any node, `names`, `batch_size`, unlock/set/lock of a node without lock parents, refused unlocks).

  correspondence  (a) lock ancestors of every node: `_lock_parents_weakrefs` walked transitively vs Model `lanc`
                  (b) for every request, the first request that received the same wrapper object vs Model
                      `identityPattern (run …)`; the driver also reports `wfCheck`, the hypothesis of the theorem
  oracle          the result of every level-1 request equals the per-sample loop on the node's CURRENT content
"""
from __future__ import annotations

import torch

from common import parse_sx, sx, time_limit
import c19_extended as X


def _tree(rng):
    from tensordict import TensorDict
    b = rng.choice([(2, 3), (3, 2), (2, 2, 2)])

    def leaf(base, *feat):
        n = 1
        for s in (*b, *feat):
            n *= s
        return (torch.arange(n, dtype=torch.float32) + base).reshape(*b, *feat)
    d = TensorDict({"y": leaf(3000)}, batch_size=b)
    n_ = TensorDict({"x": leaf(2000, 1), "d": d}, batch_size=b)
    m = TensorDict({"z": leaf(4000)}, batch_size=b)
    root = TensorDict({"a": leaf(0, 2), "b": leaf(1000), "n": n_, "m": m}, batch_size=b)
    nodes = [root, n_, d, m]
    parents = [None, 0, 1, 0]
    how = rng.choice(["root", "root", "root", "root", "n", "none"])
    if how == "root":
        root.lock_()
        kinds = ["own"] * 4
    elif how == "n":
        n_.lock_()
        kinds = ["unlocked", "own", "own", "unlocked"]
    else:
        kinds = ["unlocked"] * 4
    # the nodes must be the objects the root holds
    assert root.get("n") is n_ and n_.get("d") is d
    return {"family": "tree", "how": how, "batch": b, "nodes": nodes, "parents": parents, "kinds": kinds, "lazy": []}


def _lazy(rng):
    from tensordict import LazyStackedTensorDict, TensorDict
    inner = rng.choice([(3,), (2, 2), (2,)])
    nm = rng.choice([2, 2, 3])
    members, nested = [], []
    for k in range(nm):
        def leaf(base, *feat):
            n = 1
            for s in (*inner, *feat):
                n *= s
            return (torch.arange(n, dtype=torch.float32) + base + 100 * k).reshape(*inner, *feat)
        nn_ = TensorDict({"x": leaf(2000, 1)}, batch_size=inner)
        members.append(TensorDict({"a": leaf(0, 2), "b": leaf(1000), "n": nn_}, batch_size=inner))
        nested.append(nn_)
    how = rng.choice(["stack", "stack", "members", "members", "members", "none", "some"])
    if how in ("members",):
        for t in members:
            t.lock_()
    if how == "some":
        members[0].lock_()
    sd = rng.choice([0, len(inner)]) if rng.random() < 0.5 else 0
    S = LazyStackedTensorDict(*members, stack_dim=sd)
    if how == "stack":
        S.lock_()
    nodes = [S] + members + nested
    parents = [None] + [0] * nm + [1 + k for k in range(nm)]
    if how == "stack":
        kinds = ["own"] * len(nodes)
    elif how == "members":
        kinds = ["members"] + ["own"] * (2 * nm)
    elif how == "some":
        kinds = ["unlocked", "own"] + ["unlocked"] * (nm - 1) + ["own"] + ["unlocked"] * (nm - 1)
    else:
        kinds = ["unlocked"] * len(nodes)
    b = tuple(S.batch_size)
    return {"family": "lazy", "how": how, "batch": b, "nodes": nodes, "parents": parents, "kinds": kinds, "lazy": [0], "stack_dim": sd, "nm": nm}


def _lock_ancestors(nodes, j):
    ids = {id(t): k for k, t in enumerate(nodes)}
    seen, todo = {j}, [nodes[j]]
    while todo:
        t = todo.pop()
        for ref in t._lock_parents_weakrefs:
            o = ref()
            if o is not None and id(o) in ids and ids[id(o)] not in seen:
                seen.add(ids[id(o)])
                todo.append(o)
    return sorted(seen)


def _sub(parents, j):
    out = []
    for d in range(len(parents)):
        k = d
        while k is not None:
            if k == j:
                out.append(d)
                break
            k = parents[k]
    return out


def _inplace(rng, node, lazy, locked):
    # share_memory_() of an unlocked node locks it: only the under-lock form is in this domain
    w = rng.choice(["add_", "zero_", "set_", "setitem", "update_", "apply_"] + (["share_memory_"] if locked else []))
    key = [k for k in node.keys() if isinstance(node.get(k), torch.Tensor) or (lazy and k in ("a", "b"))][0]
    if w == "add_":
        node.apply_(lambda x: x + 1.5)
    elif w == "zero_":
        node.zero_()
    elif w == "set_":
        node.set_(key, torch.full(tuple(node.get(key).shape), 7.0))
    elif w == "setitem":
        if node.batch_size[0] > 1:
            node[0] = node[1].apply(lambda x: x * 3)
    elif w == "update_":
        node.update_({key: node.get(key) * 0 + 11.0})
    elif w == "apply_":
        node.apply_(lambda x: x * 2 - 1)
    elif w == "share_memory_":
        try:
            node.share_memory_()
        except RuntimeError:      # refused on a locked root ("cannot unlock … part of a locked graph") / memmap-ed content
            pass
    return w


def run_stream(run, drv, rng, quick):
    from torch._C._functorch import maybe_current_level
    n_cases = 80 if quick else 800
    for it in range(n_cases):
        topo = (_lazy if rng.random() < 0.45 else _tree)(rng)
        nodes, parents, kinds = topo["nodes"], topo["parents"], topo["kinds"]
        N = len(nodes)
        has_lock_parent = [parents[j] is not None and kinds[parents[j]] == "own" for j in range(N)]
        events, impl_objs, keep = [], [], []
        memmapped = set()
        named = set()       # nodes that carry dim names (a names assignment reaches every nested node)
        skipped = None
        label = {"family": topo["family"], "locked_how": topo["how"], "batch": list(topo["batch"]), "kinds": kinds}
        focus = 0 if rng.random() < 0.6 else rng.randrange(N)
        focus_i = rng.randrange(nodes[focus].batch_dims)
        for step in range(rng.randint(4, 10)):
            kind = rng.choice(["req", "req", "req", "req", "inplace", "memmap_", "names", "batch_size", "unlock"])
            j = focus if kind == "req" and rng.random() < 0.75 else rng.randrange(N)
            node = nodes[j]
            r = node.batch_dims
            is_lazy = j in topo["lazy"]
            try:
                with time_limit(30):
                    if kind == "req":
                        i = focus_i if j == focus and rng.random() < 0.75 else rng.randrange(r)
                        depth = rng.choice([1, 1, 1, 1, 2])
                        seen = []
                        derived_ok = not (is_lazy and i == topo.get("stack_dim"))
                        body = (lambda t: t.apply(lambda x: x * 2 + 1)) if derived_ok else (lambda t: t.get("a") * 2 + 1)
                        def f(t, seen=seen, body=body):
                            seen.append((t, maybe_current_level()))
                            return body(t)
                        if depth == 1:
                            got = torch.vmap(f, in_dims=i)(node)
                            ref = X.loop(body, i, 0, (node,))
                            run.case(("memo_hist.value", it, step), nontrivial=True)
                            if X.same(got, ref):
                                run.oracle_ok("memo_hist")
                            else:
                                run.oracle_fail("memo_hist", dict(label, history=events + [["req", j, i, 1]]),
                                                "vmap on a tensordict with a lock/rebinding history differs from the per-sample loop on its current content (stale memoised wrapper?)",
                                                fingerprint="memo_hist_value")
                        else:
                            def outer(z, f=f, i=i, node=node):
                                torch.vmap(f, in_dims=i)(node)
                                return z
                            torch.vmap(outer)(torch.zeros(2))
                        impl_objs.append(seen[0][0])
                        events.append(["req", j, i, seen[0][1]])
                    elif kind == "inplace":
                        _inplace(rng, node, is_lazy, kinds[j] == "own")
                        events.append(["api", "inplace", j])
                    elif kind == "memmap_":
                        # memmap_() of an unlocked node locks it (another lock graph): only the under-lock form is in this domain
                        if kinds[j] != "own" or any(d in memmapped for d in _sub(parents, j)) or topo["family"] == "lazy" and j == 0:
                            continue
                        node.memmap_()
                        memmapped.update(_sub(parents, j))
                        events.append(["api", "memmap_", j])
                        _inplace(rng, node, is_lazy, kinds[j] == "own")
                        events.append(["api", "inplace", j])
                    elif kind == "names":
                        if topo["family"] == "lazy":
                            continue
                        node.names = [rng.choice(["u", "v", "w", "p", "q"]) + str(d) for d in range(r)]
                        events.append(["api", "names", j])
                        named.update(_sub(parents, j))
                    elif kind == "batch_size":
                        if topo["family"] == "lazy":
                            continue
                        bs = node.batch_size
                        has = bool(node._has_names())
                        kept = any(nm is not None for nm in node.names[:r - 1]) if has else False
                        if has and not kept:
                            continue        # names present but all None after the cut: the setter takes the `names = None` path (direct children only) - outside the modelled events
                        if r >= 2 and rng.random() < 0.7:
                            # a real change and back: two rebindings of the node's metadata; on a node that carries dim names the setter
                            # re-assigns the (cut / padded) names, which walks down the nested nodes like a names assignment
                            ev = "batch_size_named" if has else "batch_size"
                            node.batch_size = bs[:-1]
                            node.batch_size = bs
                            events.append(["api", ev, j])
                            events.append(["api", ev, j])
                        else:
                            node.batch_size = bs            # assigning the current value is a no-op
                            events.append(["api", "batch_size_same", j])
                    elif kind == "unlock":
                        if kinds[j] != "own":
                            continue
                        if has_lock_parent[j]:
                            try:
                                node.unlock_()
                                raise AssertionError("unlock_() of a node with lock parents was not refused")
                            except RuntimeError:
                                pass
                            events.append(["api", "refused_unlock", j])
                        else:
                            node.unlock_()
                            key = [k for k in node.keys() if isinstance(node.get(k), torch.Tensor)]
                            if not key:
                                node.lock_()
                                skipped = "no tensor entry"
                                break
                            node.set(key[0], node.get(key[0]) * 0 + 5.0 + step)
                            node.lock_()
                            events.append(["api", "unlock_set_lock", j])
            except TimeoutError:
                raise
            except AssertionError:
                raise
            except Exception as e:
                skipped = f"{kind}@{j}: {type(e).__name__}: {str(e)[:80]}"
                break
        if skipped is not None:
            run.count("memo_hist.skipped", skipped[:120])
            continue      # an operation failed half-way: the state of the graph is not what the event list says
        # (a) lock ancestors, (b) identity pattern
        ans = parse_sx(drv.ask(sx("c19.memo_hist", [0 if p is None else p + 1 for p in parents], kinds, events)))
        wf, lanc_model, pattern_model = ans[0], [sorted(l) for l in ans[1]], list(ans[2])
        lanc_impl = [_lock_ancestors(nodes, j) for j in range(N)]
        pattern_impl = [[k for k, p in enumerate(impl_objs) if p is o][0] for o in impl_objs]
        nreq = len(impl_objs)
        run.case(("memo_hist", it, str(label), str(events)), nontrivial=nreq > 1 and len(events) > nreq and "own" in kinds)
        run.count("memo_hist.family", topo["family"] + "/" + topo["how"])
        run.count("memo_hist.hit", any(p != k for k, p in enumerate(pattern_impl)))
        for e in events:
            run.count("memo_hist.event", e[0] if e[0] == "req" else e[1])
        run.corr("memo_hist(wf)", label, "wf", wf)
        run.corr("memo_hist(lock ancestors)", label, lanc_impl, lanc_model)
        run.corr("memo_hist(wrapper identity)", dict(label, history=events), pattern_impl, pattern_model)
        keep.append(impl_objs)
