"""Writes /verif/MANIFEST.json from the table below (kept in one place so it is always valid)."""
import json
from pathlib import Path

V = Path(__file__).resolve().parent.parent
ALL = [f"C{i:02d}" for i in range(1, 21)]

# property -> (technique, level text, level note, design ref)
CHECKS = {
 "C18": ("Lean 4 theorems over a model regenerated from source (py2lean translation of _slice_indices) and hand models of the C++/Python key helpers, tied by an exhaustive correspondence run against the C++ recompiled from the working tree; eager-vs-compiled programs as differential support",
         "proof: `_slice_indices` (translated from the current source on every run) is proved equal to CPython's slice.indices for all start/stop/step/len; the Python fallbacks of the key helpers, `_parse_batch_size` and the two `_values_list/_items_list` branches are proved equal to their eager/native twins for all inputs. Partial for whole programs: dynamo/inductor are runtime, so compiled==eager on programs is differential evidence.",
         "Trusted: Lean kernel (axioms propext/Classical.choice/Quot.sound only, audited each run); py2lean translator and hand models Model/Key.lean, Model/Compile.lean, validated each run against the real Python and the freshly compiled C++ on the property's grids; SliceSpec = transcription of CPython, validated against slice.indices. Not modelled: dynamo tracing, inductor.",
         "DESIGN.md §6 C18"),
 "C13": ("Lean 4 proof over an executable model of _set_tensor_dict/_to_module/_from_module/__enter__/__exit__ (heap of modules with sharing, programs of nested with-blocks with raise), tied to the source by ordered-state correspondence on random module graphs and programs; identity-snapshot and functional_call oracles on real layers",
         "proof: 14 kernel-checked theorems — swap involution and restoration for all module graphs (shared submodules, tied tensors), restoration after any nesting of with-blocks with an exception at any point, from_module exactness — about a hand-written model that is compared with the library on every run (ordered dict contents after every swap / with-program). Partial: the model has identities, not values: inplace=True values, use_state_dict, custom __setattr__, lazy parameters, TensorDictParams/TensorDictModule wrappers and vmap are covered by the oracle run on real layers only.",
         "Trusted: Lean kernel (standard axioms, audited each run), the hand transcription Model/C13Module.lean (validated by 3 correspondence streams, ~3600 cases per quick run), torch's Module registration and functional_call as the oracle, the harness. Two recorded findings (known_findings.json: shared submodule given two different sub-tensordicts; inplace with tied tensors); four defects repaired by fix: commits.",
         "DESIGN.md §6 C13"),
}

REASON_PENDING = "check not built yet in this round (build order in DESIGN.md §10); this is a statement about progress, not that the technique cannot apply"


def main():
    checks = []
    for p in ALL:
        if p not in CHECKS:
            continue
        tech, text, note, ref = CHECKS[p]
        checks.append({
            "property_id": p,
            "quick_cmd": f"./check {p} --tier quick",
            "thorough_cmd": f"./check {p} --tier thorough",
            "evidence_file": f"evidence/{p}.json",
            "replay_cmd_template": f"./check {p} --replay {{path}}",
            "engine": "lean4-model+correspondence",
            "level_claimed": {"category": "proof", "text": text, "design_ref": ref},
            "level_note": note,
            "technique": tech,
        })
    m = {
        "version": 1,
        "setup_cmd": "cd /verif && ./setup.sh",
        "hooks": {
            "guard": "TENSORDICT_VERIF",
            "enable": "export TENSORDICT_VERIF=1 (set by ./check; /repo is an editable install, nothing to rebuild except csrc which the checks recompile to /verif/.build)",
            "baseline_off_cmd": "cd /repo && env -u TENSORDICT_VERIF /venv/bin/python -m pytest -ra -q -p no:cacheprovider --timeout=900 --continue-on-collection-errors",
            "source_commits": [],
            "add_only": True,
        },
        "engines": [{
            "name": "lean4-model+correspondence", "path": "lean/ + harness/",
            "serves_properties": sorted(CHECKS),
            "kind_free_text": "Lean 4 executable models with kernel-checked theorems (lake build + #print axioms audit each run); parts regenerated from /repo by harness/gen_tables.py + py2lean.py; hand models tied by a differential correspondence check through a compiled line-protocol driver; failing-input search on the real code when a proof or the correspondence breaks",
        }],
        "checks": checks,
        "not_applicable": [{"property_id": p, "reason": REASON_PENDING} for p in ALL if p not in CHECKS],
        "notes": "Every check exits 0 / 1 (VIOLATION line) / 2 (infrastructure). Known genuine defects are in known_findings.json; repaired ones are fix: commits in /repo.",
    }
    (V / "MANIFEST.json").write_text(json.dumps(m, indent=1))


if __name__ == "__main__":
    main()
