"""Writes /verif/MANIFEST.json from the table below (kept in one place so it is always valid)."""
import json
from pathlib import Path

V = Path(__file__).resolve().parent.parent
ALL = [f"C{i:02d}" for i in range(1, 21)]

# property -> (technique, level text, level note, design ref)
CHECKS = {
 "C18": ("Lean 4 theorems over a model regenerated from source (py2lean translation of _slice_indices) and hand models of the C++/Python key helpers, tied by an exhaustive correspondence run against the C++ recompiled from the working tree; eager-vs-compiled programs as differential support",
         "proof: `_slice_indices` (translated from the current source on every run) is proved equal to CPython's slice.indices for all start/stop/step/len; the Python fallbacks of the key helpers, `_parse_batch_size` and the two `_values_list/_items_list` branches are proved equal to their eager/native twins for all inputs. Partial for whole programs: dynamo/inductor are runtime, so compiled==eager on programs is differential evidence.",
         "Trusted: Lean kernel (axioms propext/Classical.choice/Quot.sound only, audited each run); py2lean translator and hand models Model/Key.lean, Model/Compile.lean, validated each run against the real Python and the freshly compiled C++ on the property's grids; SliceSpec = transcription of CPython, validated against slice.indices. Not modelled: dynamo tracing, inductor.",
         "DESIGN.md §6 C18"),
 "C13": ("Lean 4 proof over an executable model of _set_tensor_dict/_to_module/_from_module/__enter__/__exit__ (heap of modules with sharing, programs of nested with-blocks with raise), tied to the source by ordered-state correspondence on random module graphs and programs; identity-snapshot and functional_call oracles on real layers",
         "proof: 14 kernel-checked theorems — swap involution and restoration for all module graphs (shared submodules, tied tensors), restoration after any nesting of with-blocks with an exception at any point, from_module exactness — about a hand-written model that is compared with the library on every run (ordered dict contents after every swap / with-program). Partial: the model has identities, not values: inplace=True values, use_state_dict, custom __setattr__, lazy parameters, TensorDictParams/TensorDictModule wrappers and vmap are covered by the oracle run on real layers only.",
         "Trusted: Lean kernel (standard axioms, audited each run), the hand transcription Model/C13Module.lean (validated by 3 correspondence streams, ~3600 cases per quick run), torch's Module registration and functional_call as the oracle, the harness. Two recorded findings (known_findings.json: shared submodule given two different sub-tensordicts; inplace with tied tensors); four defects repaired by fix: commits.",
         "DESIGN.md §6 C13"),
 "C02": ("Lean 4 theorems over a functional-tensor spec of torch (coordinate maps) and a hand transcription of the tensordict shape ops (batch/name arithmetic + the per-leaf torch call + the _fast_apply tree skeleton), tied by a differential correspondence through the compiled driver on provenance (arange) tensordicts, plus a torch-proxy oracle on the real code",
         "proof: for permute/transpose/squeeze/unsqueeze/flatten/unflatten/view/reshape/expand/unbind/split the per-leaf torch call made by the code is proved to be the op on the batch dims with feature dims untouched (all ranks/sizes/features); batch-size = torch shape and rejects-iff-torch proved for unsqueeze/squeeze/transpose/flatten; names travel, nested padding, key preservation at all depths, split tiling proved. Partial: the remaining batch_eq_torch statements and repeat/gather/stack/cat/masked_select rest on the correspondence + oracle only.",
         "Trusted: Lean kernel; Model/C02Tensor.lean (our rendering of torch, validated against torch 2.14 each run); Model/C02Td.lean (hand transcription of the repaired code, validated each run against the working tree). Leaves' values are computed by torch. Lazy stacks/tensorclass/out= not modelled. One known finding (oversize split lists accepted, relied on by the repo's own test); nine fix: commits.",
         "DESIGN.md §6 C02"),
 "C04": ("Lean 4 refinement proof: an executable transcription of TensorDict's mapping code (nested insertion-ordered dict tree; _set_tuple/del_/pop/rename_key_/setdefault/clear/_select/_exclude/update/flatten/unflatten/split_keys/key views) against a plain nested-dict replay; C++ key unraveller proved canonical on every nested-tuple spelling; tied to the source by a per-step correspondence run (state, outcome, 16 views, membership/get) and a Python nested-dict oracle on TensorDict, lazy stacks and tensorclass-held tensordicts",
         "proof (partial): spelling canonicalisation, nested-dict laws, refinement of get/set/del/membership, pop, rename_key_ (repaired), setdefault, clear and of arbitrary histories of these (run_refines_partial), view membership for all flag combinations are kernel-checked for all inputs. update/select/exclude/flatten/unflatten/split_keys are modelled and differentially checked only.",
         "Trusted: Lean kernel; hand transcription Model/C04Tree.lean + Model/Key.lean validated each run against the code (~33k comparisons quick); c04_ops.py oracle. Outside the model: keys through NonTensorData (known finding), locking, lazy/persistent containers (oracle only), multi-character separators. View order/duplicates by correspondence only. Two known findings; six fix: commits.",
         "DESIGN.md §6 C04"),
 "C09": ("Lean 4 theorems (unbounded lists, abstract leaf type and torch op, List.Perm for insertion order) over a hand transcription of _items_list/_values_list, the fused binary/ternary/unary methods, comparison operators, expand_as_right/_maybe_broadcast_other and _cast_reduction; tied each run by a correspondence run through the compiled Lean driver on operands with permuted insertion and nesting order, plus a per-key torch oracle on regular / lazy / tensorclass containers; method tables re-read from the source by ast + reflection",
         "proof: for all key lists, insertion orders, leaf types and operations, binary / in-place / ternary / unary / comparison results hold under every key the torch op of the entries stored under that key, are invariant under any permutation of either operand, raise KeyError exactly when the key sets differ without a default and follow the documented defaults; tensor operands are indexed by the leading (batch) coordinates only; every reduction front-end yields torch's shape rule on the batch dims with names and feature dims preserved. Partial for lazy stacks / tensorclass containers (oracle-tested; two recorded findings on lazy stacks) and for leaf values (computed by torch on both sides).",
         "Trusted: Lean kernel; Model/C09KV.lean, Model/C09Shape.lean hand transcriptions validated each run (~7k quick comparisons, no tolerated difference); spec side (expand coordinate map, torch reduction shape) is our rendering of torch validated on the enumerated grid. 13 fix: commits are prerequisites (the theorems describe the repaired code).",
         "DESIGN.md §6 C09"),
 "C14": ("Lean 4 proof over an executable dataflow model of TensorDictModule/TensorDictSequential (symbolic values identify dataflow), incl. _compute_in_and_out_keys, select_subsequence, the select_out_keys hook and the probabilistic decision logic; tied to the source by exhaustive-subset correspondence on random module graphs whose modules compute injective integer hashes",
         "proof: frame (only out_keys written, '_' never written), in_keys sufficient and determining, last-writer out_keys, backward selection sound on all sequences, forward selection sound under single assignment with a proved counter-example otherwise (recorded finding), select_out_keys hook — kernel-checked for all sequences/environments. Partial: sampling/log-prob values of probabilistic modules are torch's (differential with deterministic distributions).",
         "Trusted: Lean kernel; hand models Model/C14Seq.lean, Model/C14Prob.lean validated against the library each run; torch distributions. Known findings: select_subsequence(in_keys) on non-single-assignment sequences; tensordict_out with nested out_keys copies siblings. Two fix: commits.",
         "DESIGN.md §6 C14"),
}

REASON_PENDING = "check not built yet in this round (build order in DESIGN.md §10); this is a statement about progress, not that the technique cannot apply"


def main():
    checks = []
    for p in ALL:
        if p not in CHECKS:
            continue
        tech, text, note, ref = CHECKS[p]
        checks.append({
            "property_id": p,
            "quick_cmd": f"./check {p} --tier quick",
            "thorough_cmd": f"./check {p} --tier thorough",
            "evidence_file": f"evidence/{p}.json",
            "replay_cmd_template": f"./check {p} --replay {{path}}",
            "engine": "lean4-model+correspondence",
            "level_claimed": {"category": "proof", "text": text, "design_ref": ref},
            "level_note": note,
            "technique": tech,
        })
    m = {
        "version": 1,
        "setup_cmd": "cd /verif && ./setup.sh",
        "hooks": {
            "guard": "TENSORDICT_VERIF",
            "enable": "export TENSORDICT_VERIF=1 (set by ./check; /repo is an editable install, nothing to rebuild except csrc which the checks recompile to /verif/.build)",
            "baseline_off_cmd": "cd /repo && env -u TENSORDICT_VERIF /venv/bin/python -m pytest -ra -q -p no:cacheprovider --timeout=900 --continue-on-collection-errors",
            "source_commits": [],
            "add_only": True,
        },
        "engines": [{
            "name": "lean4-model+correspondence", "path": "lean/ + harness/",
            "serves_properties": sorted(CHECKS),
            "kind_free_text": "Lean 4 executable models with kernel-checked theorems (lake build + #print axioms audit each run); parts regenerated from /repo by harness/gen_tables.py + py2lean.py; hand models tied by a differential correspondence check through a compiled line-protocol driver; failing-input search on the real code when a proof or the correspondence breaks",
        }],
        "checks": checks,
        "not_applicable": [{"property_id": p, "reason": REASON_PENDING} for p in ALL if p not in CHECKS],
        "notes": "Every check exits 0 / 1 (VIOLATION line) / 2 (infrastructure). Known genuine defects are in known_findings.json; repaired ones are fix: commits in /repo.",
    }
    (V / "MANIFEST.json").write_text(json.dumps(m, indent=1))


if __name__ == "__main__":
    main()
