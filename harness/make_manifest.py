"""Writes /verif/MANIFEST.json from the table below (kept in one place so it is always valid)."""
import json
from pathlib import Path

V = Path(__file__).resolve().parent.parent
ALL = [f"C{i:02d}" for i in range(1, 21)]

# per-property texts live in harness/manifest_texts/Cxx.json (technique, text, note, ref); a property is claimed iff its file exists
CHECKS = {}
for _f in sorted((V / "harness" / "manifest_texts").glob("C*.json")):
    _d = json.loads(_f.read_text())
    CHECKS[_f.stem] = (_d["technique"], _d["text"], _d["note"], _d["ref"])

REASON_PENDING = "check not built yet in this round (build order in DESIGN.md §10); this is a statement about progress, not that the technique cannot apply"


def main():
    checks = []
    for p in ALL:
        if p not in CHECKS:
            continue
        tech, text, note, ref = CHECKS[p]
        checks.append({
            "property_id": p,
            "quick_cmd": f"./check {p} --tier quick",
            "thorough_cmd": f"./check {p} --tier thorough",
            "evidence_file": f"evidence/{p}.json",
            "replay_cmd_template": f"./check {p} --replay {{path}}",
            "engine": "lean4-model+correspondence",
            "level_claimed": {"category": "proof", "text": text, "design_ref": ref},
            "level_note": note,
            "technique": tech,
        })
    m = {
        "version": 1,
        "setup_cmd": "cd /verif && ./setup.sh",
        "hooks": {
            "guard": "TENSORDICT_VERIF",
            "enable": "export TENSORDICT_VERIF=1 (set by ./check; /repo is an editable install, nothing to rebuild except csrc which the checks recompile to /verif/.build)",
            "baseline_off_cmd": "cd /repo && env -u TENSORDICT_VERIF /venv/bin/python -m pytest -ra -q -p no:cacheprovider --timeout=900 --continue-on-collection-errors",
            "source_commits": [],
            "add_only": True,
        },
        "engines": [{
            "name": "lean4-model+correspondence", "path": "lean/ + harness/",
            "serves_properties": sorted(CHECKS),
            "kind_free_text": "Lean 4 executable models with kernel-checked theorems (lake build + #print axioms audit each run); parts regenerated from /repo by harness/gen_tables.py + py2lean.py; hand models tied by a differential correspondence check through a compiled line-protocol driver; failing-input search on the real code when a proof or the correspondence breaks",
        }],
        "checks": checks,
        "not_applicable": [{"property_id": p, "reason": REASON_PENDING} for p in ALL if p not in CHECKS],
        "notes": "Every check exits 0 / 1 (VIOLATION line) / 2 (infrastructure). Known genuine defects are in known_findings.json; repaired ones are fix: commits in /repo.",
    }
    (V / "MANIFEST.json").write_text(json.dumps(m, indent=1))


if __name__ == "__main__":
    main()
