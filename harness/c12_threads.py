"""C12 stream C: thread pools under a deterministic executor that completes the submitted tasks in a
chosen permutation (every permutation for <= 5 tasks), and under the real ThreadPoolExecutor.

  apply   : `_fast_apply(fn, num_threads=k)` (= `_multithread_apply_nest`) vs the Lean pool model
            (submission order, rebuilt tree) and vs the single-threaded `_fast_apply(num_threads=0)`
  memmap  : `memmap / memmap_ / memmap_like (num_threads=k)` vs `num_threads=0`: directory listing, file
            bytes, parsed meta.json, loaded content
  consolidate : `consolidate(num_threads=k)` vs `num_threads=0`: storage bytes, content
and the hypothesis of `writers_order_independent`: the tasks' targets are pairwise distinct.
"""
from __future__ import annotations

import concurrent.futures
import functools
import hashlib
import itertools
import json
import shutil
import unittest.mock as mock
import warnings
from concurrent.futures import Future
from pathlib import Path

import torch

from common import BUILD, Infra, parse_sx, sx, time_limit
from c12_fns import ask_batched, leaf_fn, named_leaf_fn

_real_wait = concurrent.futures.wait


class PFuture(Future):
    def result(self, timeout=None):
        if not self.done():
            self._owner.flush([self])
        return super().result(timeout)

    def exception(self, timeout=None):
        if not self.done():
            self._owner.flush([self])
        return super().exception(timeout)


class PermExecutor:
    """submit() only queues; the queued tasks run — in the chosen permutation — when somebody first
    waits for one of them (future.result(), wait(), shutdown / context exit)."""

    def __init__(self, order=None, rng=None, selective=False):
        self.order = order
        self.rng = rng
        # selective: waiting for some futures runs *only their* tasks (the most adversarial legal schedule: every
        # other task is still pending when the wait returns); shutdown / context exit runs what is left
        self.selective = selective
        self.pending = []
        self.submitted = []     # (fn, args, kwargs) in submission order
        self.ran = []           # submission indices in execution order
        self.used_given_order = False

    def submit(self, fn, *args, **kwargs):
        f = PFuture()
        f._owner = self
        self.pending.append((len(self.submitted), f, fn, args, kwargs))
        self.submitted.append((fn, args, kwargs))
        return f

    def flush(self, only=None):
        if only is not None and self.selective:
            wanted = {id(f) for f in only}
            batch = [t for t in self.pending if id(t[1]) in wanted]
            self.pending = [t for t in self.pending if id(t[1]) not in wanted]
            order = [i for i in (self.order or []) if i < len(self.submitted)]
            rank = {idx: r for r, idx in enumerate(order)}
            batch.sort(key=lambda t: rank.get(t[0], len(rank) + t[0]))
            for idx, f, fn, a, kw in batch:
                if not f.set_running_or_notify_cancel():
                    continue
                self.ran.append(idx)
                try:
                    f.set_result(fn(*a, **kw))
                except BaseException as e:  # noqa: BLE001
                    f.set_exception(e)
            return
        while self.pending:
            batch, self.pending = self.pending, []
            k = len(batch)
            if self.order is not None and not self.used_given_order and len(self.order) == k:
                perm = list(self.order)
                self.used_given_order = True
            else:
                perm = list(range(k))
                if self.rng is not None:
                    self.rng.shuffle(perm)
            for i in perm:
                idx, f, fn, a, kw = batch[i]
                if not f.set_running_or_notify_cancel():
                    continue
                self.ran.append(idx)
                try:
                    f.set_result(fn(*a, **kw))
                except BaseException as e:  # noqa: BLE001
                    f.set_exception(e)

    def shutdown(self, wait=True, **kw):
        self.flush()

    def __enter__(self):
        return self

    def __exit__(self, *a):
        self.flush()
        return False


def pwait(fs, timeout=None, return_when=concurrent.futures.ALL_COMPLETED):
    fs = list(fs)
    owners = {}
    for f in fs:
        o = getattr(f, "_owner", None)
        if o is not None:
            owners.setdefault(id(o), (o, []))[1].append(f)
    for o, mine in owners.values():
        o.flush(mine)
    return _real_wait(fs, timeout=timeout, return_when=return_when)


class patched_pool:
    """context manager: tensordict's ThreadPoolExecutor / wait replaced by the permuting executor"""

    def __init__(self, order=None, rng=None, selective=False):
        self.order, self.rng, self.selective = order, rng, selective
        self.executors = []

    def __enter__(self):
        import tensordict._td as TD
        import tensordict.base as B

        def factory(*a, **k):
            ex = PermExecutor(self.order, self.rng, self.selective)
            self.executors.append(ex)
            return ex

        self.ps = [mock.patch.object(B, "ThreadPoolExecutor", factory), mock.patch.object(B, "wait", pwait),
                   mock.patch.object(TD, "wait", pwait), mock.patch.object(concurrent.futures, "wait", pwait)]
        for p in self.ps:
            p.start()
        return self

    def __exit__(self, *a):
        for p in reversed(self.ps):
            p.stop()
        return False


# ----------------------------------------------------------------------------- trees
def gen_tree(rng, max_leaves, depth=0):
    """nested spec: list of (key, leaf-id | sub-list); leaf ids are assigned later in DFS order"""
    keys = list("abcdefg")
    rng.shuffle(keys)
    n_items = rng.randint(1, 4) if depth == 0 else rng.randint(0, 3)
    out = []
    for k in keys[:n_items]:
        if depth < 2 and rng.random() < 0.3:
            out.append((k, gen_tree(rng, max_leaves, depth + 1)))
        else:
            out.append((k, None))
    return out


def number_tree(spec, counter=None):
    counter = counter if counter is not None else [0]
    out = []
    for k, v in spec:
        if v is None:
            out.append((k, counter[0]))
            counter[0] += 1
        else:
            out.append((k, number_tree(v, counter)))
    return out


def count_leaves(t):
    return sum(1 if not isinstance(v, list) else count_leaves(v) for _, v in t)


def tree_sx(t):
    return "(n" + "".join(f" ({k} " + (f"(l {v})" if not isinstance(v, list) else tree_sx(v)) + ")" for k, v in t) + ")"


def tree_td(t):
    from tensordict import TensorDict
    return TensorDict({k: (torch.full((2, 1), v) if not isinstance(v, list) else tree_td(v)) for k, v in t}, batch_size=[2])


def canon_td_tree(td):
    """(n (key (l id)) (key (n …)) …) as nested python lists, keys in the tensordict's own order"""
    from tensordict import TensorDictBase
    if td is None:
        return "none"
    out = ["n"]
    for k, v in td.items():
        if isinstance(v, TensorDictBase):
            out.append([k, canon_td_tree(v)])
        else:
            vals = v.reshape(-1)
            out.append([k, ["l", int(vals[0]) % 100 if bool((vals == vals[0]).all()) else -1]])
    return out


def unordered(t):
    if not isinstance(t, list) or not t or t[0] != "n":
        return t
    return ["n"] + sorted(([k, unordered(v)] for k, v in t[1:]), key=lambda kv: kv[0])


def meta_of(td):
    from tensordict import TensorDictBase
    if td is None:
        return None
    return [list(td.batch_size), str(td.device), td.is_locked, list(td.names) if td._has_names() else None,
            sorted((k, meta_of(v)) for k, v in td.items() if isinstance(v, TensorDictBase))]


def run_apply(run, drv):
    rng = run.rng
    quick = run.tier == "quick"
    trees = []
    want = 26 if quick else 160
    fixed = [
        [("a", None)],
        [("a", None), ("n", [("x", None), ("y", None)]), ("b", None)],
        [("n", [("m", [("z", None)]), ("x", None)]), ("e", [])],
        [("a", None), ("b", None), ("c", None), ("d", None), ("e", None)],
    ]
    for f in fixed:
        trees.append(number_tree(f))
    while len(trees) < want:
        t = number_tree(gen_tree(rng, 5))
        if 1 <= count_leaves(t) <= 5:
            trees.append(t)
    big = []
    while len(big) < (6 if quick else 40):
        t = number_tree(gen_tree(rng, 9))
        if count_leaves(t) > 5:
            big.append(t)
    reqs, metas = [], []
    for ti, t in enumerate(trees + big):
        k = count_leaves(t)
        if k <= 5:
            orders = list(itertools.permutations(range(k)))
            if quick and k == 5 and ti >= 8:
                orders = rng.sample(orders, 30)
        else:
            orders = []
            for _ in range(8):
                o = list(range(k))
                rng.shuffle(o)
                orders.append(tuple(o))
        for fe in (False, True, None):
            none_vals = sorted(rng.sample(range(k), rng.randint(0, k))) if rng.random() < 0.7 else []
            for o in orders:
                reqs.append(sx("c12.pool", fe, __import__("common").Raw(tree_sx(t)), list(o), none_vals))
                metas.append((t, k, fe, none_vals, o))
    answers = ask_batched(drv, reqs, 40)
    seq_cache = {}
    for (t, k, fe, none_vals, o), a in zip(metas, answers):
        m = parse_sx(a)
        td = tree_td(t)
        log = []
        fn = functools.partial(leaf_fn, none_vals=tuple(none_vals), log=log)
        with patched_pool(order=list(o)) as pp:
            try:
                with time_limit(120):
                    res = td._fast_apply(fn, num_threads=2, filter_empty=fe)
                impl_err = None
            except TimeoutError as e:
                raise Infra(f"implementation call timed out: {e}")
            except Exception as e:  # noqa: BLE001
                res, impl_err = None, f"{type(e).__name__}: {e}"
        ex = pp.executors[0] if pp.executors else None
        submitted = [int(args[0].reshape(-1)[0]) for (_, args, _) in ex.submitted] if ex else []
        if ex is not None and k == len(o) and ex.ran != list(o):
            raise Infra(f"permuting executor did not realise the requested order {o}: ran {ex.ran}")
        key = ("apply", tree_sx(t), fe, tuple(none_vals), o)
        run.case(key, nontrivial=k > 1)
        run.count("apply.leaves", k)
        run.count("apply.filter_empty", fe)
        impl = ["err", impl_err] if impl_err else ["ok", submitted, canon_td_tree(res)]
        model = ["ok", list(m[1]), m[2]] if m[0] == "ok" else ["err"]
        run.corr("apply(pool model)", [tree_sx(t), fe, none_vals, list(o)], impl, model)
        # oracle: the single-threaded form
        ck = (tree_sx(t), fe, tuple(none_vals))
        if ck not in seq_cache:
            seq = td._fast_apply(functools.partial(leaf_fn, none_vals=tuple(none_vals)), num_threads=0, filter_empty=fe)
            seq_cache[ck] = (unordered(canon_td_tree(seq)), meta_of(seq))
        if impl_err or (unordered(canon_td_tree(res)), meta_of(res)) != seq_cache[ck]:
            run.oracle_fail("apply_threads_eq_sequential", [tree_sx(t), fe, none_vals, list(o)],
                            f"multithreaded apply gave {impl_err or canon_td_tree(res)} / {meta_of(res)}, single-threaded gives {seq_cache[ck]}",
                            f"apply:fe={fe}")
        else:
            run.oracle_ok("apply_threads_eq_sequential")
    run.sample({"stream": "apply", "case": reqs[len(reqs) // 2], "model": answers[len(reqs) // 2]})
    # real executor, named / nested_keys / inplace variants: oracle only
    for it in range(80 if quick else 600):
        t = number_tree(gen_tree(rng, 9))
        k = count_leaves(t)
        if k == 0:
            continue
        none_vals = tuple(sorted(rng.sample(range(k), rng.randint(0, k)))) if rng.random() < 0.6 else ()
        fe = rng.choice([False, True, None])
        nt = rng.choice([1, 2, 4, 8])
        variant = rng.choice(["plain", "named", "nested_keys", "inplace", "others", "others-default", "out", "call_on_nested"])
        shuffled = rng.random() < 0.5     # permuting executor with a random completion order instead of the real pool
        delays = {v: rng.choice([0, 0, 0.001, 0.003]) for v in range(k)}
        run.case(("apply-real", tree_sx(t), none_vals, fe, nt, variant))
        run.count("apply.real_variant", variant)
        try:
            with time_limit(180):
                if variant in ("named", "nested_keys"):
                    l1, l2 = [], []
                    kw = dict(named=True, nested_keys=variant == "nested_keys", filter_empty=fe)
                    a = tree_td(t)._fast_apply(functools.partial(named_leaf_fn, none_vals=none_vals, log=l1), num_threads=nt, **kw)
                    b = tree_td(t)._fast_apply(functools.partial(named_leaf_fn, none_vals=none_vals, log=l2), num_threads=0, **kw)
                    same = sorted(map(str, l1)) == sorted(map(str, l2))
                elif variant == "inplace":
                    ta, tb = tree_td(t), tree_td(t)
                    f2 = lambda x, nv=none_vals: None if int(x.reshape(-1)[0]) in nv else x + 50  # noqa: E731
                    a = ta._fast_apply(f2, num_threads=nt, inplace=True, filter_empty=fe)
                    b = tb._fast_apply(f2, num_threads=0, inplace=True, filter_empty=fe)
                    same = (a is ta or a is None) and (b is tb or b is None)
                    a, b = ta, tb
                    canon = lambda td: unordered([["raw", k2 if isinstance(k2, str) else ".".join(k2), v.reshape(-1).tolist()] for k2, v in td.items(True, True)])  # noqa: E731
                    same = same and sorted(map(str, canon(a))) == sorted(map(str, canon(b)))
                elif variant in ("others", "others-default", "out", "call_on_nested"):
                    import contextlib

                    def other_of(tt, drop):
                        """a second tensordict with the same structure (values + 1000), optionally without some leaves"""
                        from tensordict import TensorDict
                        return TensorDict({k: (torch.full((2, 1), v + 1000) if not isinstance(v, list) else other_of(v, drop))
                                           for k, v in tt if isinstance(v, list) or v not in drop}, batch_size=[2])

                    def f2(x, y, nv=none_vals):
                        return None if int(x.reshape(-1)[0]) in nv else x * 100000 + y

                    def run_one(threads):
                        ctx = patched_pool(rng=__import__("random").Random(it)) if (shuffled and threads) else contextlib.nullcontext()
                        with ctx:
                            src = tree_td(t)
                            if variant == "others":
                                return src._fast_apply(f2, other_of(t, ()), num_threads=threads, filter_empty=fe)
                            if variant == "others-default":
                                drop = tuple(v for v in range(k) if v % 2 == 1)
                                return src._fast_apply(f2, other_of(t, drop), default=torch.full((2, 1), -7), num_threads=threads, filter_empty=fe)
                            if variant == "out":
                                out = src.apply(lambda x: torch.zeros_like(x), filter_empty=False)
                                src._fast_apply(lambda x: x + 3, out=out, num_threads=threads, filter_empty=False)
                                return out
                            fn_cn = lambda x: x + 1 if isinstance(x, torch.Tensor) else x.apply(lambda y: y + 1, filter_empty=False)  # noqa: E731
                            return src._fast_apply(fn_cn, call_on_nested=True, num_threads=threads, filter_empty=fe)

                    def outcome(threads):
                        """the result, or the exception class when the call raises: the multithreaded form must do what the
                        single-threaded form does, including raising"""
                        try:
                            return run_one(threads)
                        except TimeoutError:
                            raise
                        except Exception as e:  # noqa: BLE001
                            return ("raised", type(e).__name__)

                    a, b = outcome(nt), outcome(0)
                    raw = lambda td: td if (td is None or isinstance(td, tuple)) else sorted((k2 if isinstance(k2, str) else ".".join(k2), v.reshape(-1).tolist()) for k2, v in td.items(True, True))  # noqa: E731
                    if raw(a) != raw(b):
                        raise AssertionError(f"values differ: {raw(a)} vs single-threaded {raw(b)}")
                    same = True
                    if isinstance(a, tuple):
                        a = b = None
                else:
                    a = tree_td(t)._fast_apply(functools.partial(leaf_fn, none_vals=none_vals, delays=delays), num_threads=nt, filter_empty=fe)
                    b = tree_td(t)._fast_apply(functools.partial(leaf_fn, none_vals=none_vals), num_threads=0, filter_empty=fe)
                    same = True
            ok = same and unordered(canon_td_tree(a)) == unordered(canon_td_tree(b)) and meta_of(a) == meta_of(b)
            what = f"threads={nt}: {canon_td_tree(a)} vs single-threaded {canon_td_tree(b)}"
        except TimeoutError as e:
            raise Infra(f"implementation call timed out: {e}")
        except Exception as e:  # noqa: BLE001
            ok, what = False, f"raised {type(e).__name__}: {e}"
        if ok:
            run.oracle_ok("apply_real_pool")
        else:
            run.oracle_fail("apply_real_pool", [tree_sx(t), list(none_vals), fe, nt, variant], what, f"apply-real:{variant}")


# ----------------------------------------------------------------------------- writers
DTYPES = [torch.float32, torch.int64, torch.uint8, torch.bool, torch.float64, torch.int16, torch.bfloat16]


def writer_td(rng, n_leaves, nested):
    from tensordict import TensorDict
    d = {}
    names = list("abcdefgh")
    for i in range(n_leaves):
        dt = rng.choice(DTYPES)
        shape = [3] + rng.choice([[], [2], [1, 3], [5]])
        numel = 1
        for s in shape:
            numel *= s
        v = (torch.arange(numel) % 7 + i).reshape(shape)
        d[names[i]] = (v % 2 == 0) if dt == torch.bool else v.to(dt)
    td = TensorDict(d, batch_size=[3])
    if nested and n_leaves >= 2:
        sub = TensorDict({names[n_leaves - 1]: td[names[n_leaves - 1]]}, batch_size=[3])
        del td[names[n_leaves - 1]]
        td["sub"] = sub
    return td


def listing(root: Path):
    out = []
    for p in sorted(root.rglob("*")):
        if p.is_file():
            if p.name == "other.pickle":
                # tensorclass / NonTensorData: pickle of the fields that are not json-serialisable *when the metadata task runs*
                # (`_metadata` holds a Path once the caller went on): present or not depending on timing, never changes
                # what is loaded (see REPORT_C10 §4); not compared
                continue
            b = p.read_bytes()
            if p.name == "meta.json":
                out.append([str(p.relative_to(root)), "json", json.dumps(json.loads(b), sort_keys=True)])
            else:
                out.append([str(p.relative_to(root)), len(b), hashlib.sha1(b).hexdigest()])
    return out


def bits(td):
    return sorted((k if isinstance(k, str) else ".".join(k), str(v.dtype), list(v.shape), v.contiguous().view(torch.uint8).reshape(-1).tolist() if v.numel() else [])
                  for k, v in td.items(True, True))


def run_writers(run, drv):
    from tensordict import TensorDict
    rng = run.rng
    quick = run.tier == "quick"
    root = BUILD / "tmp" / f"c12w_{run.seed}_{run.tier}"
    shutil.rmtree(root, ignore_errors=True)
    root.mkdir(parents=True, exist_ok=True)
    try:
        configs = [(2, False), (3, False), (3, True), (4, False)] + ([(6, True), (7, False)] if not quick else [(6, True)])
        ci = 0
        for n_leaves, nested in configs:
            td = writer_td(rng, n_leaves, nested)
            n_tasks_mm = n_leaves + 1 + (1 if nested and n_leaves >= 2 else 0)
            for api in ("memmap", "memmap_", "memmap_like", "consolidate"):
                k = n_leaves if api == "consolidate" else n_tasks_mm
                if k <= 5:
                    orders = list(itertools.permutations(range(k)))
                    if quick and k == 5:
                        orders = rng.sample(orders, 24)
                    if quick and k == 4 and api != "memmap":
                        orders = rng.sample(orders, 10)
                else:
                    orders = []
                    for _ in range(6 if quick else 30):
                        o = list(range(k))
                        rng.shuffle(o)
                        orders.append(tuple(o))
                # reference: the single-threaded form
                ci += 1
                ref_dir = root / f"ref{ci}"
                if api == "consolidate":
                    ref = td.consolidate(num_threads=0)
                    ref_obs = (bytes(ref._consolidated["storage"].tolist()), bits(ref))
                else:
                    src = td.clone()
                    ref = getattr(src, api)(prefix=ref_dir, num_threads=0)
                    ref_obs = (listing(ref_dir), bits(TensorDict.load_memmap(ref_dir)), bits(ref), ref.is_locked, ref.is_memmap())
                for oi, o in enumerate(orders):
                    run.case(("writers", api, n_leaves, nested, o))
                    run.count("writers.api", api)
                    d = root / f"w{ci}_{oi}"
                    try:
                        with patched_pool(order=list(o)) as pp, time_limit(180):
                            if api == "consolidate":
                                got = td.consolidate(num_threads=3)
                                obs = (bytes(got._consolidated["storage"].tolist()), bits(got))
                            else:
                                src = td.clone()
                                got = getattr(src, api)(prefix=d, num_threads=3)
                                obs = (listing(d), bits(TensorDict.load_memmap(d)), bits(got), got.is_locked, got.is_memmap())
                        ex = pp.executors[0]
                        if len(ex.submitted) == len(o) and ex.ran != list(o):
                            raise Infra(f"permuting executor did not realise order {o}: {ex.ran}")
                        # hypothesis of writers_order_independent: pairwise distinct targets
                        if api == "consolidate":
                            spans = sorted((kw["start"], kw["stop"]) for (_, _, kw) in ex.submitted)
                            distinct = all(a[1] <= b[0] for a, b in zip(spans, spans[1:])) and len({kw["k"] for (_, _, kw) in ex.submitted}) == len(spans)
                            n_model = n_leaves
                        else:
                            targets = []
                            for (fn, args, kw) in ex.submitted:
                                if fn.__name__ == "_populate_memmap":
                                    targets.append(str(kw["prefix"] / f"{kw['key']}.memmap"))
                                else:
                                    targets.append(str(args[1] / "meta.json"))
                            distinct = len(set(targets)) == len(targets)
                            n_model = n_tasks_mm
                        run.corr("writer_tasks(count, distinct targets)", [api, n_leaves, nested, list(o)], [len(ex.submitted), distinct], [n_model, True])
                        ok = obs == ref_obs
                        what = "" if ok else f"order {o}: result differs from the single-threaded form"
                    except Infra:
                        raise
                    except TimeoutError as e:
                        raise Infra(f"implementation call timed out: {e}")
                    except Exception as e:  # noqa: BLE001
                        ok, what = False, f"order {o}: raised {type(e).__name__}: {e}"
                    if ok:
                        run.oracle_ok("writers_eq_single_thread")
                    else:
                        run.oracle_fail("writers_eq_single_thread", [api, n_leaves, nested, list(o)], what, f"writers:{api}")
                    shutil.rmtree(d, ignore_errors=True)
                # real pools
                for nt in (2, 4, 8):
                    d = root / f"r{ci}_{nt}"
                    try:
                        with time_limit(180):
                            if api == "consolidate":
                                got = td.consolidate(num_threads=nt)
                                obs = (bytes(got._consolidated["storage"].tolist()), bits(got))
                            else:
                                src = td.clone()
                                got = getattr(src, api)(prefix=d, num_threads=nt)
                                obs = (listing(d), bits(TensorDict.load_memmap(d)), bits(got), got.is_locked, got.is_memmap())
                        ok, what = obs == ref_obs, f"num_threads={nt}: result differs from the single-threaded form"
                    except TimeoutError as e:
                        raise Infra(f"implementation call timed out: {e}")
                    except Exception as e:  # noqa: BLE001
                        ok, what = False, f"num_threads={nt}: raised {type(e).__name__}: {e}"
                    run.case(("writers-real", api, n_leaves, nested, nt))
                    if ok:
                        run.oracle_ok("writers_real_pool")
                    else:
                        run.oracle_fail("writers_real_pool", [api, n_leaves, nested, nt], what, f"writers-real:{api}")
                    shutil.rmtree(d, ignore_errors=True)
                shutil.rmtree(ref_dir, ignore_errors=True)
    finally:
        shutil.rmtree(root, ignore_errors=True)


def listing_core(root: Path):
    """data files with their bytes, metadata files by name only (the auxiliary fields of a tensorclass / NonTensorData
    meta.json — `_metadata`, `_is_non_tensor` — depend on when the metadata task runs; what is *loaded* is compared separately)"""
    out = []
    for item in listing(root):
        out.append([item[0], "json"] if item[1] == "json" else item)
    return out


def run_return_early(run, tag="c12e"):
    """`memmap_/memmap/memmap_like(num_threads>1, return_early=True)` return a TensorDictFuture: `.result()` must hand the
    tensordict back only once **every** submitted writer task has completed. The executor runs *only* the tasks somebody
    waits for (the most adversarial legal schedule), so a task that is submitted but not among the awaited futures is
    still pending — and its file missing — when `result()` returns."""
    from tensordict import LazyStackedTensorDict, NonTensorData, TensorDict
    import c11_trips
    rng = run.rng
    quick = run.tier == "quick"
    root = BUILD / "tmp" / f"{tag}_{run.seed}_{run.tier}"
    shutil.rmtree(root, ignore_errors=True)
    root.mkdir(parents=True, exist_ok=True)
    P = c11_trips.tc_cls()

    def t(shape, v, dt=torch.float32):
        n = 1
        for x in shape:
            n *= x
        return (torch.arange(n, dtype=torch.float64) + v).to(dt).reshape(shape)

    def mk(kind):
        b = [3]
        if kind == "plain":
            return TensorDict({"a": t([3, 2], 1), "b": t([3], 2, torch.int64)}, b)
        if kind == "nested":
            return TensorDict({"a": t([3, 2], 1), "n": {"x": t([3], 2, torch.int64), "m": {"z": t([3, 1], 3)}}}, b)
        if kind == "tensorclass":
            return TensorDict({"obs": t([3, 2], 1), "sample": P(u=t([3, 2], 4), v=t([3], 5, torch.int16), tag="T", batch_size=b)}, b)
        if kind == "tensorclass-nested":
            return TensorDict({"obs": t([3, 2], 1), "n": {"sample": P(u=t([3, 2], 4), v=t([3], 5, torch.int16), tag="T", batch_size=b), "y": t([3], 6)}}, b)
        if kind == "tensorclass-root":
            return P(u=t([3, 2], 4), v=t([3], 5, torch.int16), tag="T", batch_size=b)
        if kind == "nontensor":
            return TensorDict({"a": t([3, 2], 1), "s": NonTensorData("hello", batch_size=b), "n": {"q": NonTensorData("x", batch_size=b), "y": t([3], 6)}}, b)
        if kind == "lazy":
            return TensorDict({"a": t([3], 1), "l": LazyStackedTensorDict(*[TensorDict({"x": t([2], 10 * i)}, []) for i in range(3)], stack_dim=0)}, b)
        raise ValueError(kind)

    kinds = ["plain", "nested", "tensorclass", "tensorclass-nested", "tensorclass-root", "nontensor", "lazy"]
    opts = dict(lock=False, names=False, device=False)
    from c11_canon import canon, first_diff
    try:
        with warnings.catch_warnings():
            warnings.simplefilter("ignore")
            for ki, kind in enumerate(kinds):
                for api in ("memmap_", "memmap", "memmap_like"):
                    ref_dir = root / f"ref_{kind}_{api}"
                    ref = getattr(mk(kind), api)(prefix=ref_dir, num_threads=0)
                    ref_obs = (listing_core(ref_dir), canon(TensorDict.load_memmap(ref_dir) if kind != "tensorclass-root" else P.load_memmap(ref_dir), **opts))
                    for oi in range(2 if quick else 8):
                        d = root / f"e_{kind}_{api}_{oi}"
                        case = {"kind": kind, "api": api, "order_seed": oi}
                        run.case(("return-early", kind, api, oi))
                        run.count("return_early.kind", kind)
                        try:
                            with time_limit(180):
                                src = mk(kind)
                                n_guess = 12
                                order = list(range(n_guess))
                                rng.shuffle(order)
                                with patched_pool(order=order, selective=True) as pp:
                                    fut = getattr(src, api)(prefix=d, num_threads=3, return_early=True)
                                    res = fut.result()
                                    ex = pp.executors[0]
                                    pending = [ex.submitted[idx] for (idx, *_rest) in ex.pending]
                                    # what is on disk and what a load returns at the moment result() hands the tensordict back
                                    try:
                                        obs = (listing_core(d), canon(TensorDict.load_memmap(d) if kind != "tensorclass-root" else P.load_memmap(d), **opts))
                                    except Exception as e:  # noqa: BLE001
                                        obs = ("load raised", f"{type(e).__name__}: {str(e)[:100]}")
                                    ex.flush()
                            if pending:
                                names = [getattr(fn, "__name__", "?") + ":" + str(kw.get("key", "")) for (fn, a, kw) in pending]
                                bad = (f"result() returned while {len(pending)} of {len(ex.submitted)} submitted writer tasks were not awaited (still pending): {names}; "
                                       f"loaded at that moment vs the single-threaded form: {first_diff(list(ref_obs), list(obs))}")
                            elif obs != ref_obs:
                                bad = f"after result() the directory / loaded content differs from the single-threaded form: {first_diff(list(ref_obs), list(obs))}"
                            else:
                                bad = None
                        except TimeoutError as e:
                            raise Infra(f"memmap timed out: {e}")
                        except Exception as e:  # noqa: BLE001
                            bad = f"raised {type(e).__name__}: {str(e)[:150]}"
                        if bad is None:
                            run.oracle_ok("return_early_complete")
                        else:
                            run.oracle_fail("return_early_complete", case, bad, f"return_early:{kind}:{api}")
                        shutil.rmtree(d, ignore_errors=True)
                    shutil.rmtree(ref_dir, ignore_errors=True)
    finally:
        shutil.rmtree(root, ignore_errors=True)


def run_inplace_identity(run):
    """`_fast_apply(fn, inplace=True, num_threads=k)` / `apply(fn, inplace=True, num_threads=k)` must do what the sequential form does
    to the *objects*: the results are written **into** the existing leaves (same tensor objects afterwards, every other handle on
    their memory — a view taken before, another mapping of the file, a second handle on the shared memory — sees the new values),
    on plain, memory-mapped and shared-memory tensordicts, `checked` on and off. Compared with the num_threads=0 report."""
    from tensordict import MemoryMappedTensor, TensorDict
    rng = run.rng
    quick = run.tier == "quick"
    root = BUILD / "tmp" / f"c12i_{run.seed}_{run.tier}"
    shutil.rmtree(root, ignore_errors=True)
    root.mkdir(parents=True, exist_ok=True)

    def make(shape_seed):
        n = 3 + shape_seed % 3
        return TensorDict({"a": torch.arange(float(n)), "b": {"c": torch.ones(n, 2), "d": {"e": torch.zeros(n, dtype=torch.int64)}},
                           "z": torch.arange(n, dtype=torch.int32)}, batch_size=[n])

    def fn(x):
        return x + 1

    def report(kind, api, checked, nt, tag, seed_):
        td = make(seed_)
        d = root / f"{tag}"
        if kind == "memmap":
            td = td.memmap_(d)
        elif kind == "shared":
            td = td.share_memory_()
        if td.is_locked:
            td.unlock_()
        leaves = dict(td.items(True, True))
        handles = {k: v.view(-1) if kind == "plain" else v for k, v in leaves.items()}     # other handles on the same memory
        expected = {k: (v + 1).clone() for k, v in leaves.items()}
        with time_limit(120):
            if api == "_fast_apply":
                res = td._fast_apply(fn, inplace=True, num_threads=nt, checked=checked)
            else:
                res = td.apply(fn, inplace=True, num_threads=nt)
        rep = {"returns_self": res is td,
               "same_leaf_objects": all(td.get(k) is v for k, v in leaves.items()),
               "handles_see_update": all(bool((handles[k].reshape(expected[k].shape) == expected[k]).all()) for k in leaves),
               "values": all(bool((td.get(k) == expected[k]).all()) for k in leaves)}
        if kind == "memmap":
            rep["leaves_still_memory_mapped"] = all(isinstance(v, MemoryMappedTensor) for v in td.values(True, True))
            disk = TensorDict.load_memmap(d)
            rep["files_updated"] = all(bool((disk.get(k) == expected[k]).all()) for k in leaves)
        if kind == "shared":
            rep["leaves_still_shared"] = all(v.is_shared() for v in td.values(True, True))
        shutil.rmtree(d, ignore_errors=True)
        return rep

    try:
        it = 0
        for kind in ("plain", "memmap", "shared"):
            for api, checked in (("_fast_apply", True), ("_fast_apply", False), ("apply", None)):
                seed_ = rng.randrange(100)
                try:
                    ref = report(kind, api, checked, 0, f"r{it}", seed_)
                except TimeoutError as e:
                    raise Infra(f"in-place apply timed out: {e}")
                for nt in ((1, 2, 4) if not quick else (1, rng.choice([2, 4]))):
                    it += 1
                    case = {"container": kind, "api": api, "checked": checked, "num_threads": nt}
                    run.case(("inplace-identity", kind, api, checked, nt))
                    try:
                        got = report(kind, api, checked, nt, f"t{it}", seed_)
                    except TimeoutError as e:
                        raise Infra(f"in-place apply timed out: {e}")
                    except Exception as e:  # noqa: BLE001
                        got = {"raised": f"{type(e).__name__}: {str(e)[:120]}"}
                    if got == ref:
                        run.oracle_ok("apply_inplace_writes_through")
                    else:
                        diff = {k: (ref.get(k), got.get(k)) for k in set(ref) | set(got) if ref.get(k) != got.get(k)}
                        run.oracle_fail("apply_inplace_writes_through", case,
                                        f"in-place apply on a {kind} tensordict with num_threads={nt} differs from num_threads=0 in (sequential, threaded): {diff}",
                                        f"inplace-identity:{kind}:{api}")
    finally:
        shutil.rmtree(root, ignore_errors=True)


def run_apply_lazy(run):
    """the multithreaded apply over **lazy stacks** (LazyStackedTensorDict._multithread_apply_flat / _multithread_rebuild dispatch to the
    members): `apply` / `_fast_apply` with num_threads 1, 2, 4 must return what num_threads=0 returns — container type, stack dim, batch
    size, names, keys, values, None results / filter_empty, named / nested_keys, in-place (same member objects), `out=` — on stacks with
    members of different shapes, nested stacks, stacks inside a tensordict, stack dim 0 / 1."""
    from tensordict import LazyStackedTensorDict, TensorDict
    from c11_canon import canon, first_diff
    rng = run.rng
    quick = run.tier == "quick"
    opts = dict(lock=True, names=True, device=True)

    def member(i, hetero, n=3):
        d = {"a": torch.full((n, 2), float(i)), "n": {"x": torch.arange(n) + 10 * i, "e": {}}, "s": f"m{i}"}
        if hetero:
            d["h"] = torch.full((n, i + 1), float(i))
        return TensorDict(d, [n])

    def mk(kind):
        if kind == "dim0":
            return LazyStackedTensorDict(*[member(i, False) for i in range(3)], stack_dim=0)
        if kind == "dim1-hetero":
            return LazyStackedTensorDict(*[member(i, True) for i in range(3)], stack_dim=1, stack_dim_name="env")
        if kind == "nested":
            return LazyStackedTensorDict(*[LazyStackedTensorDict(*[member(2 * i + j, False) for j in range(2)], stack_dim=0) for i in range(2)], stack_dim=1)
        if kind == "inside-td":
            return TensorDict({"ls": LazyStackedTensorDict(*[member(i, True) for i in range(3)], stack_dim=0), "t": torch.arange(3.0)}, [3])
        raise ValueError(kind)

    def variants():
        yield "plain", lambda td, nt: td.apply(lambda x: x + 1, num_threads=nt)
        yield "named", lambda td, nt: td.apply(lambda name, x: x + len(name) if isinstance(name, str) else x, named=True, num_threads=nt)
        yield "nested_keys", lambda td, nt: td.apply(lambda name, x: x + (len(name) if isinstance(name, tuple) else 1), named=True, nested_keys=True, num_threads=nt)
        yield "none-some", lambda td, nt: td.apply(lambda x: None if x.dtype == torch.int64 else x * 2, num_threads=nt)
        yield "none-some(filter_empty=False)", lambda td, nt: td.apply(lambda x: None if x.dtype == torch.int64 else x * 2, num_threads=nt, filter_empty=False)
        yield "all-none", lambda td, nt: td.apply(lambda x: None, num_threads=nt)
        yield "batch_size", lambda td, nt: td.apply(lambda x: x[..., None] if False else x, batch_size=list(td.batch_size), num_threads=nt)
        yield "_fast_apply", lambda td, nt: td._fast_apply(lambda x: x - 1, num_threads=nt)
        yield "_fast_apply(propagate_lock)", lambda td, nt: td.lock_()._fast_apply(lambda x: x - 1, num_threads=nt, propagate_lock=True)

    def outcome(kind, fn, nt):
        td = mk(kind)
        try:
            with time_limit(120):
                r = fn(td, nt)
            return ["ok", None if r is None else canon(r, **opts)]
        except TimeoutError:
            raise
        except Exception as e:  # noqa: BLE001
            return ["raised", type(e).__name__]

    def inplace_report(kind, nt):
        td = mk(kind)
        members = td.tensordicts if isinstance(td, LazyStackedTensorDict) else td["ls"].tensordicts
        handles = [m_["a"] for m_ in members] if not isinstance(members[0], LazyStackedTensorDict) else [mm["a"] for m_ in members for mm in m_.tensordicts]
        want = [h + 1 for h in handles]
        try:
            with time_limit(120):
                r = td.apply(lambda x: x + 1 if x.dtype == torch.float32 else None, inplace=True, num_threads=nt)
            return ["ok", r is td, all(bool((h == w).all()) for h, w in zip(handles, want)), canon(td, **opts)]
        except TimeoutError:
            raise
        except Exception as e:  # noqa: BLE001
            return ["raised", type(e).__name__]

    for kind in ("dim0", "dim1-hetero", "nested", "inside-td"):
        for name, fn in variants():
            try:
                ref = outcome(kind, fn, 0)
            except TimeoutError as e:
                raise Infra(f"apply timed out: {e}")
            for nt in ((1, 2, 4) if not quick else (rng.choice([1, 2]), 4)):
                run.case(("apply-lazy", kind, name, nt))
                try:
                    got = outcome(kind, fn, nt)
                except TimeoutError as e:
                    raise Infra(f"apply timed out: {e}")
                if got == ref:
                    run.oracle_ok("apply_lazy_threads_eq_sequential")
                else:
                    why = first_diff(ref[1], got[1]) if ref[0] == got[0] == "ok" and isinstance(ref[1], list) and isinstance(got[1], list) else f"{ref[0]} {str(ref[1])[:60]} vs {got[0]} {str(got[1])[:60]}"
                    run.oracle_fail("apply_lazy_threads_eq_sequential", {"stack": kind, "variant": name, "num_threads": nt},
                                    f"apply({name}) on a lazy stack ({kind}) with num_threads={nt} differs from num_threads=0: {why}", f"apply-lazy:{kind}:{name}")
        try:
            ref = inplace_report(kind, 0)
        except TimeoutError as e:
            raise Infra(f"apply timed out: {e}")
        for nt in (2, 4):
            run.case(("apply-lazy-inplace", kind, nt))
            try:
                got = inplace_report(kind, nt)
            except TimeoutError as e:
                raise Infra(f"apply timed out: {e}")
            if got == ref:
                run.oracle_ok("apply_lazy_threads_eq_sequential")
            else:
                run.oracle_fail("apply_lazy_threads_eq_sequential", {"stack": kind, "variant": "inplace", "num_threads": nt},
                                f"in-place apply on a lazy stack ({kind}) with num_threads={nt}: (outcome, returns self, handles see the update) = {got[:3]}, sequential {ref[:3]}",
                                f"apply-lazy:{kind}:inplace")


def run_existsok(run, tag="c12x"):
    """memmap / memmap_ / memmap_like(existsok=False) into a directory that holds a former save: the outcome (raise or write) and the
    content of the directory afterwards must be those of the num_threads=0 form (which refuses and leaves the old files alone)."""
    from tensordict import TensorDict
    rng = run.rng
    quick = run.tier == "quick"
    root = BUILD / "tmp" / f"{tag}_{run.seed}_{run.tier}"
    shutil.rmtree(root, ignore_errors=True)
    root.mkdir(parents=True, exist_ok=True)
    from c11_canon import canon, first_diff
    opts = dict(lock=False, names=False, device=False)

    def make(off, n):
        return TensorDict({"a": torch.arange(float(n)) + off, "b": {"c": torch.ones(n, 2) + off, "k": torch.zeros(n, dtype=torch.int16) + off}}, batch_size=[n])

    def attempt(api, existsok, nt, former, tag_, n):
        d = root / tag_
        if former:
            make(0, n).memmap(d)
        new = make(10, n)
        try:
            with time_limit(120):
                getattr(new, api)(d, existsok=existsok, num_threads=nt)
            outcome = "returned"
        except TimeoutError as e:
            raise Infra(f"{api} timed out: {e}")
        except Exception as e:  # noqa: BLE001
            outcome = "raised " + type(e).__name__
        try:
            disk = canon(TensorDict.load_memmap(d), **opts) if d.exists() and (d / "meta.json").exists() else "no directory"
        except Exception as e:  # noqa: BLE001
            disk = "load raised " + type(e).__name__
        shutil.rmtree(d, ignore_errors=True)
        return [outcome, disk if api != "memmap_like" or outcome != "returned" else "contentless"]

    try:
        it = 0
        for api in ("memmap", "memmap_", "memmap_like", "save"):
            for existsok in (False, True):
                for former in (True, False):
                    n = rng.choice([3, 4])
                    ref = attempt(api, existsok, 0, former, f"r{it}", n)
                    for nt in ((2, 4) if not quick else (rng.choice([2, 4]),)):
                        it += 1
                        case = {"api": api, "existsok": existsok, "former_save": former, "num_threads": nt}
                        run.case(("existsok", api, existsok, former, nt))
                        got = attempt(api, existsok, nt, former, f"t{it}", n)
                        if got == ref:
                            run.oracle_ok("existsok_threads_eq_single")
                        else:
                            run.oracle_fail("existsok_threads_eq_single", case,
                                            f"{api}(existsok={existsok}, num_threads={nt}) into a directory {'holding a former save' if former else 'that is new'}: "
                                            f"{got[0]}, single-threaded: {ref[0]}; directory afterwards: {first_diff(ref[1], got[1]) if isinstance(ref[1], list) and isinstance(got[1], list) else (ref[1], got[1])}",
                                            f"existsok:{api}")
    finally:
        shutil.rmtree(root, ignore_errors=True)


def run_threads(run, drv):
    import warnings
    with warnings.catch_warnings():
        warnings.simplefilter("ignore")
        run_apply(run, drv)
        run_writers(run, drv)
        run_return_early(run)
        run_inplace_identity(run)
        run_existsok(run)
        run_apply_lazy(run)


# ------------------------------------------------------------------------------------------- the metadata task of a non-tensor entry
def run_metadata_race(run, drv=None, tag="c12m"):
    """The tensorclass `save_metadata` writer task of a non-tensor entry against the thread that called memmap()/save()/memmap_():
    the schedule is *forced* (the task is held at a chosen point of its loop with hooks on the module-level helpers it calls, the
    caller is held until the task has finished), the outcome (raise / keys in meta.json / keys in other.pickle) is compared with the
    Lean model `C10.MetaTask` (when a C10 driver is given) and with what num_threads=0 does (the property: every legal schedule gives
    the single-threaded result). The failing schedules are the recorded finding *-nontensor-metadata-task-race."""
    import pickle
    import sys
    import threading
    from concurrent.futures.thread import ThreadPoolExecutor as RealTPE
    from tensordict import NonTensorData, TensorDict
    from c12_fns import RACE_MSG, RACE_SITE
    tcm = sys.modules["tensordict.tensorclass"]
    B = sys.modules["tensordict.base"]
    quick = run.tier == "quick"
    rng = run.rng
    root = BUILD / "tmp" / f"{tag}_{run.seed}_{run.tier}"
    shutil.rmtree(root, ignore_errors=True)
    root.mkdir(parents=True, exist_ok=True)
    INF = 99
    WAIT = 20.0
    main_thread = threading.current_thread()

    def cls_of(v):
        return "null" if v is None else ("json" if tcm._is_json_serializable(tcm._from_shared_nontensor(v)) else "pickle")

    def forced(td, api, sched, d, **kw):
        """sched: ("first",) | ("before", release) | ("loop", k, release); release: "after-add" | "after-set" """
        release = sched[-1] if sched[0] != "first" else None
        ev = threading.Event()
        state = {"calls": 0, "timed_out": False, "held": False, "task": None}
        orig_fsn, orig_submit, orig_ft = tcm._from_shared_nontensor, RealTPE.submit, NonTensorData.__dict__["_from_tensordict"]

        held_ev = threading.Event()

        def hold():
            state["held"] = True
            held_ev.set()
            if not ev.wait(WAIT):
                state["timed_out"] = True

        def fsn(v):
            if threading.current_thread() is not main_thread:
                i = state["calls"]
                state["calls"] += 1
                if sched[0] == "loop" and i == sched[1]:
                    hold()
            return orig_fsn(v)

        def opener(*a, **k):
            if threading.current_thread() is not main_thread and sched[0] == "before" and not state["held"] and str(a[0]).endswith("meta.json"):
                hold()
            return open(*a, **k)

        def submit(self, fn, *a, **k):
            f = orig_submit(self, fn, *a, **k)
            if getattr(fn, "__name__", "") == "save_metadata" and getattr(fn, "__module__", "") == "tensordict.tensorclass":
                state["task"] = f
            return f

        def task_done():
            f = state["task"]
            if f is None:
                state["timed_out"] = True
                return
            done, _ = _real_wait([f], timeout=WAIT)
            if not done:
                state["timed_out"] = True

        def from_td(cls, *a, **k):
            if sched[0] == "first":
                task_done()
            elif not held_ev.wait(WAIT):      # the caller goes on only once the task sits at the chosen point
                state["timed_out"] = True
            r = orig_ft.__func__(cls, *a, **k)
            if release == "after-add":
                ev.set()
                task_done()
            return r

        def waiter(*a, **k):
            ev.set()
            return _real_wait(*a, **k)

        ps = [mock.patch.object(tcm, "_from_shared_nontensor", fsn), mock.patch.object(tcm, "open", opener, create=True),
              mock.patch.object(RealTPE, "submit", submit), mock.patch.object(NonTensorData, "_from_tensordict", classmethod(from_td)),
              mock.patch.object(concurrent.futures, "wait", waiter), mock.patch.object(B, "wait", waiter)]
        for p in ps:
            p.start()
        try:
            try:
                with time_limit(120):
                    getattr(td, api)(d, num_threads=2, **kw)
                out = None
            except TimeoutError as e:
                raise Infra(f"forced schedule timed out: {e}")
            except RuntimeError as e:
                if RACE_MSG not in str(e):
                    raise
                out = ["err"]
        finally:
            ev.set()
            for p in reversed(ps):
                p.stop()
        if state["timed_out"] or (sched[0] != "first" and not state["held"]):
            return None
        return out or observe(d)

    def observe(d):
        meta = json.loads((d / "s" / "meta.json").read_text())
        meta.pop("_type", None)
        pk = d / "s" / "other.pickle"
        pkeys = sorted(pickle.loads(pk.read_bytes())) if pk.exists() else []
        return ["ok", [[k, "null" if v is None else "json"] for k, v in meta.items()], pkeys]

    def variant(i):
        if i == 0:
            return TensorDict({"a": torch.arange(3.0), "s": NonTensorData("text", batch_size=[3])}, [3])
        if i == 1:
            return TensorDict({"s": NonTensorData(rng.randint(0, 99), batch_size=[2]), "n": {"x": torch.ones(2, 2)}}, [2])
        if i == 2:
            return TensorDict({"a": torch.zeros(2, dtype=torch.int16), "s": NonTensorData(slice(1, 2), batch_size=[2])}, [2])
        # saved before: the non-tensor dict already holds every expected key and a `_metadata` with a Path
        first = TensorDict({"a": torch.arange(2.0), "s": NonTensorData("again", batch_size=[2])}, [2]).memmap(root / f"first{rng.randint(0, 10**9)}")
        return first

    try:
        n = 0
        with warnings.catch_warnings():
            warnings.simplefilter("ignore")
            for vi in range(4):
                probe = variant(vi).get("s")
                d0 = [[k, cls_of(v)] for k, v in probe._non_tensordict.items()]
                exp = sorted(type(probe).__expected_keys__)
                for api in ("memmap", "save", "memmap_"):
                    inplace = api == "memmap_"
                    if inplace and vi == 3:
                        continue      # a memory-mapped tensordict is locked: memmap_ again is another question
                    ref_dir = root / f"ref{n}"
                    kw = {"copy_existing": True} if vi == 3 else {}
                    getattr(variant(vi), api)(ref_dir, num_threads=0, **kw)
                    ref = observe(ref_dir)
                    scheds = [("first",)] + [(kind, *k, rel) for rel in ("after-add", "after-set") for kind, k in [("before", ())] + [("loop", (j,)) for j in range(len(d0))]]
                    if quick:
                        scheds = scheds[:1] + rng.sample(scheds[1:], 4)
                    for sched in scheds:
                        n += 1
                        d = root / f"f{n}"
                        run.case(("metatask", vi, api, sched))
                        got = forced(variant(vi), api, sched, d, **kw)
                        if got is None:
                            run.count("metatask.schedule_not_realised", 1)
                            continue
                        run.count("metatask.outcome", got[0])
                        p = {"first": (INF, INF), "before": (0, INF), "loop": ((sched[1] if sched[0] == "loop" else 0) + 2, INF)}[sched[0]]
                        if sched[-1] == "after-set":
                            p = (p[0], p[0])
                        case = {"non_tensor_dict": d0, "api": api, "schedule": list(sched), "p1": p[0], "p2": p[1]}
                        if drv is not None:
                            m = parse_sx(drv.ask(sx("c10.metatask", [list(e) for e in d0], list(exp), p[0], p[1], bool(inplace))))
                            model = ["err"] if m[0] == "err" else ["ok", [[k, c] for k, c in m[1] if c != "pickle"], sorted(k for k, c in m[1] if c == "pickle")]
                            run.corr("metadata_task(forced schedule)", case, got, model)
                        if got == ref:
                            run.oracle_ok(RACE_SITE)
                        else:
                            what = (f"{api}(num_threads=2) of a tensordict with a non-tensor entry, writer task held {sched}: "
                                    + ("raised RuntimeError: " + RACE_MSG if got[0] == "err" else f"meta.json keys {got[1]}, other.pickle keys {got[2]}")
                                    + f"; num_threads=0: meta.json keys {ref[1]}, other.pickle keys {ref[2]}")
                            run.oracle_fail(RACE_SITE, case, what, f"metadata-race:forced:{api}:{'raise' if got[0] == 'err' else 'differs'}")
                        shutil.rmtree(d, ignore_errors=True)
    finally:
        shutil.rmtree(root, ignore_errors=True)
