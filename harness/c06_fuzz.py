"""C06 — everything that is *permitted under lock* must leave the memoised reads fresh (real code only).

The Lean model of C06 covers the bindings (key paths, identity of bound objects).  Dimension names, batch sizes and the
storage behind the leaves (memory-mapped files, shared memory) are metadata outside that model; the operations that
change them are accepted on a locked tensordict, so each of them has to invalidate what was memoised -- on the node,
and on every node that holds it (a root TensorDict, an outer lazy stack).

This module exercises that rule directly:
  build a random locked tree (TensorDict root or lazy-stack root; nested TensorDicts, lazy stacks, lazy stacks of
  lazy stacks, non-tensor entries, optional dimension names), memoise every zero-argument read on *every* node,
  apply a random operation that the library accepts under lock on a random node, read everything again.
The oracle is the monitor's: a cache hit must be observationally equal to a fresh recomputation (`same_result`, which
compares key paths, identity of stored leaves, batch sizes and dimension names).  An operation refused by the
library is simply skipped (C05 is about what must be refused); nothing here depends on the Lean model.

Every program is a list of plain python statements over the names of the nodes, so a failure is replayable by hand.
"""
from __future__ import annotations

import random

import torch

NAMES = ["t", "f", "g", "time", "feat", "w"]


_TC = []


def _tc_class():
    if not _TC:
        from tensordict import TensorDict, tensorclass

        @tensorclass
        class FuzzTC:
            a: torch.Tensor
            n: TensorDict
        _TC.append(FuzzTC)
    return _TC[0]


class Tree:
    """a random tree; `nodes` maps a python expression (over `root`) to the node"""

    def __init__(self, rng: random.Random):
        from tensordict import LazyStackedTensorDict, NonTensorData, TensorDict
        self.rng = rng
        self.prog = []
        named = rng.random() < 0.6

        def member(bs, with_nt=False, nested=True):
            d = {"a": torch.zeros(*bs), "b": torch.ones(*bs, 2)}
            if nested:
                d["n"] = TensorDict({"x": torch.zeros(*bs)}, batch_size=bs)
            if with_nt:
                d["nt"] = NonTensorData("v", batch_size=bs)
            return TensorDict(d, batch_size=bs, names=["feat"] if (named and len(bs) == 1) else None)

        def inner_stack():
            # members [3] stacked along dim 0 -> [2, 3]
            return LazyStackedTensorDict(member([3]), member([3]), stack_dim=0)

        kind = rng.choice(["td", "td", "td", "lazy_root", "lazy2_root", "params"])
        self.kind = kind
        if kind == "td":
            d = {"a": torch.zeros(2, 3), "z": torch.ones(2, 3, 1)}
            shape = []
            if rng.random() < 0.8:
                d["sub"] = TensorDict({"c": torch.zeros(2, 3), "deep": TensorDict({"e": torch.zeros(2, 3)}, batch_size=[2, 3])}, batch_size=[2, 3])
                shape.append("sub")
            if rng.random() < 0.8:
                d["l"] = inner_stack()
                shape.append("l")
            if rng.random() < 0.5:
                # a lazy stack of lazy stacks, stacked along the last dim: [2, 3, 2]
                d["ll"] = LazyStackedTensorDict(inner_stack(), inner_stack(), stack_dim=2)
                shape.append("ll")
            if rng.random() < 0.4:
                d["nt"] = NonTensorData("v", batch_size=[2, 3])
                shape.append("nt")
            if rng.random() < 0.35:
                d["tc"] = _tc_class()(a=torch.zeros(2, 3), n=TensorDict({"x": torch.zeros(2, 3)}, batch_size=[2, 3]), batch_size=[2, 3])
                shape.append("tc")
            root = TensorDict(d, batch_size=[2, 3], device="cpu" if rng.random() < 0.4 else None)
            self.prog.append(f"root = TensorDict(a, z, {', '.join(shape)}; batch_size=[2, 3])   # members of the stacks: batch [3]{', names=[feat]' if named else ''}")
            if named and rng.random() < 0.7:
                try:
                    root.names = ["t", "feat"]
                    self.prog.append("root.names = ['t', 'feat']")
                except Exception:  # noqa
                    pass
        elif kind == "lazy_root":
            root = LazyStackedTensorDict(member([3], with_nt=rng.random() < 0.3), member([3]), stack_dim=0)
            self.prog.append("root = LazyStackedTensorDict(m0, m1, stack_dim=0)   # members: batch [3]")
        elif kind == "params":
            from tensordict.nn import TensorDictParams
            pin = rng.random() < 0.5
            root = TensorDictParams(TensorDict({"a": torch.zeros(2, 3), "sub": TensorDict({"c": torch.zeros(2, 3)}, batch_size=[2, 3])}, batch_size=[2, 3]), lock=pin)
            self.prog.append(f"root = TensorDictParams(TensorDict(a, sub; batch_size=[2, 3]), lock={pin})")
        else:
            root = LazyStackedTensorDict(inner_stack(), inner_stack(), stack_dim=0)
            self.prog.append("root = LazyStackedTensorDict(lazy_stack(m, m), lazy_stack(m, m), stack_dim=0)")
        self.root = root
        self.nodes = {}
        self.tc = {}
        self._walk(root, "root")

    def _walk(self, node, expr):
        from tensordict import LazyStackedTensorDict, TensorDict
        from tensordict.base import _is_tensor_collection
        from tensordict.utils import is_non_tensor
        from tensordict.tensorclass import is_tensorclass
        if is_non_tensor(node):
            return
        if is_tensorclass(node):
            self.tc[expr] = node       # operations may go through the tensorclass; the reads are those of its tensordict
            return self._walk(node._tensordict, expr + "._tensordict")
        if "_param_td" in getattr(node, "__dict__", {}):
            self.nodes[expr] = node    # a TensorDictParams: reads and operations through the wrapper, and on its content
            return self._walk(node._param_td, expr + "._param_td")
        self.nodes[expr] = node
        if isinstance(node, LazyStackedTensorDict):
            for i, m in enumerate(node.tensordicts):
                self._walk(m, f"{expr}.tensordicts[{i}]")
        elif isinstance(node, TensorDict):
            for k, v in node._tensordict.items():
                if _is_tensor_collection(type(v)):
                    self._walk(v, f"{expr}.get({k!r})")


def read_all(node):
    """every zero-argument memoised read (plus the usual argument tuples of the list readers)"""
    from tensordict import LazyStackedTensorDict
    out = []
    for f in (lambda: node.detach(), lambda: node.flatten_keys(), lambda: node._values_list(True, True), lambda: node._items_list(True, True),
              lambda: node._values_list(), lambda: node._items_list(), lambda: node.sorted_keys, lambda: node._depth(), lambda: node._dtype(),
              lambda: node.bytes(), lambda: node.param_count(), lambda: node._values_list(True, False), lambda: node.unflatten_keys(),
              lambda: list(node._nested_keys(True, True)) if hasattr(node, "_nested_keys") else None):
        try:
            out.append(f())
        except Exception:  # noqa  (a read that raises raises with or without the cache: the monitor has nothing to compare)
            out.append(None)
    if isinstance(node, LazyStackedTensorDict):
        for f in (lambda: node.names, lambda: node._key_list(), lambda: node._has_exclusive_keys, lambda: node._get_str("n", None), lambda: node._get_str("a", None)):
            try:
                out.append(f())
            except Exception:  # noqa
                out.append(None)
    return out


def gen_op(rng, tree, scratch, counter):
    """-> (kind, statement text, thunk).  Only operations that the library accepts on a locked tensordict are of interest;
    a refused one raises and is skipped by the caller."""
    from tensordict import LazyStackedTensorDict, TensorDict
    targets = {**tree.nodes, **tree.tc}
    expr = rng.choice(list(targets))
    node = targets[expr]
    lazy = isinstance(node, LazyStackedTensorDict)
    kinds = ["names_new", "names_none", "names_same", "names_first", "inplace", "memmap", "memmap", "batch_size", "share", "relock", "nt_index", "nt_index", "nt_index", "rename",
             "clear_device", "auto_device", "auto_batch_size", "index_write", "requires_grad", "make_memmap", "make_memmap_from_tensor", "refine_names"]
    if lazy:
        kinds += ["names_stackdim", "names_stackdim", "names_stackdim"]
    k = rng.choice(kinds)
    nd = node.batch_dims
    if k == "names_new":
        v = rng.sample(NAMES, nd)
        return k, f"{expr}.names = {v}", lambda: setattr(node, "names", v)
    if k == "names_none":
        return k, f"{expr}.names = None", lambda: setattr(node, "names", None)
    if k == "names_same":
        v = list(node.names)
        return k, f"{expr}.names = {v}   # unchanged", lambda: setattr(node, "names", v)
    if k == "names_first":
        v = list(node.names)
        v[0] = rng.choice([n for n in NAMES if n not in v])
        return k, f"{expr}.names = {v}", lambda: setattr(node, "names", v)
    if k == "names_stackdim":
        v = list(node.names)
        v[node.stack_dim] = rng.choice([n for n in NAMES if n not in v] + [None])
        return k, f"{expr}.names = {v}   # only the stack dimension", lambda: setattr(node, "names", v)
    if k == "rename":
        v = list(node.names)
        i = rng.randrange(nd)
        v[i] = rng.choice([n for n in NAMES if n not in v])
        return k, f"{expr}.rename_(*{v})", lambda: node.rename_(*v)
    if k == "inplace":
        def f():
            for leaf in node.values(True, True):
                if isinstance(leaf, torch.Tensor):
                    leaf.add_(1)
            key = "a" if "a" in node.keys() else None
            if key:
                node.set_(key, torch.full_like(node.get(key), 5.0))
        return k, f"{expr}: add_(1) on every leaf; set_('a', 5)", f
    if k == "memmap":
        counter[0] += 1
        p = str(scratch / f"mm_{counter[0]}")
        if rng.random() < 0.6:
            return k, f"{expr}.memmap_({p!r}, copy_existing=True)", lambda: node.memmap_(p, copy_existing=True)
        return k, f"{expr}.memmap_({p!r})", lambda: node.memmap_(p)
    if k == "batch_size":
        cur = list(node.batch_size)
        full = list(node.get("a").shape) if "a" in node.keys() else cur
        if len(cur) > 1 and rng.random() < 0.6:
            v = cur[:-1]
        else:
            v = full[:len(cur) + 1] if len(full) > len(cur) else cur[:-1]
        return k, f"{expr}.batch_size = {v}", lambda: setattr(node, "batch_size", v)
    if k == "share":
        return k, f"{expr}.share_memory_()", lambda: node.share_memory_()
    if k == "clear_device":
        return k, f"{expr}.clear_device_()", lambda: node.clear_device_()
    if k == "auto_device":
        return k, f"{expr}.auto_device_()", lambda: node.auto_device_()
    if k == "auto_batch_size":
        n = rng.choice([None, 1, nd + 1])
        return k, f"{expr}.auto_batch_size_({n})", lambda: node.auto_batch_size_(n)
    if k == "index_write":
        return k, f"{expr}[0] = {expr}[1].clone() + 3", lambda: node.__setitem__(0, node[1].clone() + 3)
    if k == "requires_grad":
        return k, f"{expr}.requires_grad_()", lambda: node.requires_grad_()
    if k == "make_memmap":
        key = "mm" + str(counter[0]); counter[0] += 1
        shape = torch.Size(list(node.batch_size))
        return k, f"{expr}.make_memmap({key!r}, shape={list(shape)}, dtype=torch.float32)", lambda: node.make_memmap(key, shape=shape, dtype=torch.float32)
    if k == "make_memmap_from_tensor":
        key = "mt" + str(counter[0]); counter[0] += 1
        t = torch.ones(*node.batch_size)
        return k, f"{expr}.make_memmap_from_tensor({key!r}, torch.ones({list(node.batch_size)}))", lambda: node.make_memmap_from_tensor(key, t)
    if k == "refine_names":
        v = [rng.choice([None, ...]) for _ in range(1)] + [rng.choice(NAMES)]
        return k, f"{expr}.refine_names({v})", lambda: node.refine_names(*v)
    if k == "relock":
        return k, f"{expr}.lock_()", lambda: node.lock_()
    if k == "nt_index":
        with_nt = [(e, n) for e, n in tree.nodes.items() if not isinstance(n, LazyStackedTensorDict) and hasattr(n, "_tensordict") and "nt" in n._tensordict]
        if with_nt:
            expr, node = rng.choice(with_nt)

        def f():
            if "nt" not in node.keys():
                raise KeyError("nt")
            node[idx] = TensorDict({"nt": payload}, batch_size=node.batch_size[1:])
        counter[0] += 1
        idx, payload = counter[0] % 2, f"w{counter[0]}"
        try:
            ent = node._tensordict.get("nt") if hasattr(node, "_tensordict") else None
            if ent is not None and isinstance(ent, LazyStackedTensorDict) and any(getattr(m, "_is_memmap", False) or m.is_memmap() for m in ent.tensordicts):
                k = "nt_index_memmap"      # known finding: a memory-mapped non-tensor stack is updated in place, nothing is invalidated
        except Exception:  # noqa
            pass
        return k, f"{expr}[{idx}] = TensorDict({{'nt': {payload!r}}})   # (a second write lands on an entry that is a stack already)", f
    raise AssertionError(k)


def _diff_under_lazy_stack(node, why) -> bool:
    """`why` locates the first difference ("at /<i>/<flat key>/1/3: ..." = the values of the tensor under <flat key>): is that entry
    a stacked copy, i.e. does the flat key go through a lazy stack held by `node` (a plain TensorDict)?"""
    import re
    from tensordict import LazyStackedTensorDict
    m = re.match(r"at /\d+/([^/]+)/1/3", why)
    if not m or isinstance(node, LazyStackedTensorDict):
        return False
    parts = m.group(1).split(".")
    for i in range(1, len(parts)):
        try:
            if isinstance(node.get(tuple(parts[:i])), LazyStackedTensorDict):
                return True
        except Exception:  # noqa
            return False
    return False


def run_fuzz(run, scratch, n_trees, n_ops):
    import c06_monitor as M
    from tensordict import LazyStackedTensorDict
    rng = random.Random(run.seed * 7919 + 17)
    stale = []

    def cb(ev):
        if ev.get("hit"):
            ok, why = M.same_result(ev["self"], ev["out"], ev["fresh"])
            if not ok:
                stale.append((ev["method"], type(ev["self"]).__name__, why))
    old = M.CALLBACK
    M.CALLBACK = cb
    counter = [0]
    accepted = refused = 0
    reported = set()
    try:
        for t in range(n_trees):
            tree = Tree(rng)
            try:
                tree.root.lock_()
            except Exception as e:  # noqa
                run.notes.append(f"fuzz: lock_ raised on a fresh tree: {type(e).__name__}: {str(e)[:80]}")
                continue
            prog = tree.prog + ["root.lock_()", "<memoise every read on every node>"]
            for step in range(n_ops):
                for n in tree.nodes.values():
                    read_all(n)
                try:
                    kind, text, thunk = gen_op(rng, tree, scratch / f"t{t}", counter)
                except Exception:  # noqa  (the generator reads the node: e.g. inconsistent names of the members of a stack)
                    continue
                try:
                    thunk()
                    accepted += 1
                    prog = prog + [text]
                except Exception as e:  # noqa
                    # refused -- but a refusal half-way (a multi-entry in-place write) has written some leaves: the reads are checked all the same
                    refused += 1
                    prog = prog + [f"{text}   # raised {type(e).__name__}"]
                run.case(("fuzz", t, step))
                bad = {}
                for expr, n in tree.nodes.items():
                    stale.clear()
                    read_all(n)
                    for meth, cls, why in stale:
                        # the one known finding (flatten_keys memoises stacked copies of the leaves of a lazy stack below) gets its own fingerprint
                        over_lazy = meth == "flatten_keys" and _diff_under_lazy_stack(n, why)
                        bad.setdefault(f"fuzz:{kind}:{meth}" + (":over-lazy-stack" if over_lazy else ""), (expr, meth, cls, why))
                for fp, (expr, meth, cls, why) in bad.items():
                    if fp not in reported:
                        reported.add(fp)
                        run.oracle_fail("fuzz", {"program": prog + [f"{expr}.{meth}   # memoised before the last statement"], "tree": t, "step": step},
                                        f"permitted under lock, but a memoised read went stale: {cls}.{meth} on {expr}: {why[:int(__import__("os").environ.get("W","300"))]}", fp)
                if bad and all(fp.endswith(":over-lazy-stack") for fp in bad):
                    for n in tree.nodes.values():      # known finding: drop the stale copies and go on with this tree
                        n._erase_cache()
                elif bad:
                    break      # the tree is now incoherent: further reports would be echoes
                else:
                    run.oracle_ok("fuzz")
    finally:
        M.CALLBACK = old
    run.count("fuzz", "operations_accepted_under_lock", accepted)
    run.count("fuzz", "operations_refused", refused)
