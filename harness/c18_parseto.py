"""C18: `_parse_to` (tensordict/utils.py) — the argument parser of TensorDict.to(...).

eager branch = torch's native `torch._C._nn._parse_to`; compile branch = the Python twin `_parse_to_py`.
Streams (model = Model/ParseTo.lean `parseToPy`, proved to be first-fit over the three native signatures):
  parse_to_native    torch._C._nn._parse_to(*args, **kwargs)        vs model   (validates the specification)
  parse_to_compile   tensordict.utils._parse_to with is_compiling() forced   vs model   (validates the transcription)
oracle `parse_to`: the two branches of `_parse_to` return the same (device, dtype, non_blocking, memory_format) or
raise the same exception class, for every spelling of the call.
"""
from __future__ import annotations

import itertools
import unittest.mock as mock

import torch

from common import parse_sx

DEVS = {0: "cpu", 50: "meta"}   # (accelerator index i is device id i + 1 in the model)
DTYPES = {0: torch.bool, 1: torch.int64, 2: torch.float64, 3: torch.float32, 4: torch.int32, 6: torch.complex128}
MEMFMTS = {0: torch.contiguous_format, 1: torch.channels_last, 2: torch.preserve_format}


def values():
    """(python value, s-expression) pairs"""
    out = [(None, "none"), ("cpu", "(dev 0)"), (torch.device("cpu"), "(dev 0)"), ("meta", "(dev 50)"), (torch.device("meta"), "(dev 50)"), (1, "(int 1)"), (0, "(int 0)"),
           ("float32", "badstr"), ("not a device", "badstr"),
           (torch.float64, "(dtype 2)"), (torch.int32, "(dtype 4)"), (torch.bool, "(dtype 0)"),
           (torch.zeros(1, dtype=torch.float32), "(tensor 0 3)"), (torch.zeros(2, dtype=torch.int32, device="meta"), "(tensor 50 4)"),
           (True, "(bool true)"), (False, "(bool false)"), (1.5, "(num 2)"), (3 + 2j, "(num 6)"),
           (torch.channels_last, "(memfmt 1)"), (torch.preserve_format, "(memfmt 2)"),
           ([], "other"), ({}, "other"), (b"cpu", "(dev 0)"), (b"xyz", "badstr")]
    return out


def canon(r):
    if isinstance(r, str):
        return r
    device, dtype, nb, mf = r
    inv_d = {v: k for k, v in DEVS.items()}
    inv_t = {v: k for k, v in DTYPES.items()}
    inv_m = {v: k for k, v in MEMFMTS.items()}
    return ["ok", "none" if device is None else (str(device.index + 1) if device.type == "cuda" else str(inv_d[device.type])), "none" if dtype is None else str(inv_t[dtype]),
            "true" if nb else "false", "none" if mf is None else str(inv_m[mf])]


def call(f, a, k):
    try:
        return canon(f(*a, **dict(k))[:4])
    except TypeError:
        return "TypeError"
    except RuntimeError:
        return "RuntimeError"
    except Exception as e:
        return "err:" + type(e).__name__


def parse_to(run):
    import tensordict.utils as U

    drv = run._drv
    rng = run.rng
    vals = values()
    kwnames = ["device", "dtype", "non_blocking", "copy", "memory_format", "tensor", "foo"]
    cases = []
    for npos in range(0, 3):
        for a in itertools.product(vals, repeat=npos):
            cases.append((a, ()))
    for name in kwnames:
        for v in vals:
            cases.append(((), ((name, v),)))
            cases.append(((vals[1],), ((name, v),)))
            cases.append(((vals[7],), ((name, v),)))
    n = 4000 if run.tier == "quick" else 60000
    for _ in range(n):
        a = tuple(rng.choice(vals) for _ in range(rng.choice([0, 1, 1, 2, 2, 3, 4, 5])))
        names = rng.sample(kwnames, rng.choice([0, 0, 1, 1, 2, 3]))
        cases.append((a, tuple((nm, rng.choice(vals)) for nm in names)))
    reqs = []
    for a, k in cases:
        reqs.append("(c18.parse_to (" + " ".join(s for _, s in a) + ") (" + " ".join(f"({nm} {s})" for nm, (_, s) in k) + "))")
    answers = drv.ask_many(reqs)
    native = torch._C._nn._parse_to
    for (a, k), req, ans in zip(cases, reqs, answers):
        m = parse_sx(ans)
        m = [str(x) for x in m] if isinstance(m, list) else m
        pa = tuple(v for v, _ in a)
        pk = tuple((nm, v) for nm, (v, _) in k)
        nat = call(native, pa, pk)
        outs = []
        for comp in (False, True):
            with mock.patch.object(U, "is_compiling", lambda c=comp: c):
                outs.append(call(U._parse_to, pa, pk))
        run.case(("parse_to", req))
        run.count("parse_to.outcome", nat if isinstance(nat, str) else "ok")
        run.count("parse_to.npos", len(a))
        run.corr("parse_to_native", req, nat, m)
        run.corr("parse_to_compile", req, outs[1], m)
        if outs[0] != outs[1]:
            run.oracle_fail("parse_to", req, f"eager branch={outs[0]} compile branch={outs[1]}", "parse_to")
        else:
            run.oracle_ok("parse_to")
    run.sample({"stream": "parse_to", "case": "(c18.parse_to ((dtype 2) (bool true)) ())", "model": drv.ask("(c18.parse_to ((dtype 2) (bool true)) ())")})
