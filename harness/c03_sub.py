"""C03 — `_SubTensorDict` (the object `__setitem__` uses for keys missing from the destination, also reachable as
`td._get_sub_tensordict(idx)`): correspondence with Td.subInit / subGet / subNames / subSet + the property oracle on its content."""
from __future__ import annotations

import json

import torch

import c03_gen as G
import c03_streams as S
import c03_write as W
from common import err_class, parse_sx, time_limit

TL = S.TL


def sub_sx(spec, idx):
    nm = "none" if spec["names"] is None else "(names " + " ".join("none" if n is None else n for n in spec["names"]) + ")"
    leaves = "(leaves" + "".join(" " + S.shape_sx("f", f) for f in spec["feats"]) + ")"
    return f"(c03.sub {S.shape_sx('bs', spec['bs'])} {nm} {leaves} {G.index_sx(idx)})"


def subset_sx(spec, idx, target, sh):
    leaves = "(leaves" + "".join(" " + S.shape_sx("f", f) for f in spec["feats"]) + ")"
    return f"(c03.subset {S.shape_sx('bs', spec['bs'])} {leaves} {G.index_sx(idx)} {target} {S.shape_sx('s', sh)})"


def gen_case(rng):
    bs = G.gen_bs(rng)
    idx = G.gen_index_adv(rng, bs) if rng.random() < 0.25 else G.gen_index(rng, bs, p_bad=0.05, p_overrun=0.05)
    if sum(1 for t in G.items_of(idx) if t == G.ELL) > 1:
        return None
    spec = S.gen_td_spec(rng, bs)
    spec["nested"] = []
    try:
        sb = list(torch.zeros(bs)[G.index_py(idx)].shape)
    except Exception:
        sb = [rng.randint(1, 3) for _ in range(rng.randint(0, 2))]
    if rng.random() < 0.3:
        target, feat = "new", [2]
    else:
        target = rng.randrange(len(spec["feats"]))
        feat = list(spec["feats"][target])
    r = rng.random()
    if r < 0.7:
        sh = sb + feat
    elif r < 0.8:
        sh = sb + [1 if rng.random() < 0.5 else x for x in feat]
    elif r < 0.9:
        sh = sb[1:] + feat
    else:
        sh = [rng.randint(0, 3) for _ in range(rng.randint(0, 3))]
    return spec, idx, target, sh


def subtd(run, drv):
    rng = run.rng
    n = 2500 if run.tier == "quick" else 20000
    cases = [c for c in (gen_case(rng) for _ in range(n)) if c is not None]
    a_read = S.ask_chunked(drv, [sub_sx(spec, idx) for spec, idx, _, _ in cases])
    a_write = S.ask_chunked(drv, [subset_sx({**spec, "names": None}, idx, t, sh) for spec, idx, t, sh in cases])
    for (spec, idx, target, sh), ar, aw in zip(cases, a_read, a_write):
        run.case(("sub", json.dumps(spec, sort_keys=True), G.index_sx(idx), str(target), json.dumps(sh)))
        py = G.index_py(idx)
        # ---------------- read side
        m = parse_sx(ar)
        if S.outcome(m) == "ok" and len(m) == 3:          # names or a leaf failed in the model
            m = ["ok", m[1], "err"]
        elif S.outcome(m) == "ok":
            m = ["ok", m[1], m[2], ["leaves"] + [S.fix_model_leaf(l, G.numel(spec["bs"] + f)) for l, f in zip(m[3][1:], spec["feats"])]]
        td = S.build_td(spec)
        st = None
        try:
            with time_limit(TL):
                st = td._get_sub_tensordict(py)
            bsz = ["bs"] + list(st.batch_size)
            try:
                with time_limit(TL):
                    nms = st.names
                    nms = "none" if all(x is None for x in nms) else ["names"] + ["none" if x is None else x for x in nms]
                    leaves = ["leaves"] + [S.leaf_answer(td.get(f"l{k}"), st.get(f"l{k}")) for k in range(len(spec["feats"]))]
                impl = ["ok", bsz, nms, leaves]
            except TimeoutError:
                raise
            except Exception:
                impl = ["ok", bsz, "err"]
        except TimeoutError:
            raise
        except Exception as e:
            impl = ["err", err_class(e)]
        run.count("sub.read", S.outcome(impl) if S.outcome(impl) != "ok" else ("ok" if len(impl) == 4 else "ok-then-err"))
        if S.outcome(impl) == "err" and S.outcome(m) == "err":
            run.corr("subtd_read", None, "err", "err")
        else:
            run.corr("subtd_read", {"td": spec, "idx": G.index_json(idx), "idx_raw": idx}, impl, m)
        # oracle on the content seen through the sub-tensordict (only where torch accepts the index on the batch shape)
        try:
            proxy = list(torch.zeros(spec["bs"])[py].shape)
        except Exception:
            proxy = None
        if proxy is not None and len(impl) == 4:
            probs = []
            if impl[1][1:] != proxy:
                probs.append(f"batch_size {impl[1][1:]} but torch gives {proxy}")
            else:
                for k, f in enumerate(spec["feats"]):
                    want = td.get(f"l{k}")[S.pad_for_leaf(idx, len(f))]
                    got = st.get(f"l{k}")
                    if got.shape != want.shape or not torch.equal(got, want):
                        probs.append(f"l{k}: {got.reshape(-1).tolist()[:10]} expected {want.reshape(-1).tolist()[:10]}")
            if probs:
                run.oracle_fail("subtd", {"mode": "sub-read", "td": spec, "idx": idx, "idx_str": G.index_json(idx)}, "; ".join(probs)[:400], "sub-values:" + G.stage_of(idx))
            else:
                run.oracle_ok("subtd")
        # ---------------- write side
        mw = parse_sx(aw)
        spec2 = {**spec, "names": None}
        td = S.build_td(spec2)
        before = {k: td.get(k).clone() for k in td.keys()}
        val = W.value_tensor(sh)
        key = "new" if target == "new" else f"l{target}"
        try:
            with time_limit(TL):
                st = td._get_sub_tensordict(py)
                if target == "new":
                    st.set("new", val)
                else:
                    st.set_(key, val)
            got = td.get(key)
            implw = ["ok", ["shape"] + list(got.shape), W.written_map(got)]
        except TimeoutError:
            raise
        except Exception as e:
            implw = ["err", err_class(e)]
        run.count("sub.write", S.outcome(implw) + ":" + ("new" if target == "new" else "existing"))
        ci, cm = implw, mw
        if W.has_duplicates(spec2, idx) and S.outcome(ci) == "ok" and S.outcome(cm) == "ok":
            ci = ["ok", ci[1], [-1 if x == -1 else 0 for x in ci[2]]]
            cm = ["ok", cm[1], [-1 if x == -1 else 0 for x in cm[2]]]
        if S.outcome(ci) == "err" and S.outcome(cm) == "err":
            run.corr("subtd_write", None, "err", "err")
        else:
            run.corr("subtd_write", {"td": spec2, "idx": G.index_json(idx), "idx_raw": idx, "target": target, "value_shape": sh}, ci, cm)
        if proxy is not None and S.outcome(implw) == "ok":
            # what was written is what torch writes for entry[idx] = value; every other entry is untouched
            if target == "new":
                e = torch.zeros(list(spec["bs"]) + sh[len(proxy):], dtype=torch.long)
                nfeat = len(sh) - len(proxy)
            else:
                e = before[key].clone()
                nfeat = len(spec["feats"][target])
            probs = []
            try:
                e[S.pad_for_leaf(idx, nfeat)] = val
                got = td.get(key)
                dup = W.has_duplicates(spec2, idx)
                same = got.shape == e.shape and (torch.equal(got < 0, e < 0) if dup else torch.equal(got, e))
                if not same:
                    probs.append(f"{key}: shape {list(got.shape)} {got.reshape(-1).tolist()[:12]} expected shape {list(e.shape)} {e.reshape(-1).tolist()[:12]}")
            except Exception as ex:
                probs.append(f"torch rejects entry[idx] = value ({err_class(ex)}); the sub-tensordict accepted it")
            for k, b in before.items():
                if k != key and not torch.equal(td.get(k), b):
                    probs.append(f"{k} changed although only {key} was assigned")
            if probs:
                run.oracle_fail("subtd", {"mode": "sub-write", "td": spec2, "idx": idx, "idx_str": G.index_json(idx), "target": target, "value_shape": sh}, "; ".join(probs)[:400], "sub-write:" + G.stage_of(idx))
            else:
                run.oracle_ok("subtd")


# ----------------------------------------------------------------------------- sub-tensordicts of sub-tensordicts (modelled)
def _dups(shape, idx):
    try:
        r = S.prov(shape)[G.index_py(idx)].reshape(-1).tolist()
    except Exception:
        return False
    return len(set(r)) != len(r)


def subsub_model(run, drv):
    """inner = td._get_sub_tensordict(i1)._get_sub_tensordict(i2): `inner.get(key)` and `inner[i3] = scalar / tensor` against
    Td.subsubGet / Td.subsubSet (the write-back chain of _SubTensorDict._set_at_str), judged on the ROOT; plus the oracle
    (composition of the three indices on a provenance tensor) where no index repeats an element."""
    rng = run.rng
    n = 1500 if run.tier == "quick" else 12000
    cases = []
    for _ in range(n):
        bs = [rng.randint(1, 4) for _ in range(rng.choice([1, 2, 2, 3]))]
        i1 = G.gen_index(rng, bs, p_bad=0.03, p_overrun=0.03)
        try:
            s1 = list(torch.zeros(bs)[G.index_py(i1)].shape)
        except Exception:
            s1 = [2]
        i2 = G.gen_index(rng, s1, p_bad=0.03, p_overrun=0.03)
        try:
            s2 = list(torch.zeros(s1)[G.index_py(i2)].shape)
        except Exception:
            s2 = [2]
        i3 = G.gen_index_adv(rng, s2) if rng.random() < 0.15 else G.gen_index(rng, s2, p_bad=0.03, p_overrun=0.03)
        if any(sum(1 for t in G.items_of(i) if t == G.ELL) > 1 for i in (i1, i2, i3)):
            continue
        feats = [[], [2]] if rng.random() < 0.5 else [[]]
        try:
            s3 = list(torch.zeros(s2)[G.index_py(i3)].shape)
        except Exception:
            s3 = []
        v = [] if (rng.random() < 0.6 or len(feats) > 1) else (s3 if rng.random() < 0.8 else s3[1:])
        cases.append((bs, feats, i1, i2, i3, v))
    lv = lambda feats: "(leaves" + "".join(" " + S.shape_sx("f", f) for f in feats) + ")"
    a_get = S.ask_chunked(drv, [f"(c03.subsubget {S.shape_sx('bs', bs)} {lv(feats)} {G.index_sx(i1)} {G.index_sx(i2)})" for bs, feats, i1, i2, i3, v in cases])
    a_set = S.ask_chunked(drv, [f"(c03.subsub {S.shape_sx('bs', bs)} {lv(feats)} {G.index_sx(i1)} {G.index_sx(i2)} {G.index_sx(i3)} {S.shape_sx('v', v)})" for bs, feats, i1, i2, i3, v in cases])
    for (bs, feats, i1, i2, i3, v), ag, aw in zip(cases, a_get, a_set):
        spec = {"bs": bs, "names": None, "feats": feats, "nested": []}
        run.case(("subsub-model", json.dumps(spec), G.index_sx(i1), G.index_sx(i2), G.index_sx(i3), json.dumps(v)))
        p1, p2, p3 = G.index_py(i1), G.index_py(i2), G.index_py(i3)
        # ---- read
        m = parse_sx(ag)
        if S.outcome(m) == "ok":
            m = ["ok", m[1], ["leaves"] + [S.fix_model_leaf(l, G.numel(bs + f)) for l, f in zip(m[2][1:], feats)]]
        td = S.build_td(spec)
        try:
            with time_limit(TL):
                inner = td._get_sub_tensordict(p1)._get_sub_tensordict(p2)
                impl = ["ok", ["bs"] + list(inner.batch_size),
                        ["leaves"] + [S.leaf_answer(td.get(f"l{k}"), inner.get(f"l{k}")) for k in range(len(feats))]]
        except TimeoutError:
            raise
        except Exception as e:
            impl = ["err", err_class(e)]
        if S.outcome(impl) == "err" and S.outcome(m) == "err":
            run.corr("subsub_read", None, "err", "err")
        else:
            run.corr("subsub_read", {"td": spec, "i1": G.index_json(i1), "i2": G.index_json(i2)}, impl, m)
        # ---- write, judged on the root
        mw = parse_sx(aw)
        td = S.build_td(spec)
        before = {k: td.get(f"l{k}").clone() for k in range(len(feats))}
        val = -1 if not v and rng.random() < 0.7 else W.value_tensor(v)
        try:
            with time_limit(TL):
                inner = td._get_sub_tensordict(p1)._get_sub_tensordict(p2)
                inner[p3] = val
            implw = ["ok"] + [W.written_map(td.get(f"l{k}")) for k in range(len(feats))]
        except TimeoutError:
            raise
        except Exception as e:
            implw = ["err", err_class(e)]
        run.count("subsub.write", S.outcome(implw))
        dup = _dups(bs, i1) or _dups(torch.zeros(bs)[p1].shape if S.outcome(impl) == "ok" else [1], i2) if S.outcome(impl) == "ok" else False
        ci, cm = implw, mw
        if S.outcome(ci) == "ok" and S.outcome(cm) == "ok" and (dup or G.numel(v) > 1):
            # repeated elements: which copy is written back last / which value element wins is torch's business
            ci = ["ok"] + [[-1 if x == -1 else 0 for x in leaf] for leaf in ci[1:]]
            cm = ["ok"] + [[-1 if x == -1 else 0 for x in leaf] for leaf in cm[1:]]
        if S.outcome(ci) == "err" and S.outcome(cm) == "err":
            run.corr("subsub_write", None, "err", "err")
        elif dup and S.outcome(ci) == "ok" and S.outcome(cm) == "ok":
            run.count("subsub.write", "dup-skipped")      # with a repeated window cell the survivor of the write-back is unspecified
        else:
            run.corr("subsub_write", {"td": spec, "i1": G.index_json(i1), "i2": G.index_json(i2), "i3": G.index_json(i3), "value_shape": v}, ci, cm)
        # oracle (no repeated element anywhere): exactly the elements [i1][i2][i3] of every entry of the root changed
        if S.outcome(implw) == "ok" and not dup:
            try:
                probs = []
                for k, f in enumerate(feats):
                    offs = S.prov(bs + f)[S.pad_for_leaf(i1, len(f))][S.pad_for_leaf(i2, len(f))][S.pad_for_leaf(i3, len(f))].reshape(-1)
                    if len(set(offs.tolist())) != len(offs):
                        probs = None
                        break
                    want = torch.zeros(G.numel(bs + f), dtype=torch.bool)
                    want[offs] = True
                    got = (td.get(f"l{k}") != before[k]).reshape(-1)
                    if not torch.equal(got, want):
                        probs.append(f"l{k} of the root: changed positions {got.nonzero().reshape(-1).tolist()[:12]} expected {want.nonzero().reshape(-1).tolist()[:12]}")
                if probs:
                    run.oracle_fail("subsub-model", {"mode": "sub-of-sub-write", "td": spec, "idx": i3, "idx_str": f"outer={G.index_json(i1)} inner={G.index_json(i2)} write={G.index_json(i3)}"[:300]},
                                    "; ".join(probs)[:400], "subsub-model:root-content")
                elif probs is not None:
                    run.oracle_ok("subsub-model")
            except Exception:
                pass
