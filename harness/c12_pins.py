"""C12 / C11 / C10: pin the SOURCE of the functions the Lean models transcribe.

`Gen/C12Src.lean` (regenerated on every run of the three checks) lists, per transcribed function, a hash of its AST (docstring removed:
comments, docstrings and formatting do not matter). `Model/C1xPins.lean` hold the hashes of the sources the models were transcribed
from and validated against; `Props.C1x.transcribed_sources_unchanged` states that they are equal. An edit of a transcribed function
is therefore noticed even when no sampled input behaves differently: the obligation fails until the model has been re-read against
the new source and the pins refreshed (`python harness/c12_pins.py --repin`, builder's action)."""
from __future__ import annotations

import ast
import hashlib
import re
import sys

from common import LEAN, REPO

HEADER = "-- GENERATED from the tensordict working tree by harness/c12_pins.py on every run; do not edit\n"

SOURCES = {
    "C12": [
        ("tensordict/utils.py", "_split_tensordict", "C12Chunk.splitTensordict / splitByCount / splitBySize, C12Iter.shuffledChunks"),
        ("tensordict/base.py", "TensorDictBase._map", "C12Chunk.mapModel / reassembleOut / mapSharedOut, C12Iter.mapIterModel"),
        ("tensordict/_td.py", "TensorDict._multithread_apply_flat", "C12Pool.submitKids / submitTree"),
        ("tensordict/_td.py", "TensorDict._multithread_rebuild", "C12Pool.rebuildKids / rebuildTree / setMode"),
        ("tensordict/utils.py", "TensorDictFuture.result", "await-all of the return_early front-ends"),
        ("tensordict/utils.py", "_proc_init", "C12Seed.workerSeeds (seed = base + worker id)"),
        ("tensordict/base.py", "TensorDictBase.map", "C12Seed: ids 0..num_workers-1 put once each on the queue; own pool around _map"),
    ],
    "C11": [
        ("tensordict/_reductions.py", "_rebuild_tensordict_files_consolidated", "C11Consolidate.decodeLeaf / rebuildSnap / leavesFirst, C11Rebuild.rebuildLoop"),
        ("tensordict/_reductions.py", "_consolidated_is_current", "C11Consolidate.describes"),
        ("tensordict/_reductions.py", "_normalize_metadata", "C11Consolidate.normDev / normNodes"),
        ("tensordict/_reductions.py", "_reduce_td", "C11Consolidate.reduceFixed / Op.reduce"),
        ("tensordict/_lazy.py", "LazyStackedTensorDict.from_dict", "C11Rebuild.lazyFromDict"),
        ("tensordict/base.py", "TensorDictBase.state_dict", "C11StateDict.stateDict"),
        ("tensordict/base.py", "TensorDictBase.load_state_dict", "C11StateDict.loadSD / loadSDEntries"),
        ("tensordict/_pytree.py", "_tensordict_flatten", "C11Pytree.flatten"),
        ("tensordict/_pytree.py", "_tensordict_unflatten", "C11Pytree.unflatten"),
    ],
    "C10": [
        ("tensordict/_td.py", "TensorDict._memmap_", "C10Memmap.tasksTree / tasksKids"),
        ("tensordict/_td.py", "TensorDict._load_memmap", "C10Memmap.load / loadEntries / loadInto"),
        ("tensordict/_td.py", "_populate_memmap", "C10Tensor.populate"),
        ("tensordict/_td.py", "_save_metadata", "C10Memmap.nodeMeta"),
        ("tensordict/_td.py", "_update_metadata", "C10Memmap.metaEntry / makeMemmap"),
        ("tensordict/_lazy.py", "LazyStackedTensorDict._load_memmap", "C10Memmap.loadMembers"),
        ("tensordict/memmap.py", "MemoryMappedTensor.from_tensor", "C10Tensor.fromTensor / mapAndCopy"),
        ("tensordict/memmap.py", "MemoryMappedTensor.from_filename", "C10Tensor.fromFilename"),
        ("tensordict/base.py", "TensorDictBase.load_memmap_", "C10Memmap.loadInto (+ trailing memmap_)"),
        ("tensordict/base.py", "TensorDictBase.memmap_refresh_", "C10Memmap.loadInto"),
        ("tensordict/memmap.py", "MemoryMappedTensor.filename", "C10Nested.recordedNames (the setter: Path(value).absolute())"),
        ("tensordict/tensorclass.py", "_memmap_", "C10MetaTask: the save_metadata task and the dict handed to _from_tensordict"),
        ("tensordict/tensorclass.py", "_from_tensordict", "C10MetaTask.addMissing"),
        ("tensordict/tensorclass.py", "NonTensorData._memmap_", "C10MetaTask.setMeta"),
    ],
}

_cache: dict[str, ast.Module] = {}


class Untranslatable(Exception):
    pass


def _module(rel):
    if rel not in _cache:
        _cache[rel] = ast.parse((REPO / rel).read_text())
    return _cache[rel]


def _find(rel, qual):
    parts = qual.split(".")
    body = _module(rel).body
    for cls in parts[:-1]:
        nxt = [n for n in body if isinstance(n, ast.ClassDef) and n.name == cls]
        if not nxt:
            raise Untranslatable(f"{rel}: class {cls} not found")
        body = nxt[-1].body
    fns = [n for n in body if isinstance(n, (ast.FunctionDef, ast.AsyncFunctionDef)) and n.name == parts[-1]]
    if not fns:
        raise Untranslatable(f"{rel}: function {qual} not found")
    return fns[-1]       # `@overload` / `@implement_for` stubs precede the implementation that runs


def fn_hash(rel, qual) -> str:
    fn = _find(rel, qual)
    body = list(fn.body)
    if body and isinstance(body[0], ast.Expr) and isinstance(getattr(body[0], "value", None), ast.Constant) and isinstance(body[0].value.value, str):
        body = body[1:]
    dump = ast.dump(ast.Module(body=[ast.FunctionDef(name=fn.name, args=fn.args, body=body or [ast.Pass()], decorator_list=fn.decorator_list,
                                                     returns=None, type_comment=None)], type_ignores=[]), include_attributes=False)
    return hashlib.sha256(dump.encode()).hexdigest()[:16]


def table(prop):
    return [(f"{rel}:{qual}", fn_hash(rel, qual)) for rel, qual, _ in SOURCES[prop]]


def lean_str(s):
    return '"' + s.replace("\\", "\\\\").replace('"', '\\"') + '"'


def lean_table(name, doc, rows):
    return f"/-- {doc} -/\ndef {name} : List (String × String) := [\n" + ",\n".join(f"  ({lean_str(k)}, {lean_str(h)})" for k, h in rows) + "\n]\n"


def gen_src():
    out = HEADER + "\nnamespace TdVerif.Gen\n\n"
    for prop in ("C12", "C11", "C10"):
        out += lean_table(f"c{prop[1:]}Sources", f"AST hash (docstring removed) of the functions the {prop} models transcribe, in the working tree", table(prop)) + "\n"
    return out + "end TdVerif.Gen\n"


def regenerate() -> bool:
    _cache.clear()
    p = LEAN / "TdVerif" / "Gen" / "C12Src.lean"
    text = gen_src()
    if p.exists() and p.read_text() == text:
        return False
    p.write_text(text)
    return True


def pins_path(prop):
    return LEAN / "TdVerif" / "Model" / f"{prop}Pins.lean"


def changed_since_pin(prop):
    p = pins_path(prop)
    pinned = dict(re.findall(r'\("([^"]+)", "([0-9a-f]+)"\)', p.read_text())) if p.exists() else {}
    return [k for k, h in table(prop) if pinned.get(k) != h]


def repin():
    for prop in ("C12", "C11", "C10"):
        text = ("/-\n  Hashes of the sources the models were transcribed from and last validated against (harness/c12_pins.py --repin).\n"
                "  Refreshed by the builder after re-reading the model against a changed function; compared with Gen/C12Src.lean by\n"
                f"  `Props.{prop}.transcribed_sources_unchanged`.\n-/\nnamespace TdVerif.{prop}\n\n"
                + lean_table(f"c{prop[1:]}Pinned", "pinned AST hashes", table(prop)) + f"\nend TdVerif.{prop}\n")
        pins_path(prop).write_text(text)


def for_check(run, prop):
    """called by check_Cxx before build_and_audit"""
    try:
        regenerate()
        for k in changed_since_pin(prop):
            run.notes.append(f"transcribed source changed since it was pinned: {k} (re-read the model against it, then c12_pins.py --repin)")
    except Untranslatable as e:
        run.proof_broken.append(f"generator:C12Src:{e}")
    run.trusted.append("harness/c12_pins.py (AST hashes of the transcribed functions; `transcribed_sources_unchanged` compares them with Model/"
                       f"{prop}Pins.lean on every run)")


if __name__ == "__main__":
    if "--repin" in sys.argv:
        repin()
        print("pinned")
    regenerate()
    print({p: changed_since_pin(p) for p in SOURCES})
