"""Regenerates the AUTOGEN block at the end of DESIGN.md from the machine-readable sources
(evidence/*.json, known_findings.json, seeded/*/meta.json, harness/manifest_texts, git log of /repo)."""
import json, subprocess
from pathlib import Path
V = Path("/verif")
out = []
kf = json.loads((V / "known_findings.json").read_text())["findings"]
props = [f"C{i:02d}" for i in range(1, 21)]
claimed = {p.stem for p in (V / "harness/manifest_texts").glob("C*.json")}
_ev = [json.loads(f.read_text()) for f in sorted((V / "evidence").glob("C*.json"))]
_nfix = len(subprocess.run(["git", "-C", "/repo", "log", "--format=%h", "4564555..main"], capture_output=True, text=True).stdout.split())
out.append("### A.0 Totals\n")
out.append(f"* properties claimed: {len(claimed)} of 20 (not_applicable: {20 - len(claimed)})")
out.append(f"* proof obligations (theorems of `Props/Cxx*.lean` + source-pin obligations) discharged / stated, summed over the last evidence files: "
           f"{sum(e['coverage'].get('discharged', 0) for e in _ev)} / {sum(e['coverage'].get('obligations', 0) for e in _ev)}")
out.append(f"* correspondence comparisons per quick sweep of all checks: {sum(e['coverage'].get('traces_validated_against_impl', 0) for e in _ev)}; oracle evaluations: "
           f"{sum(sum(e['coverage'].get('oracle_sites', {}).values()) for e in _ev)}")
out.append(f"* `fix:` commits on /repo main: {_nfix}; known findings recorded: {sum(1 for e in kf if e['status'] == 'finding')}")
out.append(f"* seeded changes kept under `seeded/`: {len(list((V / 'seeded').glob('C*-*')))} (two independent rounds, 3 per property per round)\n")
out.append("### A.1 Status per property (from the last committed evidence files)\n")
out.append("| prop | claimed | theorems (discharged/stated) | correspondence comparisons | oracle evaluations | known findings | fix: commits | quick wall s |")
out.append("|---|---|---|---|---|---|---|---|")
for p in props:
    ev = V / "evidence" / f"{p}.json"
    nf = sum(1 for e in kf if e["property"] == p and e["status"] == "finding")
    nx = sum(1 for e in kf if e["property"] == p and e["status"] == "fixed")
    if ev.exists():
        e = json.loads(ev.read_text()); c = e["coverage"]
        out.append(f"| {p} | {'yes' if p in claimed else 'no'} | {c.get('discharged')}/{c.get('obligations')} | {c.get('traces_validated_against_impl')} | {sum(c.get('oracle_sites', {}).values())} | {nf} | {nx} | {e.get('wall_s')} ({e.get('tier')}) |")
    else:
        out.append(f"| {p} | {'yes' if p in claimed else 'no'} | – | – | – | {nf} | {nx} | – |")
out.append("\n### A.2 Seeded changes (independent sub-agents, property text only) and which check catches them\n")
out.append("`first run` = result when the change was first tried against the check as it then was; `final` = result of "
           "`harness/retest_seeded.py` on the final tree (apply patch.diff to /repo, `./check Cxx --tier quick --seed 0`, undo): "
           "**input** = VIOLATION with a concrete failing input, **tie** = VIOLATION … no-failing-input-found (a source pin / proof "
           "obligation / correspondence broke, no failing input in the quick tier), **neutralised** = a later `fix:` commit made the "
           "change harmless (its own demo passes with the patch applied), **n/a** = the patch no longer applies to the repaired code "
           "(meta.json says how it was re-created or why not).\n")
res = json.loads((V / "seeded/RESULTS.json").read_text()) if (V / "seeded/RESULTS.json").exists() else {}
out.append("| id | property | what the change does | needs to manifest | first run | final |")
out.append("|---|---|---|---|---|---|")
tot = {"input": 0, "tie": 0, "missed": 0, "neutralised": 0, "n/a": 0}
for d in sorted((V / "seeded").glob("*/meta.json")):
    m = json.loads(d.read_text())
    summ = str(m.get("summary", "")).replace("|", "/").replace("\n", " ")[:220]
    need = str(m.get("needs_to_manifest", "")).replace("|", "/").replace("\n", " ")[:160]
    r = res.get(m.get("id"), {})
    if not r:
        fin = "?"
    elif not r.get("applies"):
        fin = "n/a"
    elif r.get("demo_patched") == 0:
        fin = "neutralised"
    elif r.get("exit") == 1:
        fin = "input" if r.get("failing_input") else "tie"
    elif r.get("exit") == 0:
        fin = "missed"
    else:
        fin = f"exit {r.get('exit')}"
    if fin in tot:
        tot[fin] += 1
    first = str(m.get("result_first_run", "")).split(" (")[0]
    out.append(f"| {m.get('id')} | {m.get('breaks_property')} | {summ} | {need} | {first} | **{fin}** |")
out.append(f"\nTotals on the final tree: {tot}.\n")
out.append("\n### A.3 Known findings (genuine defects recorded, not repaired)\n")
for e in kf:
    if e["status"] == "finding":
        out.append(f"* **{e['id']}** ({e['property']}): {e['description']}")
out.append("\n### A.4 Repaired defects (`fix:` commits on /repo main, oldest first)\n")
log = subprocess.run(["git", "-C", "/repo", "log", "--reverse", "--format=%h %s", "4564555..main"], capture_output=True, text=True).stdout.splitlines()
byc = {e.get("commit"): e["property"] for e in kf if e["status"] == "fixed"}
for l in log:
    h, s = l.split(" ", 1)
    out.append(f"* `{h}` [{byc.get(h, '?')}] {s}")
block = "\n".join(out) + "\n"
D = V / "DESIGN.md"
s = D.read_text()
B, E = "<!-- AUTOGEN:BEGIN (harness/make_design_tables.py) -->", "<!-- AUTOGEN:END -->"
if B in s:
    s = s[:s.index(B)] + B + "\n" + block + E + s[s.index(E) + len(E):]
else:
    s += "\n\n## Appendix A — generated tables\n\n" + B + "\n" + block + E + "\n"
D.write_text(s)
print("tables written:", len(out), "lines")
